#!/bin/bash
# Build the whole Coq development (full .vo build) and warm nothing else.
# Offline; everything comes from files on disk.
set -e
cd "$(dirname "$0")"
mkdir -p work evidence replays .cache/numba
/venv/bin/python harness/gen_consts.py
cd coq
{ echo "-Q . QE"; echo "-arg -w -arg -deprecated-hint-rewrite-without-locality,-deprecated-instance-without-locality,-notation-overridden,-ambiguous-paths"; find . -name '*.v' | sed 's|^\./||' | LC_ALL=C sort; } > _CoqProject
coq_makefile -f _CoqProject -o Makefile >/dev/null
timeout 3000 make -j"${VERIF_JOBS:-16}" 2>&1 | tail -n 40
test "${PIPESTATUS[0]}" -eq 0

#!/bin/bash
# Build the Coq development (full .vo build) for every claimed property. Offline.
# A property whose proofs do not build is reported by its own check (broken
# obligation), so a build error here does not abort the setup of the others.
cd "$(dirname "$0")"
mkdir -p work evidence replays .cache/numba
/venv/bin/python harness/gen_consts.py || echo "setup: gen_consts failed (checks will report it)"
/venv/bin/python harness/py2coq.py || echo "setup: py2coq failed (checks will report it)"
cd coq
{ echo "-Q . QE"; echo "-arg -w -arg -deprecated-hint-rewrite-without-locality,-deprecated-instance-without-locality,-notation-overridden,-ambiguous-paths"; find . -name '*.v' | sed 's|^\./||' | LC_ALL=C sort; } > _CoqProject
coq_makefile -f _CoqProject -o Makefile >/dev/null || exit 1
targets=""
for m in ../harness/meta/C*.json; do
  id=$(basename "$m" .json)
  for f in $id/Props*.v; do [ -f "$f" ] && targets="$targets ${f%.v}.vo"; done
done
timeout 3400 make -k -j"${VERIF_JOBS:-16}" $targets 2>&1 | grep -v "^COQDEP\|^COQC\|^Closed under" | tail -n 40
echo "setup: built targets:$targets"
exit 0

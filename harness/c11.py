"""C11: lcp_lemke -- success means a genuine solution; solvable classes are solved.

Correspondence: coq/C11/Model.v (NumQ instance, source tolerances from Gen/Consts.v) is evaluated inside Coq on
the exact rational value of every float the implementation received; status, success, num_iter are compared
exactly and z within 1e-9.  Oracle (independent, fractions.Fraction): complementary-basis enumeration decides
solvability; on success z>=0, Mz+q>=0, z.(Mz+q)=0 are checked on the implementation's z; success is required on
positive definite / P / strictly copositive matrices, status 2 on PSD only if unsolvable."""
import itertools
import numpy as np
from common import *

IMPORTS = "From QE Require Import Base.Pivot C11.Model Gen.Consts."
FINISH = dict(level="proof", technique_note=(
    "Coq theorems (coq/C11/Props.v) about the executable model coq/C11/Model.v + Base/Pivot.v; the model is tied to "
    "/repo by evaluating it with vm_compute (exact Q arithmetic, tolerances re-read from the source) on the inputs "
    "the implementation ran; independent Fraction oracle (2^n complementary bases, 3^n supports when degenerate). "
    "non-trivial = n>=2 and some q_i<0 (the pivoting path is executed)"))
TOLZ = Fraction(1, 10**9)
CTYPE = "nat * list (list Q) * list Q * list Q * nat * (list Q * bool * nat * nat)"
OK_SRC = ("fun c => let '(n, M, q, d, mi, (z, su, st, ni)) := c in "
          "let '(z', su', st', ni') := lcp_lemke n M q d mi lp_TOL_PIV lp_TOL_RATIO_DIFF in "
          "Bool.eqb su su' && Nat.eqb st st' && Nat.eqb ni ni' && Qs_close (1 # 1000000000) z' z")
CTYPE_F = "nat * list (list float) * list float * list float * nat * (list float * bool * nat * nat)"
OK_F = ("fun c => let '(n, M, q, d, mi, (z, su, st, ni)) := c in "
        "let '(z', su', st', ni') := lcp_lemke n M q d mi lp_TOL_PIV_f lp_TOL_RATIO_DIFF_f in "
        "Bool.eqb su su' && Nat.eqb st st' && Nat.eqb ni ni' && Fs_eqb z' z")
OK_TOL0 = ("fun c => let '(n, M, q, d, mi, (z, su, st, ni)) := c in "
           "let '(z', su', st', ni') := lcp_lemke n M q d mi 0%Q 0%Q in "
           "Bool.eqb su su' && Nat.eqb st st' && Nat.eqb ni ni' && Qs_close (1 # 1000000000) z' z")


# ---------------------------------------------------------------- exact linear algebra (oracle side)
def det(A):
    n = len(A)
    A = [r[:] for r in A]
    d = Fraction(1)
    for c in range(n):
        p = next((r for r in range(c, n) if A[r][c] != 0), None)
        if p is None:
            return Fraction(0)
        if p != c:
            A[c], A[p] = A[p], A[c]
            d = -d
        d *= A[c][c]
        for r in range(c + 1, n):
            f = A[r][c] / A[c][c]
            if f:
                A[r] = [a - f * b for a, b in zip(A[r], A[c])]
    return d


def solve_particular(C, q):
    """one solution u of C u = q (free variables 0) or None if inconsistent; C is rows x cols"""
    rows, cols = len(C), (len(C[0]) if C else 0)
    A = [list(C[i]) + [q[i]] for i in range(rows)]
    piv = []
    r = 0
    for c in range(cols):
        p = next((i for i in range(r, rows) if A[i][c] != 0), None)
        if p is None:
            continue
        A[r], A[p] = A[p], A[r]
        A[r] = [a / A[r][c] for a in A[r]]
        for i in range(rows):
            if i != r and A[i][c] != 0:
                f = A[i][c]
                A[i] = [a - f * b for a, b in zip(A[i], A[r])]
        piv.append(c)
        r += 1
        if r == rows:
            break
    for i in range(r, rows):
        if A[i][-1] != 0:
            return None
    u = [Fraction(0)] * cols
    for i, c in enumerate(piv):
        u[c] = A[i][-1]
    return u


def lcp_solvable(M, q):
    """exact: does z>=0, w=Mz+q>=0, z.w=0 have a solution?  Every solvable LCP has a solution that is a basic
    feasible solution of [I_{w-part} | -M_{z-part}] u = q, u >= 0 for some choice per index of w_j / z_j / neither;
    first the 2^n full complementary bases, then (degenerate case) all 3^n supports."""
    n = len(q)
    for choice_set in (("w", "z"), ("w", "z", None)):
        for ch in itertools.product(choice_set, repeat=n):
            if len(choice_set) == 3 and None not in ch:
                continue
            cols = [j for j in range(n) if ch[j] is not None]
            C = [[(Fraction(1 if i == j else 0) if ch[j] == "w" else -M[i][j]) for j in cols] for i in range(n)]
            u = solve_particular(C, q)
            if u is not None and all(x >= 0 for x in u):
                z = [Fraction(0)] * n
                for x, j in zip(u, cols):
                    if ch[j] == "z":
                        z[j] = x
                w = [sum(M[i][j] * z[j] for j in range(n)) + q[i] for i in range(n)]
                if all(x >= 0 for x in z) and all(x >= 0 for x in w) and sum(a * b for a, b in zip(z, w)) == 0:
                    return True, z
    return False, None


def principal_minors(S):
    n = len(S)
    for k in range(1, n + 1):
        for idx in itertools.combinations(range(n), k):
            yield det([[S[i][j] for j in idx] for i in idx])


def classify(M):
    """exact membership: set of classes among PD (x'Mx>0), P, PSD, SC (strictly copositive, sufficient test: all
    entries > 0, or PD)"""
    n = len(M)
    S = [[(M[i][j] + M[j][i]) / 2 for j in range(n)] for i in range(n)]
    cls = set()
    pm = list(principal_minors(S))
    if all(x > 0 for x in pm):
        cls |= {"PD", "SC", "PSD"}
    elif all(x >= 0 for x in pm):
        cls.add("PSD")
    if all(x > 0 for x in principal_minors(M)):
        cls.add("P")
    if all(M[i][j] > 0 for i in range(n) for j in range(n)):
        cls.add("SC")
    return cls


def check_solution(M, q, z):
    """z: Fractions (exact values of the returned floats). Returns None or a description of the violated condition."""
    n = len(q)
    w = [sum(M[i][j] * z[j] for j in range(n)) + q[i] for i in range(n)]
    scale = 1 + max([abs(x) for x in q] + [abs(x) for r in M for x in r] + [abs(x) for x in z])
    tol = TOLZ * scale * scale
    if any(x < -tol for x in z):
        return "z has a negative component %s" % [float(x) for x in z]
    if any(x < -tol for x in w):
        return "w = Mz+q has a negative component %s" % [float(x) for x in w]
    if abs(sum(a * b for a, b in zip(z, w))) > tol * n:
        return "z.(Mz+q) = %g is not 0" % float(sum(a * b for a, b in zip(z, w)))
    return None


# ---------------------------------------------------------------- generators
def gen_matrix(rng, n, kind, den):
    R = lambda lo, hi: Fraction(rng.randrange(lo, hi + 1), den)
    if kind == "PD":
        G = [[R(-2, 2) for _ in range(n)] for _ in range(n)]
        M = [[sum(G[k][i] * G[k][j] for k in range(n)) for j in range(n)] for i in range(n)]
        for i in range(n):
            M[i][i] += Fraction(rng.randrange(1, 3))
        if rng.random() < 0.4:       # non-symmetric positive definite: add a skew part
            for i in range(n):
                for j in range(i + 1, n):
                    s = R(-2, 2)
                    M[i][j] += s
                    M[j][i] -= s
        return M
    if kind == "P":
        if rng.random() < 0.5:       # strictly row diagonally dominant, positive diagonal
            M = [[R(-2, 2) for _ in range(n)] for _ in range(n)]
            for i in range(n):
                M[i][i] = sum(abs(M[i][j]) for j in range(n) if j != i) + Fraction(rng.randrange(1, 3), den)
            return M
        M = [[R(-3, 3) if j > i else Fraction(0) for j in range(n)] for i in range(n)]   # triangular
        for i in range(n):
            M[i][i] = Fraction(rng.randrange(1, 4), den)
        if rng.random() < 0.5:
            M = [list(r) for r in zip(*M)]
        return M
    if kind == "PSD":
        k = rng.randrange(0, n) if n > 1 else 0
        G = [[R(-2, 2) for _ in range(n)] for _ in range(k)]
        M = [[sum(G[t][i] * G[t][j] for t in range(k)) for j in range(n)] for i in range(n)]
        if rng.random() < 0.5:       # PSD + skew is still PSD (x'Mx unchanged)
            for i in range(n):
                for j in range(i + 1, n):
                    s = R(-2, 2)
                    M[i][j] += s
                    M[j][i] -= s
        return M
    if kind == "SC":
        return [[Fraction(rng.randrange(1, 5), den) for _ in range(n)] for _ in range(n)]
    return [[R(-3, 3) for _ in range(n)] for _ in range(n)]


def gen_case(rng, thorough, n_fixed=None):
    n = rng.choice([1, 2, 2, 3, 3, 3, 4, 4, 4, 5, 5, 6])
    if n_fixed is not None:
        n = n_fixed
    kind = rng.choice(["PD", "PD", "P", "PSD", "SC", "GEN"])
    den = rng.choice([1, 1, 1, 2, 4])
    M = gen_matrix(rng, n, kind, den)
    dmode = rng.choice(["none", "none", "rand", "rand", "ones"])
    d = None if dmode == "none" else [Fraction(1)] * n if dmode == "ones" else [Fraction(rng.randrange(1, 5), rng.choice([1, 1, 2])) for _ in range(n)]
    dd = d or [Fraction(1)] * n
    qmode = rng.randrange(8)
    if qmode == 0:
        q = [Fraction(rng.randrange(0, 4)) for _ in range(n)]                       # trivial exit
    elif qmode in (1, 2):                                                          # ties in min q_i/d_i
        q = [Fraction(rng.randrange(-4, 5), den) for _ in range(n)]
        r = min(min(q[i] / dd[i] for i in range(n)), Fraction(-1))
        for i in rng.sample(range(n), rng.randrange(1, n + 1)):
            q[i] = r * dd[i]
    elif qmode == 3:                                                               # all negative, non-monotone ratios
        q = [Fraction(-rng.randrange(1, 7), den) for _ in range(n)]
    else:
        q = [Fraction(rng.randrange(-5, 4), den) for _ in range(n)]
    mi = rng.choice([1000] * 12 + [1, 2, 3, 4])
    return dict(kind=kind, n=n, M=M, q=q, d=d, max_iter=mi, real=False)


def gen_real_case(rng):
    """real (non-dyadic) data: the exact binary values of the floats are what model and oracle see"""
    n = rng.choice([2, 3, 4, 5, 6])
    kind = rng.choice(["PD", "P", "SC", "GEN"])
    f = lambda lo, hi: round(rng.uniform(lo, hi), 3)
    if kind == "PD":
        G = np.array([[f(-1, 1) for _ in range(n)] for _ in range(n)])
        Mf = G.T @ G + np.diag([f(0.5, 1.5) for _ in range(n)])
    elif kind == "P":
        Mf = np.array([[f(-1, 1) for _ in range(n)] for _ in range(n)])
        for i in range(n):
            Mf[i, i] = sum(abs(Mf[i, j]) for j in range(n) if j != i) + f(0.5, 1.5)
    elif kind == "SC":
        Mf = np.array([[f(0.2, 3) for _ in range(n)] for _ in range(n)])
    else:
        Mf = np.array([[f(-2, 2) for _ in range(n)] for _ in range(n)])
    q = [frac(f(-3, 1.5)) for _ in range(n)]
    d = None if rng.random() < 0.5 else [frac(f(0.5, 3)) for _ in range(n)]
    return dict(kind=kind, n=n, M=[[frac(x) for x in r] for r in Mf.tolist()], q=q, d=d, max_iter=1000, real=True)


FIXED = [
    # the witness of the repaired defect D1 (old loop `ratio = ratio_min`) and relatives
    dict(kind="PD", n=3, M=[[2, -1, 0], [-1, 7, 4], [0, 4, 5]], q=[-2, -5, -3], d=None, max_iter=10**6),
    dict(kind="PD", n=3, M=[[2, -1, 0], [-1, 7, 4], [0, 4, 5]], q=[-2, -5, -3], d=[1, 1, 1], max_iter=1000),
    dict(kind="PD", n=3, M=[[2, -1, 0], [-1, 7, 4], [0, 4, 5]], q=[-4, -5, -3], d=[2, 1, 1], max_iter=1000),
    dict(kind="PD", n=4, M=[[3, 0, 1, 0], [0, 2, 0, 1], [1, 0, 4, 0], [0, 1, 0, 5]], q=[-1, -4, -2, -3], d=None, max_iter=1000),
    # test-suite style instances (ray terminations)
    dict(kind="GEN", n=3, M=[[1, 0, 0], [2, 1, 0], [2, 2, 1]], q=[-8, -12, -14], d=None, max_iter=1000),
    dict(kind="GEN", n=2, M=[[0, -1], [1, 0]], q=[-1, -1], d=None, max_iter=1000),
    dict(kind="PSD", n=2, M=[[0, 1], [-1, 0]], q=[-1, 1], d=None, max_iter=1000),
    dict(kind="PSD", n=1, M=[[0]], q=[-1], d=None, max_iter=1000),
    dict(kind="PSD", n=2, M=[[0, 0], [0, 0]], q=[0, -1], d=None, max_iter=1000),
    dict(kind="PD", n=1, M=[[2]], q=[-3], d=None, max_iter=1000),
    dict(kind="PD", n=1, M=[[2]], q=[-3], d=None, max_iter=0),
]


def run_impl(case):
    from quantecon.optimize import lcp_lemke
    n = case["n"]
    M = np.array([[float(x) for x in r] for r in case["M"]], dtype=float).reshape(n, n)
    q = np.array([float(x) for x in case["q"]], dtype=float)
    d = None if case["d"] is None else np.array([float(x) for x in case["d"]], dtype=float)
    res = lcp_lemke(M, q, d=d, max_iter=case["max_iter"])
    return [float(x) for x in res.z], bool(res.success), int(res.status), int(res.num_iter)


def gen_buffer_sequences(rng, nseq, thorough):
    """call SEQUENCES: 2-4 different problems of one size solved with ONE set of caller-supplied buffers (tableau, basis, z:
    every optional buffer of lcp_lemke), pre-filled with garbage (7.0 / 7) and never cleaned between the solves.
    mode 'all': tableau, basis and z; 'z': only z; 'tb': only the work arrays tableau and basis."""
    out = []
    for sid in range(nseq):
        n = rng.choice([2, 3, 3, 4, 4, 5, 6])
        mode = ["all", "all", "tb", "z"][sid % 4]
        dgiven = rng.random() < 0.5
        kind = rng.choice(["P", "P", "PD", "SC", None])       # the same class within a sequence (same stale structure)
        for pos in range(rng.randrange(2, 5)):
            for _ in range(20):
                case = gen_case(rng, thorough, n)
                if kind is None or case["kind"] == kind:
                    break
            if dgiven and case["d"] is None:
                case["d"] = [Fraction(rng.randrange(1, 4)) for _ in range(n)]
            if not dgiven:
                case["d"] = None
            case["max_iter"] = 1000
            case["buf"] = (sid, mode, pos)
            out.append(case)
    return out


def run_impl_buffers(case, store):
    from quantecon.optimize import lcp_lemke
    sid, mode, pos = case["buf"]
    n = case["n"]
    if sid not in store:
        store[sid] = dict(tableau=np.full((n, 2 * n + 2), 7.0), basis=np.full(n, 7, dtype=np.int_), z=np.full(n, 7.0))
    b = store[sid]
    names = {"all": ("tableau", "basis", "z"), "z": ("z",), "tb": ("tableau", "basis")}[mode]
    M = np.array([[float(x) for x in r] for r in case["M"]], dtype=float).reshape(n, n)
    q = np.array([float(x) for x in case["q"]], dtype=float)
    d = None if case["d"] is None else np.array([float(x) for x in case["d"]], dtype=float)
    res = lcp_lemke(M, q, d=d, max_iter=case["max_iter"], **{name: b[name] for name in names})
    problems = []
    if "z" in names and not (np.shares_memory(res.z, b["z"]) and np.array_equal(res.z, b["z"], equal_nan=True)):
        problems.append("res.z is not the supplied z buffer")
    return ([float(x) for x in res.z], bool(res.success), int(res.status), int(res.num_iter)), problems


def oracle(ctx, case, out, record=True):
    """returns list of (kind, what) failures of the property on this case"""
    z, success, status, num_iter = out
    M, q, n = case["M"], case["q"], case["n"]
    fails = []
    zf = [frac(x) for x in z]
    if success != (status == 0):
        fails.append(("lcp_status_flag", "success flag and status disagree"))
    if success:
        bad = check_solution(M, q, zf)
        if bad:
            fails.append(("lcp_success_not_solution", "success reported but " + bad))
    limited = case["max_iter"] < 1000
    if status == 1 and not limited:
        fails.append(("lcp_max_iter", "status 1 below a cap of %d iterations" % case["max_iter"]))
    if status == 2:
        cls = case["classes"]
        if cls & {"PD", "P", "SC"}:
            fails.append(("lcp_ray_on_solvable_class", "secondary ray (status 2) on a %s matrix" % sorted(cls)))
        elif "PSD" in cls:
            solv, zs = lcp_solvable(M, q)
            if record:
                ctx.count("psd_status2:" + ("solvable" if solv else "unsolvable"))
            if solv:
                fails.append(("lcp_ray_on_solvable_psd", "status 2 on a PSD matrix although z=%s solves the LCP" % [str(x) for x in zs]))
        elif record and n <= 4:
            solv, _ = lcp_solvable(M, q)
            ctx.count("general_status2:" + ("solvable" if solv else "unsolvable"))
    return fails


def case_input(case):
    return {"kind": case["kind"], "n": case["n"], "M": case["M"], "q": case["q"], "d": case["d"],
            "max_iter": case["max_iter"]}


def coq_case(case, out):
    n = case["n"]
    z, su, st, ni = out
    d = case["d"] or [Fraction(1)] * n
    return tup(natlit(n), qlist2(case["M"]), qlist(case["q"]), qlist(d),
               natlit(case["max_iter"]) if case["max_iter"] < 5000 else "(Z.to_nat %d)" % case["max_iter"],
               tup(qlist([frac(x) for x in z]), blit(su), natlit(st), natlit(ni)))


def coq_case_f(case, out):
    n = case["n"]
    z, su, st, ni = out
    d = case["d"] or [1.0] * n
    return tup(natlit(n), flist2([[float(x) for x in r] for r in case["M"]]), flist([float(x) for x in case["q"]]),
               flist([float(x) for x in d]),
               natlit(case["max_iter"]) if case["max_iter"] < 5000 else "(Z.to_nat %d)" % case["max_iter"],
               tup(flist(z), blit(su), natlit(st), natlit(ni)))


def normalise(case):
    case = dict(case)
    case["M"] = [[Fraction(x) for x in r] for r in case["M"]]
    case["q"] = [Fraction(x) for x in case["q"]]
    case["d"] = None if case["d"] is None else [Fraction(x) for x in case["d"]]
    case.setdefault("real", False)
    return case


def warmup():
    """compile / load the jitted entry point once; the numba cache directory is shared with concurrently running
    checks, so a cache race (OSError) is retried instead of aborting the run"""
    import time
    for attempt in range(6):
        try:
            run_impl(dict(n=1, M=[[Fraction(2)]], q=[Fraction(-1)], d=None, max_iter=10))
            run_impl(dict(n=1, M=[[Fraction(2)]], q=[Fraction(-1)], d=[Fraction(1)], max_iter=10))
            for i, mode in enumerate(("all", "z", "tb")):
                for d in (None, [Fraction(1)]):
                    run_impl_buffers(dict(n=1, M=[[Fraction(2)]], q=[Fraction(-1)], d=d, max_iter=10, buf=(i, mode, 0)), {})
            return
        except OSError:
            time.sleep(1.0 + attempt)
    raise RuntimeError("numba cache unusable after retries")


def run(ctx):
    thorough = ctx.tier == "thorough"
    warmup()
    ctx.proofs(["C11/Props.v", "C04/PropsTie.v", "C11/PropsTie.v"])
    N = 9000 if thorough else 440
    NR = 1500 if thorough else 100
    cases = [normalise(c) for c in FIXED]
    cases += [gen_case(ctx.rng, thorough) for _ in range(N)]
    cases += [gen_real_case(ctx.rng) for _ in range(NR)]
    cases += gen_buffer_sequences(ctx.rng, 200 if thorough else 40, thorough)
    coq_cases, coq_cases_f, outs = [], [], []
    bufstore = {}
    for case in cases:
        case["classes"] = classify(case["M"])
        if "buf" in case:
            # the model knows no buffers: the result must be the fresh-buffer result (compared with the model below AND with a
            # fresh-buffer run of the implementation here); the oracle runs on the RETURNED z
            out, problems = run_impl_buffers(case, bufstore)
            fresh = run_impl(case)
            ctx.count("buffer_sequence:%s:position=%d" % (case["buf"][1], case["buf"][2]))
            if out != fresh:
                problems.append("result with caller-supplied (reused / garbage-filled) buffers differs from the fresh-buffer result %r" % (fresh,))
            for what in problems:
                ctx.fail("lcp_buffers", what, dict(case_input(case), buffers=case["buf"][1], position_in_sequence=case["buf"][2]),
                         dict(zip(("z", "success", "status", "num_iter"), out)), None)
        else:
            out = run_impl(case)
        outs.append(out)
        z, su, st, ni = out
        nontriv = case["n"] >= 2 and any(x < 0 for x in case["q"])
        ctx.case(("lcp", case["n"], tuple(map(tuple, case["M"])), tuple(case["q"]), tuple(case["d"] or ()), case["max_iter"]),
                 nontrivial=nontriv, sample={"input": case_input(case), "impl": {"z": z, "success": su, "status": st, "num_iter": ni}})
        ctx.count("n=%d" % case["n"])
        ctx.count("class:" + (case["kind"] if case["kind"] in case["classes"] or case["kind"] == "GEN" else "GEN(reclassified)"))
        ctx.count("status=%d" % st)
        ctx.count("data:" + ("real" if case["real"] else "integer/dyadic"))
        ctx.count("d:" + ("default" if case["d"] is None else "given"))
        if any(x < 0 for x in case["q"]):
            dd = case["d"] or [Fraction(1)] * case["n"]
            r = [case["q"][i] / dd[i] for i in range(case["n"])]
            ctx.count("init_ratio_ties:" + ("yes" if r.count(min(r)) > 1 else "no"))
            neg = sorted(set(x for x in r if x < 0))
            ctx.count("negative_ratios>=3:" + ("yes" if sum(1 for x in r if x < 0) >= 3 else "no"))
        else:
            ctx.count("trivial_exit")
        ctx.count("num_iter:%s" % (ni if ni < 8 else ">=8"))
        for kind, what in oracle(ctx, case, out):
            ctx.fail(kind, what, case_input(case), {"z": z, "success": su, "status": st, "num_iter": ni}, None)
        coq_cases.append(coq_case(case, out))
        coq_cases_f.append(coq_case_f(case, out))
    # (1) bit-exact: binary64 instance of the model against the jitted implementation
    badF = ctx.coq_check("lcp_lemke_float_bitexact", IMPORTS, CTYPE_F, OK_F, coq_cases_f, chunk=100)
    for i in badF:
        model = ctx.coq_eval(IMPORTS, "let '(n, M, q, d, mi, _) := %s in lcp_lemke n M q d mi lp_TOL_PIV_f lp_TOL_RATIO_DIFF_f" % coq_cases_f[i])
        ctx.mismatch("C11.Model.lcp_lemke (binary64 instance) vs optimize.lcp_lemke: z, status, num_iter bit-exact",
                     case_input(cases[i]), dict(zip(("z", "success", "status", "num_iter"), outs[i])), model[:1500])
    # (2) exact arithmetic (the instance the theorems are about), tolerances of the source
    bad = ctx.coq_check("lcp_lemke_exactQ", IMPORTS, CTYPE, OK_SRC, coq_cases, chunk=60)
    for i in bad:
        case = cases[i]
        d = case["d"] or [Fraction(1)] * case["n"]
        mi = natlit(case["max_iter"]) if case["max_iter"] < 5000 else "(Z.to_nat %d)" % case["max_iter"]
        model = ctx.coq_eval(IMPORTS, "lcp_lemke %s %s %s %s %s lp_TOL_PIV lp_TOL_RATIO_DIFF" % (
            natlit(case["n"]), qlist2(case["M"]), qlist(case["q"]), qlist(d), mi))
        ctx.mismatch("C11.Model.lcp_lemke (exact Q instance) vs optimize.lcp_lemke (status, success, num_iter exact; z within 1e-9)",
                     case_input(case), dict(zip(("z", "success", "status", "num_iter"), outs[i])), model[:1500])
    # the theorems are about tolerance 0: on exact (integer/dyadic) data the run with tolerance 0 must coincide
    ex = [i for i, c in enumerate(cases) if not c["real"]]
    bad0 = ctx.coq_check("lcp_lemke_tol0", IMPORTS, CTYPE, OK_TOL0, [coq_cases[i] for i in ex], chunk=60)
    ctx.count("tol0_run_differs_from_source_tolerances", len(bad0))
    for j in bad0[:3]:
        ctx.notes.append("tolerance-0 run differs on %s" % json.dumps(jsonable(case_input(cases[ex[j]]))))
    ctx.count("tol0_run_equal", len(ex) - len(bad0))


def replay(data):
    first = data.get("first") or (data.get("mismatches") or [{}])[0]
    inp = first.get("input", {})
    print("replay input:", json.dumps(inp)[:1500])
    case = normalise(dict(kind=inp.get("kind", "GEN"), n=inp["n"], M=inp["M"], q=inp["q"], d=inp.get("d"),
                          max_iter=inp.get("max_iter", 1000)))
    case["classes"] = classify(case["M"])
    if inp.get("buffers"):      # caller-supplied buffers pre-filled with garbage (7.0): first solve of a sequence
        case["buf"] = (0, inp["buffers"], 0)
        outb, problems = run_impl_buffers(case, {})
        fresh = run_impl(case)
        print("with garbage-filled %s buffers: %r ; fresh buffers: %r ; %s" % (inp["buffers"], outb, fresh, problems))
        if outb != fresh:
            print("ORACLE FAIL lcp_buffers: result depends on the contents of the supplied buffers")
    out = run_impl(case)
    print("implementation: z=%s success=%s status=%s num_iter=%s" % out)

    class _C:
        def count(self, *a, **k):
            pass
    fails = oracle(_C(), case, out, record=False)
    print("classes:", sorted(case["classes"]), "exactly solvable:", lcp_solvable(case["M"], case["q"])[0])
    for kind, what in fails:
        print("ORACLE FAIL %s: %s" % (kind, what))
    if not fails:
        print("oracle: property holds on this input")
    return 0

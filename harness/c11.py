"""C11: lcp_lemke -- success means a genuine solution; solvable classes are solved.

Correspondence: coq/C11/Model.v (NumQ instance, source tolerances from Gen/Consts.v) is evaluated inside Coq on
the exact rational value of every float the implementation received; status, success, num_iter are compared
exactly and z within 1e-9.  Oracle (independent, fractions.Fraction): complementary-basis enumeration decides
solvability; on success z>=0, Mz+q>=0, z.(Mz+q)=0 are checked on the implementation's z; success is required on
positive definite / P / strictly copositive matrices, status 2 on PSD only if unsolvable."""
import itertools
import numpy as np
from common import *

IMPORTS = "From QE Require Import Base.Pivot C11.Model Gen.Consts."
FINISH = dict(level="proof", technique_note=(
    "Coq theorems (coq/C11/Props.v) about the executable model coq/C11/Model.v + Base/Pivot.v; the model is tied to "
    "/repo by evaluating it with vm_compute (exact Q arithmetic, tolerances re-read from the source) on the inputs "
    "the implementation ran; independent Fraction oracle (2^n complementary bases, 3^n supports when degenerate). "
    "non-trivial = n>=2 and some q_i<0 (the pivoting path is executed)"))
TOLZ = Fraction(1, 10**9)
CTYPE = "nat * list (list Q) * list Q * list Q * nat * (list Q * bool * nat * nat)"
OK_SRC = ("fun c => let '(n, M, q, d, mi, (z, su, st, ni)) := c in "
          "let '(z', su', st', ni') := lcp_lemke n M q d mi lp_TOL_PIV lp_TOL_RATIO_DIFF in "
          "Bool.eqb su su' && Nat.eqb st st' && Nat.eqb ni ni' && Qs_close (1 # 1000000000) z' z")
CTYPE_F = "nat * list (list float) * list float * list float * nat * (list float * bool * nat * nat)"
OK_F = ("fun c => let '(n, M, q, d, mi, (z, su, st, ni)) := c in "
        "let '(z', su', st', ni') := lcp_lemke n M q d mi lp_TOL_PIV_f lp_TOL_RATIO_DIFF_f in "
        "Bool.eqb su su' && Nat.eqb st st' && Nat.eqb ni ni' && Fs_eqb z' z")
OK_TOL0 = ("fun c => let '(n, M, q, d, mi, (z, su, st, ni)) := c in "
           "let '(z', su', st', ni') := lcp_lemke n M q d mi 0%Q 0%Q in "
           "Bool.eqb su su' && Nat.eqb st st' && Nat.eqb ni ni' && Qs_close (1 # 1000000000) z' z")


# ---------------------------------------------------------------- exact linear algebra (oracle side)
def det(A):
    n = len(A)
    A = [r[:] for r in A]
    d = Fraction(1)
    for c in range(n):
        p = next((r for r in range(c, n) if A[r][c] != 0), None)
        if p is None:
            return Fraction(0)
        if p != c:
            A[c], A[p] = A[p], A[c]
            d = -d
        d *= A[c][c]
        for r in range(c + 1, n):
            f = A[r][c] / A[c][c]
            if f:
                A[r] = [a - f * b for a, b in zip(A[r], A[c])]
    return d


def solve_particular(C, q):
    """one solution u of C u = q (free variables 0) or None if inconsistent; C is rows x cols"""
    rows, cols = len(C), (len(C[0]) if C else 0)
    A = [list(C[i]) + [q[i]] for i in range(rows)]
    piv = []
    r = 0
    for c in range(cols):
        p = next((i for i in range(r, rows) if A[i][c] != 0), None)
        if p is None:
            continue
        A[r], A[p] = A[p], A[r]
        A[r] = [a / A[r][c] for a in A[r]]
        for i in range(rows):
            if i != r and A[i][c] != 0:
                f = A[i][c]
                A[i] = [a - f * b for a, b in zip(A[i], A[r])]
        piv.append(c)
        r += 1
        if r == rows:
            break
    for i in range(r, rows):
        if A[i][-1] != 0:
            return None
    u = [Fraction(0)] * cols
    for i, c in enumerate(piv):
        u[c] = A[i][-1]
    return u


def lcp_solvable(M, q):
    """exact: does z>=0, w=Mz+q>=0, z.w=0 have a solution?  Every solvable LCP has a solution that is a basic
    feasible solution of [I_{w-part} | -M_{z-part}] u = q, u >= 0 for some choice per index of w_j / z_j / neither;
    first the 2^n full complementary bases, then (degenerate case) all 3^n supports."""
    n = len(q)
    for choice_set in (("w", "z"), ("w", "z", None)):
        for ch in itertools.product(choice_set, repeat=n):
            if len(choice_set) == 3 and None not in ch:
                continue
            cols = [j for j in range(n) if ch[j] is not None]
            C = [[(Fraction(1 if i == j else 0) if ch[j] == "w" else -M[i][j]) for j in cols] for i in range(n)]
            u = solve_particular(C, q)
            if u is not None and all(x >= 0 for x in u):
                z = [Fraction(0)] * n
                for x, j in zip(u, cols):
                    if ch[j] == "z":
                        z[j] = x
                w = [sum(M[i][j] * z[j] for j in range(n)) + q[i] for i in range(n)]
                if all(x >= 0 for x in z) and all(x >= 0 for x in w) and sum(a * b for a, b in zip(z, w)) == 0:
                    return True, z
    return False, None


def principal_minors(S):
    n = len(S)
    for k in range(1, n + 1):
        for idx in itertools.combinations(range(n), k):
            yield det([[S[i][j] for j in idx] for i in idx])


def classify(M):
    """exact membership: set of classes among PD (x'Mx>0), P, PSD, SC (strictly copositive, sufficient test: all
    entries > 0, or PD)"""
    n = len(M)
    S = [[(M[i][j] + M[j][i]) / 2 for j in range(n)] for i in range(n)]
    cls = set()
    pm = list(principal_minors(S))
    if all(x > 0 for x in pm):
        cls |= {"PD", "SC", "PSD"}
    elif all(x >= 0 for x in pm):
        cls.add("PSD")
    if all(x > 0 for x in principal_minors(M)):
        cls.add("P")
    if all(M[i][j] > 0 for i in range(n) for j in range(n)):
        cls.add("SC")
    return cls


def check_solution(M, q, z):
    """z: Fractions (exact values of the returned floats). Returns None or a description of the violated condition."""
    n = len(q)
    w = [sum(M[i][j] * z[j] for j in range(n)) + q[i] for i in range(n)]
    scale = 1 + max([abs(x) for x in q] + [abs(x) for r in M for x in r] + [abs(x) for x in z])
    tol = TOLZ * scale * scale
    if any(x < -tol for x in z):
        return "z has a negative component %s" % [float(x) for x in z]
    if any(x < -tol for x in w):
        return "w = Mz+q has a negative component %s" % [float(x) for x in w]
    if abs(sum(a * b for a, b in zip(z, w))) > tol * n:
        return "z.(Mz+q) = %g is not 0" % float(sum(a * b for a, b in zip(z, w)))
    return None


# ---------------------------------------------------------------- generators
def gen_matrix(rng, n, kind, den):
    R = lambda lo, hi: Fraction(rng.randrange(lo, hi + 1), den)
    if kind == "PD":
        G = [[R(-2, 2) for _ in range(n)] for _ in range(n)]
        M = [[sum(G[k][i] * G[k][j] for k in range(n)) for j in range(n)] for i in range(n)]
        for i in range(n):
            M[i][i] += Fraction(rng.randrange(1, 3))
        if rng.random() < 0.4:       # non-symmetric positive definite: add a skew part
            for i in range(n):
                for j in range(i + 1, n):
                    s = R(-2, 2)
                    M[i][j] += s
                    M[j][i] -= s
        return M
    if kind == "P":
        if rng.random() < 0.5:       # strictly row diagonally dominant, positive diagonal
            M = [[R(-2, 2) for _ in range(n)] for _ in range(n)]
            for i in range(n):
                M[i][i] = sum(abs(M[i][j]) for j in range(n) if j != i) + Fraction(rng.randrange(1, 3), den)
            return M
        M = [[R(-3, 3) if j > i else Fraction(0) for j in range(n)] for i in range(n)]   # triangular
        for i in range(n):
            M[i][i] = Fraction(rng.randrange(1, 4), den)
        if rng.random() < 0.5:
            M = [list(r) for r in zip(*M)]
        return M
    if kind == "PSD":
        k = rng.randrange(0, n) if n > 1 else 0
        G = [[R(-2, 2) for _ in range(n)] for _ in range(k)]
        M = [[sum(G[t][i] * G[t][j] for t in range(k)) for j in range(n)] for i in range(n)]
        if rng.random() < 0.5:       # PSD + skew is still PSD (x'Mx unchanged)
            for i in range(n):
                for j in range(i + 1, n):
                    s = R(-2, 2)
                    M[i][j] += s
                    M[j][i] -= s
        return M
    if kind == "SC":
        return [[Fraction(rng.randrange(1, 5), den) for _ in range(n)] for _ in range(n)]
    return [[R(-3, 3) for _ in range(n)] for _ in range(n)]


def gen_case(rng, thorough, n_fixed=None):
    n = rng.choice([1, 2, 2, 3, 3, 3, 4, 4, 4, 5, 5, 6])
    if n_fixed is not None:
        n = n_fixed
    kind = rng.choice(["PD", "PD", "P", "PSD", "SC", "GEN"])
    den = rng.choice([1, 1, 1, 2, 4])
    M = gen_matrix(rng, n, kind, den)
    dmode = rng.choice(["none", "none", "rand", "rand", "ones"])
    d = None if dmode == "none" else [Fraction(1)] * n if dmode == "ones" else [Fraction(rng.randrange(1, 5), rng.choice([1, 1, 2])) for _ in range(n)]
    dd = d or [Fraction(1)] * n
    qmode = rng.randrange(8)
    if qmode == 0:
        q = [Fraction(rng.randrange(0, 4)) for _ in range(n)]                       # trivial exit
    elif qmode in (1, 2):                                                          # ties in min q_i/d_i
        q = [Fraction(rng.randrange(-4, 5), den) for _ in range(n)]
        r = min(min(q[i] / dd[i] for i in range(n)), Fraction(-1))
        for i in rng.sample(range(n), rng.randrange(1, n + 1)):
            q[i] = r * dd[i]
    elif qmode == 3:                                                               # all negative, non-monotone ratios
        q = [Fraction(-rng.randrange(1, 7), den) for _ in range(n)]
    else:
        q = [Fraction(rng.randrange(-5, 4), den) for _ in range(n)]
    mi = rng.choice([1000] * 12 + [1, 2, 3, 4])
    return dict(kind=kind, n=n, M=M, q=q, d=d, max_iter=mi, real=False)


def gen_real_case(rng):
    """real (non-dyadic) data: the exact binary values of the floats are what model and oracle see"""
    n = rng.choice([2, 3, 4, 5, 6])
    kind = rng.choice(["PD", "P", "SC", "GEN"])
    f = lambda lo, hi: round(rng.uniform(lo, hi), 3)
    if kind == "PD":
        G = np.array([[f(-1, 1) for _ in range(n)] for _ in range(n)])
        Mf = G.T @ G + np.diag([f(0.5, 1.5) for _ in range(n)])
    elif kind == "P":
        Mf = np.array([[f(-1, 1) for _ in range(n)] for _ in range(n)])
        for i in range(n):
            Mf[i, i] = sum(abs(Mf[i, j]) for j in range(n) if j != i) + f(0.5, 1.5)
    elif kind == "SC":
        Mf = np.array([[f(0.2, 3) for _ in range(n)] for _ in range(n)])
    else:
        Mf = np.array([[f(-2, 2) for _ in range(n)] for _ in range(n)])
    q = [frac(f(-3, 1.5)) for _ in range(n)]
    d = None if rng.random() < 0.5 else [frac(f(0.5, 3)) for _ in range(n)]
    return dict(kind=kind, n=n, M=[[frac(x) for x in r] for r in Mf.tolist()], q=q, d=d, max_iter=1000, real=True)


FIXED = [
    # the witness of the repaired defect D1 (old loop `ratio = ratio_min`) and relatives
    dict(kind="PD", n=3, M=[[2, -1, 0], [-1, 7, 4], [0, 4, 5]], q=[-2, -5, -3], d=None, max_iter=10**6),
    dict(kind="PD", n=3, M=[[2, -1, 0], [-1, 7, 4], [0, 4, 5]], q=[-2, -5, -3], d=[1, 1, 1], max_iter=1000),
    dict(kind="PD", n=3, M=[[2, -1, 0], [-1, 7, 4], [0, 4, 5]], q=[-4, -5, -3], d=[2, 1, 1], max_iter=1000),
    dict(kind="PD", n=4, M=[[3, 0, 1, 0], [0, 2, 0, 1], [1, 0, 4, 0], [0, 1, 0, 5]], q=[-1, -4, -2, -3], d=None, max_iter=1000),
    # test-suite style instances (ray terminations)
    dict(kind="GEN", n=3, M=[[1, 0, 0], [2, 1, 0], [2, 2, 1]], q=[-8, -12, -14], d=None, max_iter=1000),
    dict(kind="GEN", n=2, M=[[0, -1], [1, 0]], q=[-1, -1], d=None, max_iter=1000),
    dict(kind="PSD", n=2, M=[[0, 1], [-1, 0]], q=[-1, 1], d=None, max_iter=1000),
    dict(kind="PSD", n=1, M=[[0]], q=[-1], d=None, max_iter=1000),
    dict(kind="PSD", n=2, M=[[0, 0], [0, 0]], q=[0, -1], d=None, max_iter=1000),
    dict(kind="PD", n=1, M=[[2]], q=[-3], d=None, max_iter=1000),
    dict(kind="PD", n=1, M=[[2]], q=[-3], d=None, max_iter=0),
]


def run_impl(case):
    from quantecon.optimize import lcp_lemke
    n = case["n"]
    M = np.array([[float(x) for x in r] for r in case["M"]], dtype=float).reshape(n, n)
    q = np.array([float(x) for x in case["q"]], dtype=float)
    d = None if case["d"] is None else np.array([float(x) for x in case["d"]], dtype=float)
    res = lcp_lemke(M, q, d=d, max_iter=case["max_iter"])
    return [float(x) for x in res.z], bool(res.success), int(res.status), int(res.num_iter)


def gen_buffer_sequences(rng, nseq, thorough):
    """call SEQUENCES: 2-4 different problems of one size solved with ONE set of caller-supplied buffers (tableau, basis, z:
    every optional buffer of lcp_lemke), pre-filled with garbage (7.0 / 7) and never cleaned between the solves.
    mode 'all': tableau, basis and z; 'z': only z; 'tb': only the work arrays tableau and basis."""
    out = []
    for sid in range(nseq):
        n = rng.choice([2, 3, 3, 4, 4, 5, 6])
        mode = ["all", "all", "tb", "z"][sid % 4]
        dgiven = rng.random() < 0.5
        kind = rng.choice(["P", "P", "PD", "SC", None])       # the same class within a sequence (same stale structure)
        for pos in range(rng.randrange(2, 5)):
            for _ in range(20):
                case = gen_case(rng, thorough, n)
                if kind is None or case["kind"] == kind:
                    break
            if dgiven and case["d"] is None:
                case["d"] = [Fraction(rng.randrange(1, 4)) for _ in range(n)]
            if not dgiven:
                case["d"] = None
            case["max_iter"] = 1000
            case["buf"] = (sid, mode, pos)
            out.append(case)
    return out


def run_impl_buffers(case, store):
    from quantecon.optimize import lcp_lemke
    sid, mode, pos = case["buf"]
    n = case["n"]
    if sid not in store:
        store[sid] = dict(tableau=np.full((n, 2 * n + 2), 7.0), basis=np.full(n, 7, dtype=np.int_), z=np.full(n, 7.0))
    b = store[sid]
    names = {"all": ("tableau", "basis", "z"), "z": ("z",), "tb": ("tableau", "basis")}[mode]
    M = np.array([[float(x) for x in r] for r in case["M"]], dtype=float).reshape(n, n)
    q = np.array([float(x) for x in case["q"]], dtype=float)
    d = None if case["d"] is None else np.array([float(x) for x in case["d"]], dtype=float)
    res = lcp_lemke(M, q, d=d, max_iter=case["max_iter"], **{name: b[name] for name in names})
    problems = []
    if "z" in names and not (np.shares_memory(res.z, b["z"]) and np.array_equal(res.z, b["z"], equal_nan=True)):
        problems.append("res.z is not the supplied z buffer")
    return ([float(x) for x in res.z], bool(res.success), int(res.status), int(res.num_iter)), problems


def oracle(ctx, case, out, record=True):
    """returns list of (kind, what) failures of the property on this case"""
    z, success, status, num_iter = out
    M, q, n = case["M"], case["q"], case["n"]
    fails = []
    zf = [frac(x) for x in z]
    if success != (status == 0):
        fails.append(("lcp_status_flag", "success flag and status disagree"))
    if success:
        bad = check_solution(M, q, zf)
        if bad:
            fails.append(("lcp_success_not_solution", "success reported but " + bad))
    limited = case["max_iter"] < 1000
    if status == 1 and not limited:
        fails.append(("lcp_max_iter", "status 1 below a cap of %d iterations" % case["max_iter"]))
    if status == 2:
        cls = case["classes"]
        if cls & {"PD", "P", "SC"}:
            fails.append(("lcp_ray_on_solvable_class", "secondary ray (status 2) on a %s matrix" % sorted(cls)))
        elif "PSD" in cls:
            solv, zs = lcp_solvable(M, q)
            if record:
                ctx.count("psd_status2:" + ("solvable" if solv else "unsolvable"))
            if solv:
                fails.append(("lcp_ray_on_solvable_psd", "status 2 on a PSD matrix although z=%s solves the LCP" % [str(x) for x in zs]))
        elif record and n <= 4:
            solv, _ = lcp_solvable(M, q)
            ctx.count("general_status2:" + ("solvable" if solv else "unsolvable"))
    return fails


def case_input(case):
    return {"kind": case["kind"], "n": case["n"], "M": case["M"], "q": case["q"], "d": case["d"],
            "max_iter": case["max_iter"]}


def coq_case(case, out):
    n = case["n"]
    z, su, st, ni = out
    d = case["d"] or [Fraction(1)] * n
    return tup(natlit(n), qlist2(case["M"]), qlist(case["q"]), qlist(d),
               natlit(case["max_iter"]) if case["max_iter"] < 5000 else "(Z.to_nat %d)" % case["max_iter"],
               tup(qlist([frac(x) for x in z]), blit(su), natlit(st), natlit(ni)))


def coq_case_f(case, out):
    n = case["n"]
    z, su, st, ni = out
    d = case["d"] or [1.0] * n
    return tup(natlit(n), flist2([[float(x) for x in r] for r in case["M"]]), flist([float(x) for x in case["q"]]),
               flist([float(x) for x in d]),
               natlit(case["max_iter"]) if case["max_iter"] < 5000 else "(Z.to_nat %d)" % case["max_iter"],
               tup(flist(z), blit(su), natlit(st), natlit(ni)))


def normalise(case):
    case = dict(case)
    case["M"] = [[Fraction(x) for x in r] for r in case["M"]]
    case["q"] = [Fraction(x) for x in case["q"]]
    case["d"] = None if case["d"] is None else [Fraction(x) for x in case["d"]]
    case.setdefault("real", False)
    return case


def warmup():
    """compile / load the jitted entry point once; the numba cache directory is shared with concurrently running
    checks, so a cache race (OSError) is retried instead of aborting the run"""
    import time
    for attempt in range(6):
        try:
            run_impl(dict(n=1, M=[[Fraction(2)]], q=[Fraction(-1)], d=None, max_iter=10))
            run_impl(dict(n=1, M=[[Fraction(2)]], q=[Fraction(-1)], d=[Fraction(1)], max_iter=10))
            for i, mode in enumerate(("all", "z", "tb")):
                for d in (None, [Fraction(1)]):
                    run_impl_buffers(dict(n=1, M=[[Fraction(2)]], q=[Fraction(-1)], d=d, max_iter=10, buf=(i, mode, 0)), {})
            return
        except OSError:
            time.sleep(1.0 + attempt)
    raise RuntimeError("numba cache unusable after retries")



# ---------------------------------------------------------------- hardening streams (dress / optional arguments / aliasing / scaling)
ARRAY_DRESS = ["int64", "int32", "float32", "F-order", "view-stride2", "view-rows-of-larger", "list", "tuple"]
OK_F0 = ("fun c => let '(n, M, q, d, mi, (z, su, st, ni)) := c in "
         "let '(z', su', st', ni') := lcp_lemke n M q d mi 0%float 0%float in "
         "Bool.eqb su su' && Nat.eqb st st' && Nat.eqb ni ni' && Fs_eqb z' z")


def dress_array(a, kind):
    a = np.asarray(a, dtype=float)
    if kind in ("int64", "int32", "float32"):
        return a.astype(getattr(np, kind))
    if kind == "F-order":
        return np.asfortranarray(a)
    if kind == "view-stride2":
        big = np.full(tuple(2 * d for d in a.shape), 7.0)
        v = big[tuple(slice(None, None, 2) for _ in a.shape)]
        v[...] = a
        return v
    if kind == "view-rows-of-larger":
        big = np.full(tuple(d + 2 for d in a.shape), 7.0)
        v = big[tuple(slice(1, 1 + d) for d in a.shape)]
        v[...] = a
        return v
    if kind == "list":
        return a.tolist()
    if kind == "tuple":
        return tuple(map(tuple, a.tolist())) if a.ndim == 2 else tuple(a.tolist())
    raise ValueError(kind)


def is_typing_rejection(e):
    """numba refuses the argument types at dispatch (documented types are float ndarrays): a rejection, not a result"""
    return (type(e).__name__ in ("TypingError", "TypeError", "NumbaTypeError", "UnsupportedError")
            or (isinstance(e, ValueError) and "fingerprint" in str(e)))


def lcp_arrays(case):
    n = case["n"]
    return dict(M=np.array([[float(x) for x in r] for r in case["M"]], dtype=float).reshape(n, n),
                q=np.array([float(x) for x in case["q"]], dtype=float),
                d=None if case["d"] is None else np.array([float(x) for x in case["d"]], dtype=float))


def lcp_hardening(ctx, cases, outs, thorough):
    """classes 1, 3, 4, 5, 6 of the hardening audit for lcp_lemke; canonical result = outs[i] (already compared with the models)"""
    from quantecon.optimize import lcp_lemke
    from quantecon.optimize.linprog_simplex import PivOptions, FEA_TOL, TOL_PIV, TOL_RATIO_DIFF
    rng = ctx.rng
    isint = lambda c: all(Fraction(v).denominator == 1 for v in c["q"] + [a for r in c["M"] for a in r] + (c["d"] or []))
    pool = [i for i, c in enumerate(cases) if "buf" not in c and c["max_iter"] == 1000 and not c["real"] and isint(c) and c["n"] >= 2
            and any(v < 0 for v in c["q"])]
    per = 6 if thorough else 2
    zero_cases = []

    def call(i, what, label, case=None, **kw):
        case = cases[i] if case is None else case
        args = lcp_arrays(case)
        args.update(what)
        snap = {k: (np.array(v, copy=True) if isinstance(v, np.ndarray) else v) for k, v in args.items()}
        ctx.count(label)
        ctx.case(("lcp-hardening", label, i), nontrivial=False)
        try:
            r = lcp_lemke(args["M"], args["q"], d=args["d"], **dict(dict(max_iter=1000), **kw))
        except Exception as e:
            if is_typing_rejection(e):
                ctx.count(label + ":rejected(TypingError)")
                return None
            ctx.fail("lcp_exception", "lcp_lemke raised %s on a valid input (%s)" % (repr(e)[:200], label), dict(case_input(case), dress=label), repr(e)[:200], None)
            return None
        out = ([float(x) for x in r.z], bool(r.success), int(r.status), int(r.num_iter))
        for k, v in args.items():
            if isinstance(v, np.ndarray):
                if not (v.dtype == snap[k].dtype and np.array_equal(v, snap[k])):
                    ctx.fail("lcp_mutates_argument", "lcp_lemke changed its argument %s (%s)" % (k, label), dict(case_input(case), dress=label), out, None)
                if np.shares_memory(r.z, v):
                    ctx.fail("lcp_result_aliases_argument", "z shares memory with argument %s (%s)" % (k, label), dict(case_input(case), dress=label), out, None)
        return out, r

    def expect_same(i, res, label):
        if res is None:
            return
        out = res[0]
        if out != outs[i]:
            ctx.fail("lcp_dress_changes_result", "result differs from the canonical float64 call (%s): %r" % (label, outs[i]),
                     dict(case_input(cases[i]), dress=label), dict(zip(("z", "success", "status", "num_iter"), out)), None)
            return
        for kind, what in oracle(ctx, cases[i], out, record=False):
            ctx.fail(kind, what + " (%s)" % label, dict(case_input(cases[i]), dress=label), out, None)

    pool_d = [i for i in pool if cases[i]["d"] is not None]
    frac_pool = [i for i in pool if outs[i][1] and any(v != int(v) for v in outs[i][0])] or pool   # non-integer z
    for kind in ARRAY_DRESS:
        for i in rng.sample(frac_pool, min(per, len(frac_pool))) + rng.sample(pool, per):
            a = lcp_arrays(cases[i])
            # M and q together (d: float64 ndarray or None, the only forms the jitted signature unifies with np.ones(n))
            expect_same(i, call(i, {"M": dress_array(a["M"], kind), "q": dress_array(a["q"], kind)}, "dress:M,q:" + kind), "M, q " + kind)
        i = rng.choice(pool)
        arg = rng.choice(["M", "q"])
        expect_same(i, call(i, {arg: dress_array(lcp_arrays(cases[i])[arg], kind)}, "dress:%s:%s" % (arg, kind)), "%s %s" % (arg, kind))
        i = rng.choice(pool_d)
        expect_same(i, call(i, {"d": dress_array(lcp_arrays(cases[i])["d"], kind)}, "dress:d:" + kind), "d " + kind)
    forms = [("python-int", 1000), ("np.int64", np.int64(1000)), ("np.int32", np.int32(1000)), ("np.intp", np.intp(1000))]
    if thorough:
        forms += [("np.uint16", np.uint16(1000)), ("np.int16", np.int16(1000))]
    for name, mi in forms:
        for i in rng.sample(pool, per):
            expect_same(i, call(i, {}, "max_iter:" + name, max_iter=mi), "max_iter " + name)
    for i in rng.sample(pool, per):
        a = lcp_arrays(cases[i])
        ctx.count("max_iter:omitted")
        r = lcp_lemke(a["M"], a["q"], d=a["d"])
        expect_same(i, (([float(x) for x in r.z], bool(r.success), int(r.status), int(r.num_iter)), r), "max_iter omitted")
        res = call(i, {}, "max_iter:0(falsy)", max_iter=0)      # the first pivot is always made: status 1, num_iter 1
        if res is not None and not (res[0][2] == 1 and res[0][1] is False and res[0][3] == 1):
            ctx.fail("lcp_max_iter_zero", "max_iter=0 must give status 1 after the initial pivot", dict(case_input(cases[i]), max_iter=0), res[0], None)
        if cases[i]["d"] is None:       # d omitted vs explicit ones
            expect_same(i, call(i, {"d": np.ones(cases[i]["n"])}, "d:explicit-ones-vs-omitted"), "d = ones")
    for i in rng.sample(pool, 3 * per):
        expect_same(i, call(i, {}, "piv_options:PivOptions()", piv_options=PivOptions()), "piv_options=PivOptions()")
        expect_same(i, call(i, {}, "piv_options:explicit-values", piv_options=PivOptions(FEA_TOL, TOL_PIV, TOL_RATIO_DIFF)), "explicit tolerances")
        res = call(i, {}, "piv_options:zeros(0.0)", piv_options=PivOptions(0.0, 0.0, 0.0))
        if res is not None:
            zero_cases.append((cases[i], res[0]))
    i, j = rng.sample(pool, 2)
    r1, r2 = call(i, {}, "alias:successive-results"), call(j, {}, "alias:successive-results")
    if r1 and r2 and np.shares_memory(r1[1].z, r2[1].z):
        ctx.fail("lcp_results_alias", "z of two successive calls share memory", case_input(cases[i]), None, None)
    # 5. degenerate sizes
    for label, c in (("size:n=0", dict(kind="GEN", n=0, M=[], q=[], d=None, max_iter=1000, real=False)),
                     ("size:n=1,q=0", dict(kind="PD", n=1, M=[[Fraction(1)]], q=[Fraction(0)], d=None, max_iter=1000, real=False)),
                     ("size:n=1,M=0,q<0", dict(kind="PSD", n=1, M=[[Fraction(0)]], q=[Fraction(-1)], d=None, max_iter=1000, real=False))):
        res = call(-1, {}, label, case=c)
        if res is not None:
            c["classes"] = classify(c["M"]) if c["n"] else set()
            for kind, what in (oracle(ctx, c, res[0], record=False) if c["n"] else []):
                ctx.fail(kind, what + " (%s)" % label, case_input(c), res[0], None)
            if c["n"] == 0 and not (res[0][0] == [] and res[0][1] and res[0][2] == 0):
                ctx.fail("lcp_empty", "n=0 must return the empty solution with success", case_input(c), res[0], None)
    # 4./5. exact tolerances crossed with near-ties (1e-9 .. 1e-8) in the initial ratio test min q_i/d_i and in later ratios
    near_default = []
    for _ in range(16 if thorough else 5):
        i = rng.choice(pool)
        c = dict(cases[i])
        q = list(c["q"])
        dd = c["d"] or [Fraction(1)] * c["n"]
        r = [q[t] / dd[t] for t in range(c["n"])]
        t0 = r.index(min(r))
        t1 = rng.choice([t for t in range(c["n"]) if t != t0])
        q[t1] = (min(r) + frac(rng.choice([1e-9, 3e-9, 1e-8])) * rng.choice([1, -1])) * dd[t1]
        c["q"] = [frac(float(v)) for v in q]
        c["real"] = True
        c["classes"] = cases[i]["classes"]
        for label, po in (("near-tie:default-tolerances", PivOptions()), ("near-tie:zero-tolerances", PivOptions(0.0, 0.0, 0.0))):
            res = call(-1, {}, label, case=c, piv_options=po)
            if res is None:
                continue
            if "zero" in label:
                zero_cases.append((c, res[0]))     # exact tolerances on inexact data: model correspondence only
            else:
                near_default.append((c, res[0]))   # a quantity inside (0, tol]: outside the quantifier, model correspondence only
    return zero_cases, near_default


def lcp_scaled_stream(ctx, thorough):
    """oracle-only: integer problems with (M, q) or d scaled by 1e6 / 1e3 / 1e-1"""
    rng = ctx.rng
    for t in range(150 if thorough else 30):
        c = gen_case(rng, thorough)
        if c["max_iter"] != 1000:
            c["max_iter"] = 1000
        # exact scalings only (1/8 instead of 1e-1), so that the exact class membership of M is not blurred by rounding
        fam = ["(M,q)*1e6", "(M,q)*1e3", "(M,q)/8", "d*1e3", "q*1e6"][t % 5]
        sc = {"(M,q)*1e6": Fraction(10**6), "(M,q)*1e3": Fraction(10**3), "(M,q)/8": Fraction(1, 8)}.get(fam)
        if sc is not None:
            c["M"] = [[frac(float(a * sc)) for a in r] for r in c["M"]]
            c["q"] = [frac(float(v * sc)) for v in c["q"]]
        elif fam == "d*1e3":
            c["d"] = [v * 1000 for v in (c["d"] or [Fraction(1)] * c["n"])]
        else:
            c["q"] = [v * 10**6 for v in c["q"]]
        c["real"] = True
        c["classes"] = classify(c["M"])
        ctx.count("scaled:" + fam)
        ctx.case(("lcp-scaled", fam, tuple(map(tuple, c["M"])), tuple(c["q"])), nontrivial=c["n"] >= 2)
        try:
            out = run_impl(c)
        except Exception as e:
            ctx.fail("lcp_exception", "lcp_lemke raised %s on a valid (scaled) input" % repr(e)[:200], case_input(c), repr(e)[:200], None)
            continue
        for kind, what in oracle(ctx, c, out, record=False):
            ctx.fail(kind, what + " (%s)" % fam, case_input(c), dict(zip(("z", "success", "status", "num_iter"), out)), None)


def run(ctx):
    thorough = ctx.tier == "thorough"
    warmup()
    ctx.proofs(["C11/Props.v", "C04/PropsTie.v", "C11/PropsTie.v"])
    N = 9000 if thorough else 440
    NR = 1500 if thorough else 100
    cases = [normalise(c) for c in FIXED]
    cases += [gen_case(ctx.rng, thorough) for _ in range(N)]
    cases += [gen_real_case(ctx.rng) for _ in range(NR)]
    cases += gen_buffer_sequences(ctx.rng, 200 if thorough else 40, thorough)
    coq_cases, coq_cases_f, outs = [], [], []
    bufstore = {}
    for case in cases:
        case["classes"] = classify(case["M"])
        if "buf" in case:
            # the model knows no buffers: the result must be the fresh-buffer result (compared with the model below AND with a
            # fresh-buffer run of the implementation here); the oracle runs on the RETURNED z
            out, problems = run_impl_buffers(case, bufstore)
            fresh = run_impl(case)
            ctx.count("buffer_sequence:%s:position=%d" % (case["buf"][1], case["buf"][2]))
            if out != fresh:
                problems.append("result with caller-supplied (reused / garbage-filled) buffers differs from the fresh-buffer result %r" % (fresh,))
            for what in problems:
                ctx.fail("lcp_buffers", what, dict(case_input(case), buffers=case["buf"][1], position_in_sequence=case["buf"][2]),
                         dict(zip(("z", "success", "status", "num_iter"), out)), None)
        else:
            try:
                out = run_impl(case)
            except OSError:
                raise
            except Exception as e:      # any exception on a valid problem is a violation with that input, never a harness crash
                ctx.fail("lcp_exception", "lcp_lemke raised %s on a valid problem" % repr(e)[:200], case_input(case), repr(e)[:200], None)
                out = ([0.0] * case["n"], False, 1, 0)
        outs.append(out)
        z, su, st, ni = out
        nontriv = case["n"] >= 2 and any(x < 0 for x in case["q"])
        ctx.case(("lcp", case["n"], tuple(map(tuple, case["M"])), tuple(case["q"]), tuple(case["d"] or ()), case["max_iter"]),
                 nontrivial=nontriv, sample={"input": case_input(case), "impl": {"z": z, "success": su, "status": st, "num_iter": ni}})
        ctx.count("n=%d" % case["n"])
        ctx.count("class:" + (case["kind"] if case["kind"] in case["classes"] or case["kind"] == "GEN" else "GEN(reclassified)"))
        ctx.count("status=%d" % st)
        ctx.count("data:" + ("real" if case["real"] else "integer/dyadic"))
        ctx.count("d:" + ("default" if case["d"] is None else "given"))
        if any(x < 0 for x in case["q"]):
            dd = case["d"] or [Fraction(1)] * case["n"]
            r = [case["q"][i] / dd[i] for i in range(case["n"])]
            ctx.count("init_ratio_ties:" + ("yes" if r.count(min(r)) > 1 else "no"))
            neg = sorted(set(x for x in r if x < 0))
            ctx.count("negative_ratios>=3:" + ("yes" if sum(1 for x in r if x < 0) >= 3 else "no"))
        else:
            ctx.count("trivial_exit")
        ctx.count("num_iter:%s" % (ni if ni < 8 else ">=8"))
        for kind, what in oracle(ctx, case, out):
            ctx.fail(kind, what, case_input(case), {"z": z, "success": su, "status": st, "num_iter": ni}, None)
        coq_cases.append(coq_case(case, out))
        coq_cases_f.append(coq_case_f(case, out))
    # (1) bit-exact: binary64 instance of the model against the jitted implementation
    badF = ctx.coq_check("lcp_lemke_float_bitexact", IMPORTS, CTYPE_F, OK_F, coq_cases_f, chunk=100)
    for i in badF:
        model = ctx.coq_eval(IMPORTS, "let '(n, M, q, d, mi, _) := %s in lcp_lemke n M q d mi lp_TOL_PIV_f lp_TOL_RATIO_DIFF_f" % coq_cases_f[i])
        ctx.mismatch("C11.Model.lcp_lemke (binary64 instance) vs optimize.lcp_lemke: z, status, num_iter bit-exact",
                     case_input(cases[i]), dict(zip(("z", "success", "status", "num_iter"), outs[i])), model[:1500])
    # (1b) hardening streams: dress, optional arguments, aliasing, degenerate sizes, near-ties with exact tolerances, scaled data
    zero_cases, near_default = lcp_hardening(ctx, cases, outs, thorough)
    lcp_scaled_stream(ctx, thorough)
    for nm, okf, cs in (("lcp_lemke_float_bitexact:tolerances-0(piv_options zeros, near-ties)", OK_F0, zero_cases),
                        ("lcp_lemke_float_bitexact:near-ties", OK_F, near_default)):
        badz = ctx.coq_check(nm, IMPORTS, CTYPE_F, okf, [coq_case_f(c, o) for c, o in cs], chunk=20)
        for i in badz:
            ctx.mismatch("C11.Model.lcp_lemke (binary64 instance) vs optimize.lcp_lemke: " + nm, case_input(cs[i][0]),
                         dict(zip(("z", "success", "status", "num_iter"), cs[i][1])), "")
    # (2) exact arithmetic (the instance the theorems are about), tolerances of the source
    bad = ctx.coq_check("lcp_lemke_exactQ", IMPORTS, CTYPE, OK_SRC, coq_cases, chunk=60)
    for i in bad:
        case = cases[i]
        d = case["d"] or [Fraction(1)] * case["n"]
        mi = natlit(case["max_iter"]) if case["max_iter"] < 5000 else "(Z.to_nat %d)" % case["max_iter"]
        model = ctx.coq_eval(IMPORTS, "lcp_lemke %s %s %s %s %s lp_TOL_PIV lp_TOL_RATIO_DIFF" % (
            natlit(case["n"]), qlist2(case["M"]), qlist(case["q"]), qlist(d), mi))
        ctx.mismatch("C11.Model.lcp_lemke (exact Q instance) vs optimize.lcp_lemke (status, success, num_iter exact; z within 1e-9)",
                     case_input(case), dict(zip(("z", "success", "status", "num_iter"), outs[i])), model[:1500])
    # the theorems are about tolerance 0: on exact (integer/dyadic) data the run with tolerance 0 must coincide
    ex = [i for i, c in enumerate(cases) if not c["real"]]
    bad0 = ctx.coq_check("lcp_lemke_tol0", IMPORTS, CTYPE, OK_TOL0, [coq_cases[i] for i in ex], chunk=60)
    ctx.count("tol0_run_differs_from_source_tolerances", len(bad0))
    for j in bad0[:3]:
        ctx.notes.append("tolerance-0 run differs on %s" % json.dumps(jsonable(case_input(cases[ex[j]]))))
    ctx.count("tol0_run_equal", len(ex) - len(bad0))


def replay(data):
    first = data.get("first") or (data.get("mismatches") or [{}])[0]
    inp = first.get("input", {})
    print("replay input:", json.dumps(inp)[:1500])
    case = normalise(dict(kind=inp.get("kind", "GEN"), n=inp["n"], M=inp["M"], q=inp["q"], d=inp.get("d"),
                          max_iter=inp.get("max_iter", 1000)))
    case["classes"] = classify(case["M"])
    if inp.get("buffers"):      # caller-supplied buffers pre-filled with garbage (7.0): first solve of a sequence
        case["buf"] = (0, inp["buffers"], 0)
        outb, problems = run_impl_buffers(case, {})
        fresh = run_impl(case)
        print("with garbage-filled %s buffers: %r ; fresh buffers: %r ; %s" % (inp["buffers"], outb, fresh, problems))
        if outb != fresh:
            print("ORACLE FAIL lcp_buffers: result depends on the contents of the supplied buffers")
    out = run_impl(case)
    print("implementation: z=%s success=%s status=%s num_iter=%s" % out)

    class _C:
        def count(self, *a, **k):
            pass
    fails = oracle(_C(), case, out, record=False)
    print("classes:", sorted(case["classes"]), "exactly solvable:", lcp_solvable(case["M"], case["q"])[0])
    for kind, what in fails:
        print("ORACLE FAIL %s: %s" % (kind, what))
    if not fails:
        print("oracle: property holds on this input")
    return 0

"""C01: DiscreteDP.solve (vi / pi / mpi / lp) returns an optimal (eps-optimal) policy and value.
Instance generator, formulations and the exact Fraction oracle are shared with c09.py."""
import itertools, math, warnings
import numpy as np
from common import *
import c09
from c09 import (Inst, gen_inst, make_form, build, float_term, fl, dense, o_bellman, o_policy_value, o_vals, all_policies,
                 num_policies, close, sigma_is_near_greedy, dyadic_v, FORM_KINDS, TOL, TOLQ)

IMPORTS = "From Coq Require Import Qabs Arith FloatOps SpecFloat.\nFrom QE Require Import C09.Solve C09.Model C01.Model."
FINISH = dict(level="proof", technique_note=(
    "Coq theorems (coq/C01/Props.v) over Q about the executable models coq/C09/Model.v + coq/C01/Model.v (monotonicity, "
    "contraction, optimality of a converged policy iteration); model tied to /repo by vm_compute runs on the implementation's "
    "inputs: pi in exact Q arithmetic (v within 1e-9, sigma a maximiser), vi/mpi with the PrimFloat instance of the same "
    "Gallina text (same num_iter, v within 1e-9); lp decided by correspondence with pi + oracle only; independent oracle = "
    "exact Fraction policy enumeration / Bellman-equation certificate. non-trivial = instance with >= 2 states and some "
    "state with >= 2 feasible actions"))

IMPORTS_LP = ("From Coq Require Import Arith.\nFrom QE Require Import Gen.Consts Base.Pivot C04.Model C09.Solve C09.Model "
              "C01.Model C01.ModelLP.")
PREAMBLE_LP = r"""
Definition with_ok {A} (c : cres (ddp A)) (f : ddp A -> bool) : bool := match c with COk d => f d | _ => false end.
Definition optsF : @PivOptions float := {| fea_tol := lp_FEA_TOL_f; tol_piv := lp_TOL_PIV_f; tol_ratio_diff := lp_TOL_RATIO_DIFF_f |}.
"""
PREAMBLE = c09.PREAMBLE + "Definition TOLF : float := %s.\n" % fl(1e-9) + r"""
Definition f2q (x : float) : Q :=
  match Prim2SF x with
  | S754_finite s m e => let z := if s then Zneg m else Zpos m in
                         if (0 <=? e)%Z then inject_Z (z * 2 ^ e) else Qmake z (Z.to_pos (2 ^ (- e)))
  | _ => 0
  end.
Definition fs2q := map f2q.
Definition vi_err {T} {NT : Num T} (d : ddp T) (v0 : list T) (k : nat) : T :=
  let w := iter_k (bellman_operator d) (k - 1) v0 in sup_dist (bellman_operator d w) w.
Definition borderline (tol : option float) (err : float) : bool :=
  match tol with None => false
  | Some t => Qle_bool (Qabs (f2q err - f2q t)) ((1 # 1000000000) * (1 + Qabs (f2q t))) end.
Definition near_actions (tol : Q) (d : ddp Q) (v : list Q) (s : nat) : list nat :=
  let vl := vals d v in let lo := getn (d_indptr d) s in let hi := getn (d_indptr d) (S s) in
  match gete vl (seg_argmax vl lo hi) with
  | Fin mx => flat_map (fun j => match gete vl j with
                                 | Fin x => if Qle_bool (mx - x) (tol * (1 + Qabs mx)) then [getn (d_aidx d) j] else []
                                 | NegInf => [] end) (seq lo (hi - lo))
  | NegInf => []
  end.
Fixpoint cart (l : list (list nat)) : list (list nat) :=
  match l with [] => [[]] | x :: r => flat_map (fun a => map (cons a) (cart r)) x end.
Definition near_policies (tol : Q) (d : ddp Q) (v : list Q) : list (list nat) :=
  firstn 64 (cart (map (near_actions tol d v) (seq 0 (d_n d)))).
Fixpoint pi_front (tol : Q) (d : ddp Q) (front : list (list nat)) (k : nat) : list (list nat) :=
  match k with
  | O => front
  | S k' => pi_front tol d (firstn 64 (flat_map (fun sg => match evaluate_policy d sg with
                                                          | Some w => near_policies tol d w | None => [] end) front)) k'
  end.
Definition pi_tie_ok (tol : Q) (d : ddp Q) (vi : option (list Q)) (k : nat) (v : list Q) (sg : list nat) : bool :=
  let v0 := match vi with Some x => x | None => R_max d end in
  existsb (fun s => match evaluate_policy d s with
                    | Some w => Qs_close tol w v && near_greedy tol d w sg
                    | None => false end)
          (pi_front tol d (near_policies tol d v0) (k - 1)).
Definition same_pair (d : ddp float) (i j : nat) : bool :=
  match gete (d_R d) i, gete (d_R d) j with
  | Fin x, Fin y => PrimFloat.eqb x y && Fs_eqb (getrow (d_Q d) i) (getrow (d_Q d) j)
  | _, _ => false
  end.
Definition amb_state (d : ddp float) (vl : list (ext float)) (s : nat) : bool :=
  let lo := getn (d_indptr d) s in let hi := getn (d_indptr d) (S s) in
  let m := seg_argmax vl lo hi in
  match gete vl m with
  | Fin mx => existsb (fun j => negb (Nat.eqb j m) && negb (same_pair d j m) &&
                               match gete vl j with
                               | Fin x => PrimFloat.leb (PrimFloat.sub mx x) (PrimFloat.mul TOLF (PrimFloat.add 1 (PrimFloat.abs mx)))
                               | NegInf => false end) (seq lo (hi - lo))
  | NegInf => false
  end.
Fixpoint mpi_amb_loop (d : ddp float) (v : list float) (fuel k : nat) (tol : option float) : bool :=
  match fuel with
  | O => false
  | S f =>
      if existsb (amb_state d (vals d v)) (seq 0 (d_n d)) then true
      else let u := bellman_operator d v in
           if lt_tol (span (vsub u v)) tol then false
           else match RQ_sigma_fin d (compute_greedy d v) with
                | None => false
                | Some (Rs, Qs) => mpi_amb_loop d (iter_k (T_sigma_rq (d_beta d) Rs Qs) k u) f k tol
                end
  end.
Definition mpi_ambiguous (d : ddp float) (vi : option (list float)) (eps : float) (cap kk : nat) : bool :=
  let v0 := match vi with Some v => v | None => repeat (PrimFloat.div (finite_R_min d) (PrimFloat.sub 1 (d_beta d))) (d_n d) end in
  mpi_amb_loop d v0 cap kk (mpi_tol eps (d_beta d)).
Definition mpi_prev (d : ddp float) (vi : option (list float)) (eps : float) (k kk : nat) : list float :=
  match k with
  | S (S j) => match modified_policy_iteration d vi eps (S j) kk with Some (w, _, _, _) => w | None => [] end
  | _ => match vi with Some v => v | None => repeat (PrimFloat.div (finite_R_min d) (PrimFloat.sub 1 (d_beta d))) (d_n d) end
  end.
"""


def oracle_opt(inst):
    """exact optimal value by Howard policy iteration in Fractions, certified by the Bellman equation T v = v
    (uniqueness of the fixed point: beta < 1); independent of the Coq model."""
    sigma = [inst.feasible(s)[0] for s in range(inst.n)]
    for _ in range(10000):
        v = o_policy_value(inst, sigma)
        Tv, arg = o_bellman(inst, v)
        if Tv == v:
            return v
        sigma = [sigma[s] if sigma[s] in arg[s] else arg[s][0] for s in range(inst.n)]
    raise RuntimeError("oracle policy iteration did not terminate")


def oracle_opt_enum(inst):
    """componentwise maximum over all deterministic stationary policies of the exact policy value"""
    best = None
    for p in all_policies(inst):
        v = o_policy_value(inst, p)
        best = v if best is None else [max(x, y) for x, y in zip(best, v)]
    return best


def qopt(v):
    return "None" if v is None else "(Some %s)" % qlist(v)


def fopt(v):
    return "None" if v is None else "(Some %s)" % flist([float(x) for x in v])


def run(ctx):
    thorough = ctx.tier == "thorough"
    rng = ctx.rng
    ctx.proofs(["C01/Props.v", "C01/PropsConsts.v", "C01/PropsLP.v", "C09/PropsTie.v", "C04/PropsTie.v"])
    warnings.filterwarnings("ignore")
    from quantecon.markov import DiscreteDP

    n_inst = 300 if thorough else 56
    insts = [
        Inst(2, 2, [[Fraction(5), Fraction(10)], [Fraction(-1), None]],
             [[[Fraction(1, 2), Fraction(1, 2)], [Fraction(0), Fraction(1)]], [[Fraction(0), Fraction(1)], [Fraction(1, 2), Fraction(1, 2)]]],
             Fraction(19, 20), False, "puterman"),
        Inst(2, 3, [[Fraction(1)] * 3, [None, Fraction(0), Fraction(0)]],
             [[[Fraction(1), Fraction(0)]] * 3, [[Fraction(0), Fraction(1)]] * 3], Fraction(3, 4), True, "corner-all-ties"),
        Inst(1, 2, [[Fraction(1), Fraction(2)]], [[[Fraction(1)], [Fraction(1)]]], Fraction(0), True, "corner-beta0"),
    ]
    insts.append(gen_inst(rng, n=3, m=2, beta=Fraction(1023, 1024)))       # beta next to 1
    insts.append(gen_inst(rng, n=1, m=1, beta=Fraction(1, 2)))
    while len(insts) < n_inst:
        insts.append(gen_inst(rng, nmax=6 if thorough else 5, mmax=4))

    pi_cases, pi_meta = [], []
    vi_cases, vi_meta = [], []
    viq_cases, viq_meta = [], []
    mpi_cases, mpi_meta = [], []
    lp_cases, lp_meta = [], []

    def same_res(a, b, exact=True, inst=None):
        """exact: identical v, sigma, num_iter.  Otherwise (another memory layout / storage format / dtype of the same data, where
        BLAS may sum in another order): v within 1e-9, num_iter within 1 (borderline stopping test), and sigma compared tie-aware:
        it must be a maximiser of the exact values at the returned v (rounding may break an exact tie differently)"""
        if np.asarray(a.v).dtype != np.float64:
            return False
        if exact:
            return a.num_iter == b.num_iter and np.array_equal(a.sigma, b.sigma) and np.array_equal(a.v, b.v)
        if abs(a.num_iter - b.num_iter) > 1 or not np.allclose(a.v, b.v, rtol=1e-9, atol=1e-9):
            return False
        if np.array_equal(a.sigma, b.sigma) or inst is None:
            return np.array_equal(a.sigma, b.sigma)
        return sigma_is_near_greedy(inst, [frac(float(x)) for x in a.v], [int(x) for x in a.sigma])

    def alias_solve(inst, form, ddp, inp0, kind):
        methods = ["vi", "pi", "mpi"] + ([] if "sparse" in kind else ["lp"])
        v1 = np.array([float(rng.randrange(-5, 6)) for _ in range(inst.n)]); v2 = v1[::-1].copy() + 1.0
        snap = c09.snapshot_args(form.args)

        def run_calls(d, K):
            for mth in methods:
                for tag, vv in (("v1#a", v1), ("v2#b", v2)):
                    res = d.solve(method=mth, v_init=None if vv is None else vv, max_iter=40 if mth != "lp" else None)
                    K.keep("solve(%s).v %s" % (mth, tag), res.v); K.keep("solve(%s).sigma %s" % (mth, tag), res.sigma)
                    K.keep("solve(%s).mc.P %s" % (mth, tag), res.mc.P)
            return K
        K = run_calls(ddp, c09.Keeper())
        ow = K.overwritten()
        if ow:
            ctx.fail("result_overwritten_by_later_call", "an array of an earlier DPSolveResult was changed by a later solve on the same object: " + "; ".join(ow[:4]),
                     dict(inp0, v1=v1, v2=v2, overwritten=ow), None, None)
        attrs = [("ddp.R", ddp.R), ("ddp.Q", ddp.Q), ("v1", v1), ("v2", v2)] + \
            [("constructor argument %d" % i_, a_) for i_, a_ in enumerate(form.args) if isinstance(a_, np.ndarray) or hasattr(a_, "toarray")]
        al = K.aliases(attrs)
        if al:
            ctx.fail("result_aliasing", "results of different solve calls (or a result and an argument / stored attribute) share memory: %r" % (al[:3],),
                     dict(inp0, pairs=al[:6]), None, None)
        expected = [(nm, c) for nm, _, c in K.items]
        K.scribble()
        if not np.array_equal(v2, v1[::-1] + 1.0):
            ctx.fail("result_aliases_internal_state", "a returned array aliases v_init", inp0, None, None)
        for who, d in (("same object", ddp), ("fresh object", DiscreteDP(*form.args))):
            K2 = run_calls(d, c09.Keeper())
            wrong = [nm for (nm, c), (_, _, c2) in zip(expected, K2.items) if c.shape != c2.shape or not np.allclose(c, c2, rtol=1e-12, atol=1e-12)]
            if wrong:
                ctx.fail("result_aliases_internal_state", "after the caller overwrote returned arrays, the same solve calls on the %s give other values: %s" % (who, "; ".join(wrong[:4])),
                         dict(inp0, v1=v1, v2=v2, wrong=wrong, object=who), None, None)
        if not c09.args_unchanged(form.args, snap):
            ctx.fail("result_aliases_internal_state", "overwriting returned arrays changed a constructor argument", inp0, None, None)
        ctx.count("alias:keep-and-recheck"); ctx.count("alias:scribble same+fresh"); ctx.count("alias:shares_memory")

    def harden_solve(inst, form, ddp, inp0, kind, fterm, check_opt):
        sparse = "sparse" in kind
        methods = ["vi", "pi", "mpi"] + ([] if sparse else ["lp"])
        snap = c09.snapshot_args(form.args)
        vint = [rng.randrange(-5, 6) for _ in range(inst.n)]
        vf = np.array(vint, dtype=float)
        calls = [("vi", {}), ("pi", {}), ("mpi", {"k": 0}), ("vi", {"epsilon": 0.0, "max_iter": 30}), ("mpi", {"epsilon": 0.0, "max_iter": 12, "k": 2}),
                 ("pi", {"max_iter": 1}), ("vi", {"max_iter": 1}), ("mpi", {"max_iter": 1, "k": 1}), ("mpi", {"k": 5, "epsilon": 1e-1}),
                 ("vi", {"v_init": vf.copy(), "epsilon": 1e-2}), ("pi", {"v_init": vf.copy()})]
        if not sparse:
            calls += [("lp", {}), ("lp", {"max_iter": 1}), ("lp", {"v_init": vf.copy()})]
        rng.shuffle(calls)
        if not thorough:
            calls = calls[:7]
        # 2. ONE object reused for every call, each compared with a FRESH object; 3. results must not alias
        results = []
        for mth, kw in calls:
            kw1 = {k_: (v_.copy() if isinstance(v_, np.ndarray) else v_) for k_, v_ in kw.items()}
            res = ddp.solve(method=mth, **kw1)
            fresh = DiscreteDP(*form.args).solve(method=mth, **kw)
            if not same_res(res, fresh):
                ctx.fail("state", "solve on a reused DiscreteDP object differs from the same call on a fresh object",
                         dict(inp0, method=mth, kwargs={k_: jsonable(v_) for k_, v_ in kw.items()}),
                         {"v": res.v, "sigma": res.sigma, "num_iter": res.num_iter}, {"v": fresh.v, "sigma": fresh.sigma, "num_iter": fresh.num_iter})
            if "v_init" in kw1 and not np.array_equal(kw1["v_init"], vf):
                ctx.fail("argument_mutated", "solve modified v_init", dict(inp0, method=mth), None, None)
            if any(np.shares_memory(res.v, r_.v) or np.shares_memory(res.sigma, r_.sigma) for r_ in results) or \
                    ("v_init" in kw1 and np.shares_memory(res.v, kw1["v_init"])):
                ctx.fail("aliasing", "results of different solve calls (or v_init) share memory", dict(inp0, method=mth), None, None)
            results.append(res)
            cap = kw.get("max_iter", ddp.max_iter * inst.n if mth == "lp" else ddp.max_iter)
            eps = kw.get("epsilon", ddp.epsilon)
            # 4. falsy-but-valid values must be honoured: epsilon = 0.0 never stops before the cap (beta > 0); max_iter = 1 is one step
            if eps == 0.0 and inst.beta > 0 and res.num_iter != cap:
                ctx.fail("falsy_argument", "epsilon=0.0 was not honoured (stopped before max_iter)", dict(inp0, method=mth, max_iter=cap), res.num_iter, cap)
            if kw.get("max_iter") == 1 and mth != "lp" and res.num_iter != 1:
                ctx.fail("falsy_argument", "max_iter=1 was not honoured", dict(inp0, method=mth), res.num_iter, 1)
            ctx.count("seq:reused object %s %s" % (mth, ",".join(sorted("%s=%s" % (k_, "array" if isinstance(v_, np.ndarray) else v_) for k_, v_ in kw.items())) or "defaults"))
            # the same calls also go to the model comparison
            vi_ = vint if "v_init" in kw else None
            imp = {"v": res.v, "sigma": res.sigma, "num_iter": res.num_iter}
            if mth == "vi":
                vi_cases.append(tup(fterm, form.coq, fopt(vi_), fl(eps), natlit(cap), qlist([frac(x) for x in res.v]), natlist([int(x) for x in res.sigma]), natlit(res.num_iter)))
                vi_meta.append(dict(inp0, method="vi", v_init=vi_, epsilon=eps, max_iter=cap, impl=imp))
            elif mth == "mpi":
                kk = kw.get("k", 20)
                mpi_cases.append(tup(fterm, form.coq, fopt(vi_), fl(eps), natlit(cap), natlit(kk), qlist([frac(x) for x in res.v]), natlist([int(x) for x in res.sigma]), natlit(res.num_iter)))
                mpi_meta.append(dict(inp0, method="mpi", v_init=vi_, epsilon=eps, max_iter=cap, k=kk, impl=imp))
            elif mth == "pi":
                pi_cases.append(tup(form.coq, qopt(None if vi_ is None else [Fraction(x) for x in vi_]), natlit(cap), qlist([frac(x) for x in res.v]), natlist([int(x) for x in res.sigma]), natlit(res.num_iter)))
                pi_meta.append(dict(inp0, method="pi", v_init=vi_, max_iter=cap, impl=imp))
            else:
                lp_cases.append(tup(fterm, form.coq, qopt(None if vi_ is None else [Fraction(x) for x in vi_]), fopt(vi_), natlit(cap), flist([float(x) for x in res.v]), natlist([int(x) for x in res.sigma]), natlit(res.num_iter)))
                lp_meta.append(dict(inp0, method="lp", v_init=vi_, max_iter=cap, impl=imp))
        if not c09.args_unchanged(form.args, snap):
            ctx.fail("argument_mutated", "solve modified a constructor argument", inp0, None, None)
        # 4. optional arguments omitted vs supplied explicitly with their default values; NumPy scalar dress of epsilon / max_iter / k
        for mth in methods:
            base = ddp.solve(method=mth)
            expl = {"vi": {"epsilon": ddp.epsilon, "max_iter": ddp.max_iter, "v_init": None}, "pi": {"max_iter": ddp.max_iter, "v_init": None},
                    "mpi": {"epsilon": ddp.epsilon, "max_iter": ddp.max_iter, "k": 20, "v_init": None},
                    "lp": {"max_iter": ddp.max_iter * inst.n, "v_init": None}}[mth]
            if not same_res(ddp.solve(method=mth, **expl), base):
                ctx.fail("optional_argument", "solve(%s) with the defaults supplied explicitly differs from the call without them" % mth, dict(inp0, method=mth), None, None)
            dress = {k_: (np.float64(v_) if isinstance(v_, float) else rng.choice([np.int64, np.int32, np.intp])(v_) if isinstance(v_, int) else v_) for k_, v_ in expl.items()}
            if mth == "mpi":
                dress["k"] = np.uint8(20)
            if not same_res(ddp.solve(method=mth, **dress), base):
                ctx.fail("dress", "solve(%s) depends on the NumPy/Python type of epsilon / max_iter / k" % mth, dict(inp0, method=mth), None, None)
            ctx.count("optional:explicit defaults " + mth); ctx.count("dress:numpy scalars " + mth)
        # 2. attribute re-assignment between calls
        d2 = DiscreteDP(*form.args)
        d2.solve(method="pi")
        d2.epsilon = 1e-2; d2.max_iter = 7
        for mth in methods:
            kw = {"max_iter": 7 * inst.n} if mth == "lp" else ({"max_iter": 7} if mth == "pi" else {"epsilon": 1e-2, "max_iter": 7})
            if not same_res(d2.solve(method=mth), DiscreteDP(*form.args).solve(method=mth, **kw)):
                ctx.fail("state", "re-assigned .epsilon / .max_iter are not used by solve(%s)" % mth, dict(inp0, method=mth), None, None)
        b2 = 0.25 if inst.beta != Fraction(1, 4) else 0.75
        d2.beta = b2
        f2 = DiscreteDP(form.args[0], form.args[1], b2, *form.args[3:]); f2.epsilon = 1e-2; f2.max_iter = 7
        for mth in methods:
            if not same_res(d2.solve(method=mth), f2.solve(method=mth)):
                ctx.fail("state", "after re-assigning .beta solve(%s) differs from a fresh object with that beta" % mth, dict(inp0, method=mth, beta=b2), None, None)
        ctx.count("seq:reassign epsilon/max_iter"); ctx.count("seq:reassign beta")
        # 1. dress / dtype / layout of the constructor arguments
        variants = [v_ for v_ in c09.dressings(form, inst, rng) if not (v_[0].startswith("Q") and "float32" in v_[0])]
        if not thorough:
            variants = rng.sample(variants, min(3, len(variants)))
        # vi: the iterates do not depend on tie-breaking (tight comparison); pi / lp: converge to v*; mpi: the partial-evaluation
        # trajectory may legitimately differ after a float tie, so only eps-level agreement of two stopped runs is required
        def dress_solve(dd, mth):
            if mth == "vi":
                return dd.solve(method="vi", v_init=np.array(vint, dtype=float), max_iter=25)
            return dd.solve(method=mth, v_init=np.array(vint, dtype=float))
        ref = {mth: dress_solve(ddp, mth) for mth in methods}
        for label, args in variants:
            asnap = c09.snapshot_args(args)
            d3 = DiscreteDP(*args)
            for mth in methods:
                got = dress_solve(d3, mth)
                if mth == "mpi":
                    okd = np.asarray(got.v).dtype == np.float64 and (np.abs(got.v - ref[mth].v).max() <= ddp.epsilon or
                                                                    max(got.num_iter, ref[mth].num_iter) >= ddp.max_iter)
                elif mth == "vi":
                    okd = same_res(got, ref[mth], exact=False, inst=inst)
                else:
                    okd = np.asarray(got.v).dtype == np.float64 and np.allclose(got.v, ref[mth].v, rtol=1e-9, atol=1e-9)
                if not okd:
                    ctx.fail("dress", "solve(%s) depends on the type/dtype/layout in which R, Q, beta, s_indices, a_indices are passed" % mth,
                             dict(inp0, method=mth, dress=label), {"v": got.v, "num_iter": got.num_iter}, {"v": ref[mth].v, "num_iter": ref[mth].num_iter})
            if not c09.args_unchanged(args, asnap):
                ctx.fail("argument_mutated", "DiscreteDP / solve modified a constructor argument", dict(inp0, dress=label), None, None)
            ctx.count("dress:" + label)

    corp = c09.corpus()
    corp_orders = {id(ci): orders for ci, orders in corp}
    insts = [ci for ci, _ in corp] + insts
    for ii, inst in enumerate(insts):
        vstar = oracle_opt(inst)
        ctx.count("n=%d" % inst.n); ctx.count("m=%d" % inst.m); ctx.count("beta=%s" % inst.beta); ctx.count("chain:" + inst.tag)
        if num_policies(inst) <= (1100 if thorough else 200):
            ve = oracle_opt_enum(inst)
            ctx.count("oracle: enumerated all policies")
            if ve != vstar:
                raise RuntimeError("oracle inconsistency: enumeration and Bellman certificate disagree on %r" % (inst.to_json(),))
        _, argstar = o_bellman(inst, vstar)
        unique = all(len(a) == 1 for a in argstar)
        ctx.count("optimal policy unique" if unique else "optimal policy not unique (ties)")
        kinds = FORM_KINDS if (thorough or ii % 3 == 0) else ["product", rng.choice(FORM_KINDS[1:3]), rng.choice(FORM_KINDS[2:])]
        plan = [(k_, None) for k_ in kinds]
        if id(inst) in corp_orders:
            plan = [(k_, o_) for o_ in corp_orders[id(inst)] for k_ in ("sa_shuffled", "sa_sparse_shuffled")] + [("product", None)]
        values_seen = {}
        for kind, order_ in plan:
            try:
                form = make_form(inst, kind, rng, order=order_)
                ddp = build(form)
                ctx.count("form:" + kind)
                if kind != "product":
                    ctx.count("pair order:" + form.order)
                inp0 = {"inst": inst.to_json(), "form": kind, "pairs": form.pairs}
                ctx.case((inst.key(), kind, tuple(form.pairs)), nontrivial=inst.nontrivial(),
                         sample={"form": kind, "n": inst.n, "m": inst.m, "beta": inst.beta, "v*": vstar})
                fterm = float_term(form)

                def check_opt(method, res, inp, eps=None, capped=False):
                    """oracle: optimality / eps-optimality of the returned v, sigma"""
                    v = [float(x) for x in res.v]; sg = [int(x) for x in res.sigma]
                    if any(sg[s] not in inst.feasible(s) for s in range(inst.n)):
                        ctx.fail("solve_infeasible_policy", "%s returned an infeasible action" % method, inp, {"sigma": sg}, None)
                        return
                    vs = o_policy_value(inst, sg)
                    if method in ("pi", "lp"):
                        if not all(close(x, y) for x, y in zip(v, vstar)):
                            ctx.fail("solve_value_not_optimal", "%s: returned v is not the optimal value function" % method, inp, {"v": v, "sigma": sg}, {"v*": vstar})
                        if vs != vstar:
                            ctx.fail("solve_policy_not_optimal", "%s: returned sigma is not an optimal policy" % method, inp, {"v": v, "sigma": sg, "v_sigma": vs}, {"v*": vstar})
                        if unique and sg != [a[0] for a in argstar]:
                            ctx.fail("solve_policy_not_optimal", "%s: returned sigma differs from the unique optimal policy" % method, inp, {"sigma": sg}, {"sigma*": argstar})
                    elif not capped:
                        e = Fraction(eps)
                        slack = Fraction(1, 10**10) * (1 + max(abs(x) for x in vstar))
                        if max(abs(frac(x) - y) for x, y in zip(v, vstar)) >= e / 2 + slack:
                            ctx.fail("solve_value_not_eps_optimal", "%s stopped before the cap but |v - v*| >= eps/2" % method, inp, {"v": v, "sigma": sg}, {"v*": vstar, "eps": eps})
                        if max(y - x for x, y in zip(vs, vstar)) > e + slack:
                            ctx.fail("solve_policy_not_eps_optimal", "%s stopped before the cap but sigma is not eps-optimal" % method, inp, {"sigma": sg, "v_sigma": vs}, {"v*": vstar, "eps": eps})

                # ---------------- policy iteration (exact Q model)
                for vinit in ([None, dyadic_v(rng, inst.n)] if (thorough or ii % 2 == 0) else [None]):
                    mi = rng.choice([None, None, 1, 2, 50])
                    res = ddp.solve(method="pi", v_init=None if vinit is None else np.array([float(x) for x in vinit]), max_iter=mi)
                    cap = ddp.max_iter if mi is None else mi
                    inp = dict(inp0, method="pi", v_init=vinit, max_iter=cap)
                    conv = res.num_iter < cap
                    ctx.count("pi:num_iter=%d" % res.num_iter if res.num_iter <= 5 else "pi:num_iter>5")
                    if not conv and cap >= 50:
                        ctx.count("pi:ran to max_iter (float tie cycling)")
                    if conv or cap >= 50:
                        check_opt("pi", res, inp)
                        values_seen["pi:" + kind] = [float(x) for x in res.v]
                    pi_cases.append(tup(form.coq, qopt(vinit), natlit(cap), qlist([frac(x) for x in res.v]),
                                        natlist([int(x) for x in res.sigma]), natlit(res.num_iter)))
                    pi_meta.append(dict(inp, impl={"v": res.v, "sigma": res.sigma, "num_iter": res.num_iter}))

                # ---------------- linear programming (oracle + agreement with pi; no Coq model)
                if "sparse" not in kind:
                    vinit = rng.choice([None, dyadic_v(rng, inst.n)])
                    mi = rng.choice([None, None, None, inst.n, inst.n + 1, inst.n + 2])
                    res = ddp.solve(method="lp", v_init=None if vinit is None else np.array([float(x) for x in vinit]), max_iter=mi)
                    cap = ddp.max_iter * inst.n if mi is None else mi
                    inp = dict(inp0, method="lp", v_init=vinit, max_iter=cap)
                    lp_cases.append(tup(fterm, form.coq, qopt(vinit), fopt(vinit), natlit(cap), flist([float(x) for x in res.v]),
                                        natlist([int(x) for x in res.sigma]), natlit(res.num_iter)))
                    lp_meta.append(dict(inp, impl={"v": res.v, "sigma": res.sigma, "num_iter": res.num_iter}))
                    if mi is not None:
                        ctx.count("lp:small max_iter=n+%d (num_iter %s cap)" % (mi - inst.n, "<" if res.num_iter < cap else ">="))
                        res = ddp.solve(method="lp", v_init=None if vinit is None else np.array([float(x) for x in vinit]))
                    ctx.count("lp:solved")
                    check_opt("lp", res, inp)
                    values_seen["lp:" + kind] = [float(x) for x in res.v]
                else:
                    try:
                        ddp.solve(method="lp")
                        ctx.fail("lp_sparse", "lp on a sparse formulation did not raise NotImplementedError", inp0, None, None)
                    except NotImplementedError:
                        ctx.count("lp:sparse -> NotImplementedError")

                # ---------------- argument forms of v_init (list / tuple / int32 / int64 / float32 vs float64), all four methods:
                # the result must not depend on the form
                vint = [rng.randrange(-6, 7) for _ in range(inst.n)]
                forms_ = c09.arg_forms(vint)
                names_ = [k_ for k_ in forms_ if k_ != "float64"]
                for mth, kw in (("vi", {}), ("pi", {}), ("mpi", {"k": 3}), ("lp", {})):
                    if mth == "lp" and "sparse" in kind:
                        continue
                    ref = ddp.solve(method=mth, v_init=forms_["float64"].copy(), **kw)
                    if mth in ("pi", "lp"):
                        check_opt(mth, ref, dict(inp0, method=mth, v_init=vint))
                    for fname in (names_ if (thorough or ii % 4 == 0) else [rng.choice(names_)]):
                        xv = forms_[fname]
                        xv = xv.copy() if isinstance(xv, np.ndarray) else xv
                        res = ddp.solve(method=mth, v_init=xv, **kw)
                        if np.asarray(res.v).dtype != np.float64 or not np.array_equal(res.v, ref.v) or not np.array_equal(res.sigma, ref.sigma) \
                                or res.num_iter != ref.num_iter:
                            ctx.fail("argument_form", "solve(%s) depends on the form (type/dtype) in which v_init is passed" % mth,
                                     dict(inp0, method=mth, v_init=vint, v_form=fname),
                                     {"v": res.v, "sigma": res.sigma, "num_iter": res.num_iter}, {"v": ref.v, "sigma": ref.sigma, "num_iter": ref.num_iter})
                        ctx.count("argument form v_init:" + fname)

                # ---------------- result aliasing across solve calls (keep-and-recheck, scribble, shares_memory)
                if thorough or ii % 3 == 0 or ii < 3:
                    alias_solve(inst, form, ddp, inp0, kind)

                # ---------------- hardening audit (dress/dtype, state and sequences, non-mutation, optional/falsy arguments)
                if thorough or ii % 6 == 0:
                    harden_solve(inst, form, ddp, inp0, kind, fterm, check_opt)

                # ---------------- value iteration (PrimFloat instance of the model; exact Q instance for short runs)
                for rep in range(2 if (thorough or ii % 2 == 0) else 1):
                    eps = rng.choice([None, 1e-1, 1e-3, 1e-6])
                    mi = rng.choice([None, None, None, 3, 40])
                    vinit = rng.choice([None, dyadic_v(rng, inst.n)])
                    res = ddp.solve(method="vi", v_init=None if vinit is None else np.array([float(x) for x in vinit]), epsilon=eps, max_iter=mi)
                    cap = ddp.max_iter if mi is None else mi
                    e = ddp.epsilon if eps is None else eps
                    inp = dict(inp0, method="vi", v_init=vinit, epsilon=e, max_iter=cap)
                    capped = res.num_iter >= cap
                    ctx.count("vi:capped" if capped else "vi:stopped before cap")
                    check_opt("vi", res, inp, eps=e, capped=capped)
                    vi_cases.append(tup(fterm, form.coq, fopt(vinit), fl(e), natlit(cap), qlist([frac(x) for x in res.v]),
                                        natlist([int(x) for x in res.sigma]), natlit(res.num_iter)))
                    vi_meta.append(dict(inp, impl={"v": res.v, "sigma": res.sigma, "num_iter": res.num_iter}))
                # short exact runs: the model in Q for the implementation's cap
                mi = rng.choice([1, 2, 4, 6])
                vinit = rng.choice([None, dyadic_v(rng, inst.n)])
                res = ddp.solve(method="vi", v_init=None if vinit is None else np.array([float(x) for x in vinit]), epsilon=1e-9, max_iter=mi)
                viq_cases.append(tup(form.coq, qopt(vinit), qlit(frac(1e-9)), natlit(mi), qlist([frac(x) for x in res.v]),
                                     natlist([int(x) for x in res.sigma]), natlit(res.num_iter)))
                viq_meta.append(dict(inp0, method="vi", v_init=vinit, epsilon=1e-9, max_iter=mi, impl={"v": res.v, "sigma": res.sigma, "num_iter": res.num_iter}))
                ctx.count("vi:short exact run")

                # ---------------- modified policy iteration (PrimFloat instance)
                for rep in range(2 if (thorough or ii % 2 == 0) else 1):
                    eps = rng.choice([None, 1e-1, 1e-3, 1e-6])
                    mi = rng.choice([None, None, None, 2, 30])
                    k = rng.choice([0, 1, 5, 20])
                    vinit = rng.choice([None, dyadic_v(rng, inst.n)])
                    res = ddp.solve(method="mpi", v_init=None if vinit is None else np.array([float(x) for x in vinit]), epsilon=eps, max_iter=mi, k=k)
                    cap = ddp.max_iter if mi is None else mi
                    e = ddp.epsilon if eps is None else eps
                    inp = dict(inp0, method="mpi", v_init=vinit, epsilon=e, max_iter=cap, k=k)
                    capped = res.num_iter >= cap
                    ctx.count("mpi:capped" if capped else "mpi:stopped before cap")
                    ctx.count("mpi:k=%d" % k)
                    check_opt("mpi", res, inp, eps=e, capped=capped)
                    mpi_cases.append(tup(fterm, form.coq, fopt(vinit), fl(e), natlit(cap), natlit(k), qlist([frac(x) for x in res.v]),
                                         natlist([int(x) for x in res.sigma]), natlit(res.num_iter)))
                    mpi_meta.append(dict(inp, impl={"v": res.v, "sigma": res.sigma, "num_iter": res.num_iter}))
            except Exception as e:   # an exception or non-finite output of the implementation on an admissible instance
                ctx.fail("implementation_raised_or_garbage", "solve raised or returned non-finite data: %r" % (e,),
                         {"inst": inst.to_json(), "form": kind}, repr(e), None)

        # two formulations of the same problem yield the same optimal value
        vals_ = list(values_seen.items())
        for (k1, v1), (k2, v2) in zip(vals_, vals_[1:]):
            if not all(abs(x - y) <= 1e-9 * (1 + abs(y)) for x, y in zip(v1, v2)):
                ctx.fail("formulations_disagree", "two formulations / methods give different optimal values",
                         {"inst": inst.to_json(), "a": k1, "b": k2}, v1, v2)

    # beta = 1: every infinite-horizon method must refuse
    inst1 = gen_inst(rng, beta=Fraction(1))
    d1 = build(make_form(inst1, "product", rng))
    for mth in ("vi", "pi", "mpi", "lp"):
        try:
            d1.solve(method=mth)
            ctx.fail("beta1_not_refused", "solve(%s) with beta=1 did not raise NotImplementedError" % mth, {"inst": inst1.to_json(), "method": mth}, None, None)
        except NotImplementedError:
            ctx.count("beta=1 -> NotImplementedError")

    DQ, DF = "cres (ddp Q)", "cres (ddp float)"

    def two_phase(name, ctype, strict, lenient, cases, meta, label, chunk, excluded=None, excluded_note="", certified=None,
                  certified_note=""):
        bad = ctx.coq_check(name, IMPORTS, ctype, strict, cases, chunk=chunk, preamble=PREAMBLE)
        if bad:
            sub = [cases[i] for i in bad]
            bad2 = ctx.coq_check(name + "_lenient", IMPORTS, ctype, lenient, sub, chunk=chunk, preamble=PREAMBLE)
            ctx.count("%s: iteration count / tie-breaking differs (tie or borderline stopping test), value still agrees" % name, len(bad) - len(bad2))
            still = [bad[j] for j in bad2]
            if still and certified is not None:
                sub = [cases[i] for i in still]
                bad3 = ctx.coq_check(name + "_tie_certified", IMPORTS, ctype, certified, sub, chunk=chunk, preamble=PREAMBLE)
                ctx.count("%s: difference certified as a float tie (%s)" % (name, certified_note), len(still) - len(bad3))
                still = [still[j] for j in bad3]
            if still and excluded is not None:
                sub = [cases[i] for i in still]
                keep = ctx.coq_check(name + "_excluded", IMPORTS, ctype, "fun c => negb (%s c)" % excluded, sub, chunk=chunk, preamble=PREAMBLE)
                # `keep` = indices where the exclusion predicate holds (ok_fn false <=> excluded)
                ctx.count("%s: excluded from correspondence, oracle only (%s)" % (name, excluded_note), len(keep))
                ctx.corr[name + "_excluded"]["mismatches"] = 0
                still = [still[j] for j in range(len(still)) if j not in set(keep)]
            for i in still:
                ctx.mismatch(label, meta[i], meta[i].get("impl"))

    # pi: exact model; strict = same num_iter, same sigma; lenient = value within 1e-9 and sigma a maximiser at the model's v
    pi_t = DQ + " * option (list Q) * nat * list Q * list nat * nat"
    pi_strict = ("fun c => let '(cd, vi, cap, v, sg, k) := c in with_ok cd (fun d => match policy_iteration d vi cap with "
                 "| Some (mv, msg, mk, conv) => Qs_close %s mv v && nats_eqb msg sg && Nat.eqb mk k | None => false end)" % TOLQ)
    pi_len = ("fun c => let '(cd, vi, cap, v, sg, k) := c in with_ok cd (fun d => match policy_iteration d vi cap with "
              "| Some (mv, msg, mk, conv) => conv && Qs_close %s mv v && near_greedy %s d mv sg | None => false end)" % (TOLQ, TOLQ))
    # certified float-tie path: the returned (v, sigma) is reached by SOME run of the exact model in which every greedy
    # step may pick any action whose exact value is within 1e-9 of the state's maximum (the only freedom rounding has):
    # v is the exact value of a policy evaluated at iteration num_iter of such a run, sigma a near-maximiser for it
    pi_cert = ("fun c => let '(cd, vi, cap, v, sg, k) := c in with_ok cd (fun d => pi_tie_ok %s d vi k v sg)" % TOLQ)
    two_phase("policy_iteration", pi_t, pi_strict, pi_len, pi_cases, pi_meta, "C01.Model.policy_iteration (exact) vs DiscreteDP.solve('pi')", 25,
              certified=pi_cert, certified_note="(v, sigma) lies on a run of the exact model that breaks exact near-ties differently")

    vi_t = DF + " * " + DQ + " * option (list float) * float * nat * list Q * list nat * nat"
    vi_strict = ("fun c => let '(cf, cq, vi, eps, cap, v, sg, k) := c in with_ok cf (fun d => with_ok cq (fun dq => "
                 "let r := value_iteration d vi eps cap in Nat.eqb (vi_num_iter r) k && Qs_close %s (fs2q (vi_v r)) v && near_greedy %s dq v sg))" % (TOLQ, TOLQ))
    vi_len = ("fun c => let '(cf, cq, vi, eps, cap, v, sg, k) := c in with_ok cf (fun d => with_ok cq (fun dq => "
              "let r := value_iteration d vi eps cap in let v0 := match vi with Some x => x | None => R_max d end in "
              "Qs_close %s (fs2q (iter_k (bellman_operator d) k v0)) v && near_greedy %s dq v sg && "
              "borderline (vi_tol eps (d_beta d)) (vi_err d v0 (Nat.min k (vi_num_iter r)))))" % (TOLQ, TOLQ))
    two_phase("value_iteration", vi_t, vi_strict, vi_len, vi_cases, vi_meta, "C01.Model.value_iteration (PrimFloat) vs DiscreteDP.solve('vi')", 40)

    # lp: PrimFloat instance of C01/ModelLP.v (Base/Pivot + C04 solve_tableau); the Numba kernels are bit-identical to
    # the same operations in source order, so v, sigma and num_iter are compared exactly
    lp_t = DF + " * " + DQ + " * option (list Q) * option (list float) * nat * list float * list nat * nat"
    lp_ok = ("fun c => let '(cf, cq, viq, vi, cap, v, sg, k) := c in with_ok cf (fun d => match linprog_simplex_ddp d vi cap optsF with "
             "| Some (su, mk, mv, msg) => Nat.eqb mk k && Fs_eqb mv v && nats_eqb msg sg | None => false end)")
    bad = ctx.coq_check("linprog_simplex", IMPORTS_LP, lp_t, lp_ok, lp_cases, chunk=60, preamble=PREAMBLE_LP)
    for i in bad:
        ctx.mismatch("C01.ModelLP.linprog_simplex_ddp (PrimFloat, bit-exact) vs DiscreteDP.solve('lp')", lp_meta[i], lp_meta[i].get("impl"))
    # measured, not assumed: on how many runs does the separation check hold (C01_lp_tolerance_irrelevant then makes the
    # run with the source tolerances equal to the tolerance-0 run of C01_lp_optimal), and does the exact run succeed
    nosep = ctx.coq_check("lp_sep_ok", IMPORTS_LP + "\nFrom QE Require Import C04.Sep C04.ProofsSep2 C01.ProofsLP2.", lp_t,
                          "fun c => let '(cf, cq, viq, vi, cap, v, sg, k) := c in with_ok cq (fun d => lp_sep d viq cap opts_src)",
                          lp_cases, chunk=60, preamble=PREAMBLE_LP)
    ctx.count("lp:sep_ok (tolerances cannot change a decision of the exact run)", len(lp_cases) - len(nosep))
    ctx.count("lp:sep_ok fails", len(nosep))
    ctx.corr["lp_sep_ok"]["mismatches"] = 0

    viq_t = DQ + " * option (list Q) * Q * nat * list Q * list nat * nat"
    viq_strict = ("fun c => let '(cq, vi, eps, cap, v, sg, k) := c in with_ok cq (fun d => "
                  "let r := value_iteration d vi eps cap in Nat.eqb (vi_num_iter r) k && Qs_close %s (vi_v r) v && near_greedy %s d (vi_v r) sg)" % (TOLQ, TOLQ))
    bad = ctx.coq_check("value_iteration_exact_short", IMPORTS, viq_t, viq_strict, viq_cases, chunk=40, preamble=PREAMBLE)
    for i in bad:
        ctx.mismatch("C01.Model.value_iteration (exact Q, max_iter <= 6) vs DiscreteDP.solve('vi')", viq_meta[i], viq_meta[i].get("impl"))

    mpi_t = DF + " * " + DQ + " * option (list float) * float * nat * nat * list Q * list nat * nat"
    mpi_strict = ("fun c => let '(cf, cq, vi, eps, cap, kk, v, sg, k) := c in with_ok cf (fun d => "
                  "match modified_policy_iteration d vi eps cap kk with Some (mv, msg, mk, st) => "
                  "Nat.eqb mk k && Qs_close %s (fs2q mv) v && nats_eqb msg sg | None => false end)" % TOLQ)
    # lenient: same num_iter and value; sigma (the greedy policy of the last Bellman step) may differ from the model's by a
    # float tie: it must be a maximiser at the model's previous iterate
    mpi_len = ("fun c => let '(cf, cq, vi, eps, cap, kk, v, sg, k) := c in with_ok cf (fun d => with_ok cq (fun dq => "
               "match modified_policy_iteration d vi eps cap kk with Some (mv, msg, mk, st) => "
               "Nat.eqb mk k && Qs_close %s (fs2q mv) v && near_greedy %s dq (fs2q (mpi_prev d vi eps k kk)) sg | None => false end))" % (TOLQ, TOLQ))
    # a greedy step of the model's own run in which two pairs with different data are within 1e-9 of the maximum: which of
    # them the float implementation picks depends on BLAS summation order, and the partial-evaluation trajectories then
    # legitimately differ (e.g. v_init=None starts from a constant vector, so all equal-reward actions tie exactly)
    mpi_exc = ("(fun c => let '(cf, cq, vi, eps, cap, kk, v, sg, k) := c in with_ok cf (fun d => mpi_ambiguous d vi eps cap kk))")
    two_phase("modified_policy_iteration", mpi_t, mpi_strict, mpi_len, mpi_cases, mpi_meta,
              "C01.Model.modified_policy_iteration (PrimFloat) vs DiscreteDP.solve('mpi')", 40,
              excluded=mpi_exc, excluded_note="ambiguous float tie between different actions in an intermediate greedy step")


def replay(data):
    first = data.get("first") or (data.get("mismatches") or [{}])[0]
    print("replay:", json.dumps(first)[:3000])
    inp = first.get("input", {})
    if "inst" in inp and "method" in inp:
        j = inp["inst"]
        def fr(x):
            return None if x is None else Fraction(x)
        inst = Inst(j["n"], j["m"], [[fr(x) for x in r] for r in j["R"]], [[[Fraction(x) for x in q] for q in rows] for rows in j["Q"]],
                    Fraction(j["beta"]), False, j.get("tag", ""))
        import random
        form = make_form(inst, "product", random.Random(0))
        ddp = build(form)
        res = ddp.solve(method=inp["method"])
        vstar = oracle_opt(inst)
        print("implementation (product form): v =", list(res.v), "sigma =", list(res.sigma), "num_iter =", res.num_iter)
        print("exact optimum v* =", [float(x) for x in vstar], " value of returned sigma =", [float(x) for x in o_policy_value(inst, [int(a) for a in res.sigma])])
    return 0

"""C09: Bellman operator, policy evaluation, backward induction, form conversion, constructor checks
(quantecon/markov/ddp.py, quantecon/markov/utilities.py).  Also hosts the DiscreteDP instance generator and
the exact Fraction oracle shared with c01.py."""
import itertools, math, subprocess, tempfile, warnings
import numpy as np
from common import *
import common

IMPORTS = "From Coq Require Import Qabs Arith.\nFrom QE Require Import C09.Solve C09.Model."
FINISH = dict(level="proof", technique_note=(
    "Coq theorems (coq/C09/Props.v) about the executable DiscreteDP model coq/C09/Model.v (generic over Num; Q instance "
    "for exact runs, PrimFloat instance for huge dyadic v); model tied to /repo by evaluating it with vm_compute on the "
    "inputs the implementation ran (product / sorted pairs / shuffled pairs / scipy-sparse formulations); independent "
    "exact Fraction oracle on the implementation's output; constructor rejection cases in a subprocess under "
    "NUMBA_BOUNDSCHECK=1. non-trivial = instance with >= 2 states and some state with >= 2 feasible actions"))

TOL = Fraction(1, 10**9)
TOLQ = "(1 # 1000000000)"

# ------------------------------------------------------------------ Coq helpers (harness preamble)
PREAMBLE = r"""
Definition ext_close (tol : Q) (a b : ext Q) : bool :=
  match a, b with NegInf, NegInf => true | Fin x, Fin y => Qclose tol x y | _, _ => false end.
Definition exts_close tol := list_eqb (ext_close tol).
Definition with_ok {A} (c : cres (ddp A)) (f : ddp A -> bool) : bool := match c with COk d => f d | _ => false end.
Definition ddp_close (tol : Q) (d : ddp Q) (n : nat) (sidx aidx indptr : list nat) (R : list (ext Q)) (Qm : list (list Q)) : bool :=
  Nat.eqb (d_n d) n && nats_eqb (d_sidx d) sidx && nats_eqb (d_aidx d) aidx && nats_eqb (d_indptr d) indptr
  && exts_close tol (d_R d) R && Qss_close tol (d_Q d) Qm.
(* sigma attains the state-wise maximum of the model's vals within tol (relative to 1+|max|), with an available action *)
Definition near_greedy (tol : Q) (d : ddp Q) (v : list Q) (sg : list nat) : bool :=
  let vl := vals d v in
  let full := bellman_full d v in
  Nat.eqb (length sg) (d_n d) &&
  forallb (fun i => match nth i full None, lookup_pair d i (nth i sg 0%nat) with
                    | Some (Fin mx, _), Some j =>
                        match gete vl j with
                        | Fin x => Qle_bool (mx - x) (tol * (1 + Qabs mx))
                        | NegInf => false
                        end
                    | _, _ => false
                    end) (seq 0 (d_n d)).
Definition cres_tag {A} (c : cres A) : nat * nat :=
  match c with COk _ => (0, 0) | CValueError => (1, 0) | CIndexError i => (2, i) | CUnmodelled => (3, 0) end%nat.
"""


# ------------------------------------------------------------------ instances
class Inst:
    """exact data of one MDP: R[s][a] Fraction or None (-inf), Q[s][a] list of Fractions"""
    def __init__(self, n, m, R, Q, beta, dyadic, tag):
        self.n, self.m, self.R, self.Q, self.beta, self.dyadic, self.tag = n, m, R, Q, beta, dyadic, tag

    def feasible(self, s):
        return [a for a in range(self.m) if self.R[s][a] is not None]

    def key(self):
        return (self.n, self.m, tuple(tuple(r) for r in self.R), tuple(tuple(tuple(q) for q in row) for row in self.Q), self.beta)

    def nontrivial(self):
        return self.n >= 2 and any(len(self.feasible(s)) >= 2 for s in range(self.n))

    def to_json(self):
        return {"n": self.n, "m": self.m, "beta": self.beta, "tag": self.tag,
                "R": [[None if x is None else x for x in r] for r in self.R], "Q": self.Q}


def rand_row(rng, n, den, sparse_p=0.5):
    """random probability row with entries k/den"""
    w = [0] * n
    support = [i for i in range(n) if rng.random() > sparse_p] or [rng.randrange(n)]
    for _ in range(den):
        w[rng.choice(support)] += 1
    return [Fraction(k, den) for k in w]


BETAS = [Fraction(0), Fraction(1, 2), Fraction(3, 4), Fraction(9, 10), Fraction(19, 20)]


def gen_inst(rng, n=None, m=None, beta=None, nmax=5, mmax=4, allow_beta1=False):
    n = n or rng.choice([1, 2, 2, 3, 3, 3, 4, 4, 5][:max(1, min(9, 2 * nmax - 1))] if nmax <= 5 else [2, 3, 4, 5, 6, 6])
    n = min(n, nmax)
    m = m or rng.randrange(1, mmax + 1)
    den = rng.choice([8, 8, 10])
    kind = rng.choice(["random", "random", "random", "absorbing", "periodic", "deterministic"])
    if beta is None:
        beta = rng.choice(BETAS + ([Fraction(1)] if allow_beta1 else []))
    dyadic = den == 8 and beta.denominator in (1, 2, 4)
    R, Q = [], []
    for s in range(n):
        Rs, Qs = [], []
        for a in range(m):
            Rs.append(Fraction(rng.randrange(-3, 4)))
            if kind == "absorbing" and (a == 0 or rng.random() < 0.3):
                row = [Fraction(int(j == s)) for j in range(n)]
            elif kind == "periodic":
                row = [Fraction(int(j == (s + 1 + (a % 2) * (n > 2)) % n)) for j in range(n)]
            elif kind == "deterministic":
                t = rng.randrange(n)
                row = [Fraction(int(j == t)) for j in range(n)]
            else:
                row = rand_row(rng, n, den)
            Qs.append(row)
        # planted ties: duplicate an action (same reward, same row), or same reward only
        if m >= 2 and rng.random() < 0.45:
            a, b = rng.sample(range(m), 2)
            Rs[b] = Rs[a]
            if rng.random() < 0.6:
                Qs[b] = list(Qs[a])
        # -inf rewards, keeping at least one finite
        for a in range(m):
            if rng.random() < 0.2:
                Rs[a] = None
        if all(x is None for x in Rs):
            Rs[rng.randrange(m)] = Fraction(rng.randrange(-3, 4))
        R.append(Rs); Q.append(Qs)
    return Inst(n, m, R, Q, beta, dyadic, kind)


def f2np(x):
    return -np.inf if x is None else float(x)


class Form:
    """one formulation of an instance: python constructor arguments + Coq constructor term"""
    pass


def ext_lit(x):
    return "NegInf" if x is None else "Fin " + qlit(x)


def ext_list(a):
    a = list(a)
    return "[" + "; ".join(ext_lit(x) for x in a) + "]" if a else "(@nil (ext Q))"


def make_form(inst, kind, rng, keep_neginf_pairs=False, order=None):
    """kind in product | sa_sorted | sa_shuffled | sa_sparse | sa_sparse_shuffled"""
    import scipy.sparse as sp
    f = Form()
    f.kind, f.inst = kind, inst
    n, m = inst.n, inst.m
    if kind == "product":
        f.R = np.array([[f2np(x) for x in r] for r in inst.R], dtype=float).reshape(n, m)
        f.Q = np.array([[[float(x) for x in row] for row in rows] for rows in inst.Q], dtype=float).reshape(n, m, n)
        f.args = (f.R, f.Q, float(inst.beta))
        f.kwargs = {}
        f.pairs = [(s, a) for s in range(n) for a in range(m)]
        f.coq = "(mk_prod (T:=Q) %d %d [%s] [%s] %s)" % (
            n, m, "; ".join(ext_list(r) for r in inst.R), "; ".join(qlist2(rows) for rows in inst.Q), qlit(inst.beta))
        return f
    pairs = [(s, a) for s in range(n) for a in range(m) if inst.R[s][a] is not None or (keep_neginf_pairs and rng.random() < 0.5)]
    f.order = "sorted"
    if order is not None:
        assert sorted(order) == sorted(pairs)
        pairs = [tuple(p_) for p_ in order]
        f.order = "corpus:within_state"
    elif "shuffled" in kind:
        # orders: fully random; states non-decreasing but actions permuted INSIDE each state (defeats a sortedness
        # test that only looks at s_indices); actions descending inside each state
        mode = rng.choice(["random", "within_state", "within_state", "within_state_desc"])
        srt = sorted(pairs)
        for _ in range(6):
            if mode == "random":
                rng.shuffle(pairs)
            else:
                groups = {}
                for sa in srt:
                    groups.setdefault(sa[0], []).append(sa)
                pairs = []
                for st in sorted(groups):
                    g = groups[st]
                    if mode == "within_state_desc":
                        g = g[::-1]
                    else:
                        rng.shuffle(g)
                    pairs += g
            if pairs != srt:
                break
            mode = "random"
        f.order = mode if pairs != srt else "sorted"
    f.pairs = pairs
    f.s = [p[0] for p in pairs]; f.a = [p[1] for p in pairs]
    f.R = np.array([f2np(inst.R[s][a]) for s, a in pairs], dtype=float)
    Qd = np.array([[float(x) for x in inst.Q[s][a]] for s, a in pairs], dtype=float).reshape(len(pairs), n)
    f.Q = sp.csr_matrix(Qd) if "sparse" in kind else Qd
    if rng.random() < 0.3 and "sparse" in kind:
        f.Q = sp.coo_matrix(Qd)
    f.args = (f.R, f.Q, float(inst.beta), np.array(f.s, dtype=int), np.array(f.a, dtype=int))
    f.kwargs = {}
    f.coq = "(mk_sa (T:=Q) %d %s %s %s %s %s)" % (
        n, natlist(f.s), natlist(f.a), ext_list(inst.R[s][a] for s, a in pairs),
        qlist2([inst.Q[s][a] for s, a in pairs]), qlit(inst.beta))
    return f


def corpus():
    """deterministic instances that always run first: sa pairs whose states are non-decreasing but whose actions are permuted
    INSIDE the states (e.g. s=[0,0,0,1,1,1], a=[0,2,1,0,2,1]), with rewards / rows such that using the row of a neighbouring
    action changes the optimal value (the optimal action is the middle label).  Returns [(inst, [pair orders])]."""
    F = Fraction
    out = []
    i1 = Inst(2, 3, [[F(1), F(3), F(0)], [F(0), F(2), F(1)]],
              [[[F(9, 10), F(1, 10)], [F(1, 5), F(4, 5)], [F(1, 2), F(1, 2)]], [[F(1), F(0)], [F(3, 5), F(2, 5)], [F(3, 10), F(7, 10)]]],
              F(9, 10), False, "corpus")
    out.append((i1, [[(0, 0), (0, 2), (0, 1), (1, 0), (1, 2), (1, 1)], [(0, 2), (0, 1), (0, 0), (1, 2), (1, 1), (1, 0)]]))
    i2 = Inst(3, 3, [[F(0), F(4), F(1)], [F(1), F(3), None], [F(-1), F(2), F(0)]],
              [[[F(1), F(0), F(0)], [F(0), F(1, 2), F(1, 2)], [F(0), F(0), F(1)]],
               [[F(0), F(1), F(0)], [F(1, 4), F(1, 4), F(1, 2)], [F(1), F(0), F(0)]],
               [[F(0), F(0), F(1)], [F(1, 2), F(1, 2), F(0)], [F(1, 8), F(7, 8), F(0)]]], F(3, 4), True, "corpus")
    out.append((i2, [[(0, 0), (0, 2), (0, 1), (1, 1), (1, 0), (2, 0), (2, 2), (2, 1)], [(0, 1), (0, 0), (0, 2), (1, 0), (1, 1), (2, 2), (2, 0), (2, 1)]]))
    i3 = Inst(2, 4, [[F(0), F(1), F(5), F(1)], [F(2), F(0), F(3), F(-1)]],
              [[[F(1), F(0)], [F(1, 2), F(1, 2)], [F(0), F(1)], [F(1, 2), F(1, 2)]], [[F(0), F(1)], [F(1), F(0)], [F(1, 2), F(1, 2)], [F(1), F(0)]]],
              F(1, 2), True, "corpus")
    out.append((i3, [[(0, 0), (0, 3), (0, 1), (0, 2), (1, 0), (1, 3), (1, 2), (1, 1)], [(0, 0), (0, 2), (0, 3), (0, 1), (1, 0), (1, 2), (1, 1), (1, 3)]]))
    return out


FORM_KINDS = ["product", "sa_sorted", "sa_shuffled", "sa_sparse", "sa_sparse_shuffled"]


def build(form):
    from quantecon.markov import DiscreteDP
    with warnings.catch_warnings():
        warnings.simplefilter("ignore")
        return DiscreteDP(*form.args, **form.kwargs)


def dense(Qx):
    return Qx.toarray() if hasattr(Qx, "toarray") else np.asarray(Qx)


# ------------------------------------------------------------------ exact oracle (Fractions), independent of the model
def o_vals(inst, v, s):
    """{a: r(s,a) + beta * sum q v} over feasible a"""
    return {a: inst.R[s][a] + inst.beta * sum(q * x for q, x in zip(inst.Q[s][a], v)) for a in inst.feasible(s)}


def o_bellman(inst, v):
    Tv, arg = [], []
    for s in range(inst.n):
        d = o_vals(inst, v, s)
        mx = max(d.values())
        Tv.append(mx); arg.append([a for a in sorted(d) if d[a] == mx])
    return Tv, arg


def o_solve(A, b):
    """exact Gaussian elimination; None if singular"""
    n = len(A)
    M = [list(map(Fraction, A[i])) + [Fraction(b[i])] for i in range(n)]
    for k in range(n):
        p = next((r for r in range(k, n) if M[r][k] != 0), None)
        if p is None:
            return None
        M[k], M[p] = M[p], M[k]
        pv = M[k][k]
        M[k] = [x / pv for x in M[k]]
        for r in range(n):
            if r != k and M[r][k] != 0:
                f = M[r][k]
                M[r] = [x - f * y for x, y in zip(M[r], M[k])]
    return [M[i][n] for i in range(n)]


def o_policy_value(inst, sigma):
    n = inst.n
    A = [[Fraction(int(i == j)) - inst.beta * inst.Q[i][sigma[i]][j] for j in range(n)] for i in range(n)]
    b = [inst.R[i][sigma[i]] for i in range(n)]
    return o_solve(A, b)


def all_policies(inst):
    return itertools.product(*[inst.feasible(s) for s in range(inst.n)])


def num_policies(inst):
    k = 1
    for s in range(inst.n):
        k *= len(inst.feasible(s))
    return k


def close(x, y, tol=TOL):
    """|x - y| <= tol (1 + |y|) in exact arithmetic; x is the implementation's float"""
    if isinstance(x, float) and (x != x or x in (math.inf, -math.inf)):
        return False
    return abs(frac(x) - y) <= tol * (1 + abs(y))


def sigma_is_near_greedy(inst, v, sigma, tol=TOL):
    for s in range(inst.n):
        d = o_vals(inst, v, s)
        a = int(sigma[s])
        if a not in d:
            return False
        mx = max(d.values())
        if mx - d[a] > tol * (1 + abs(mx)):
            return False
    return True


def feasible_policies(inst, rng, cap):
    k = num_policies(inst)
    if k <= cap:
        return [list(p) for p in all_policies(inst)]
    return [[rng.choice(inst.feasible(s)) for s in range(inst.n)] for _ in range(cap)]


def arg_forms(x, floats=True):
    """the forms in which a caller may pass an integer-valued vector"""
    d = {"list": [int(t) for t in x], "tuple": tuple(int(t) for t in x), "int32": np.array(x, dtype=np.int32),
         "int64": np.array(x, dtype=np.int64)}
    if floats:
        d["float32"] = np.array(x, dtype=np.float32)
        d["float64"] = np.array(x, dtype=np.float64)
    return d


def dyadic_v(rng, n, scale_bits=0):
    e = rng.choice([0, 0, 1, 3, 6])
    return [Fraction(rng.randrange(-64, 65), 2 ** e) * 2 ** scale_bits for _ in range(n)]



# ------------------------------------------------------------------ hardening helpers (shared with c01.py)
def is_pow2(fr):
    d = Fraction(fr).denominator
    return d & (d - 1) == 0


def canon_args(form):
    """canonical constructor arguments of a formulation: float64 / int64 ndarrays, python float beta"""
    return form.args


def dressings(form, inst, rng):
    """(label, args) variants of the constructor arguments with the same meaning as form.args:
    lists / tuples, int32 / intp / uint8 index arrays, float32 data (only where exactly representable),
    F-ordered copies, non-contiguous views into larger arrays, scipy CSR/CSC/COO/LIL matrices, NumPy scalar beta"""
    import scipy.sparse as sp
    out = []
    args = list(form.args)
    q_exact32 = all(is_pow2(x) for rows in inst.Q for q in rows for x in q)
    b_exact32 = is_pow2(inst.beta)
    R, Qm, beta = args[0], args[1], args[2]
    sparse = hasattr(Qm, "toarray")
    Qd = Qm.toarray() if sparse else np.asarray(Qm)

    def with_(i, val):
        a = list(args); a[i] = val; return a
    out.append(("R:list", with_(0, np.asarray(R).tolist())))
    r_int = all(x is None or Fraction(x).denominator == 1 for row in inst.R for x in row)
    if r_int:
        out.append(("R:float32", with_(0, np.asarray(R).astype(np.float32))))
    if r_int and not np.isinf(np.asarray(R)).any():
        out.append(("R:int32", with_(0, np.asarray(R).astype(np.int32))))
    big = np.full((2 * R.shape[0],) + R.shape[1:], 7.0); big[::2] = R
    out.append(("R:noncontiguous view", with_(0, big[::2])))
    if form.kind == "product":
        out.append(("R:F-order", with_(0, np.asfortranarray(R))))
    if not sparse:
        out.append(("Q:nested list", with_(1, Qd.tolist())))
        out.append(("Q:F-order", with_(1, np.asfortranarray(Qd))))
        bigq = np.full((2 * Qd.shape[0],) + Qd.shape[1:], 0.5); bigq[::2] = Qd
        out.append(("Q:noncontiguous view", with_(1, bigq[::2])))
        if q_exact32:
            out.append(("Q:float32", with_(1, Qd.astype(np.float32))))
    else:
        for nm in ("csr_matrix", "csc_matrix", "coo_matrix", "lil_matrix", "csr_array"):
            if hasattr(sp, nm):
                out.append(("Q:" + nm, with_(1, getattr(sp, nm)(Qd))))
        if q_exact32:
            out.append(("Q:csr float32", with_(1, sp.csr_matrix(Qd.astype(np.float32)))))
    out.append(("beta:np.float64", with_(2, np.float64(beta))))
    if b_exact32:
        out.append(("beta:np.float32", with_(2, np.float32(beta))))
    if inst.beta in (0, 1):
        out.append(("beta:python int", with_(2, int(inst.beta))))
        out.append(("beta:np.int64", with_(2, np.int64(int(inst.beta)))))
    if form.kind != "product":
        s_, a_ = [int(x) for x in args[3]], [int(x) for x in args[4]]
        for nm, conv in (("list", list), ("tuple", tuple), ("int32", lambda z: np.array(z, dtype=np.int32)),
                         ("intp", lambda z: np.array(z, dtype=np.intp)), ("uint8", lambda z: np.array(z, dtype=np.uint8))):
            a2 = list(args); a2[3] = conv(s_); a2[4] = conv(a_)
            out.append(("indices:" + nm, a2))
        bs = np.zeros(2 * len(s_), dtype=int); bs[::2] = s_; ba = np.zeros(2 * len(a_), dtype=int); ba[::2] = a_
        a2 = list(args); a2[3] = bs[::2]; a2[4] = ba[::2]
        out.append(("indices:noncontiguous view", a2))
    return out


def snapshot_args(args):
    snap = []
    for x in args:
        if hasattr(x, "toarray"):
            snap.append(("sparse", type(x).__name__, x.toarray().copy()))
        elif isinstance(x, np.ndarray):
            snap.append(("array", x.dtype.str, x.copy()))
        else:
            snap.append(("other", None, repr(x)))
    return snap


def args_unchanged(args, snap):
    for x, (kind, meta, old) in zip(args, snap):
        if kind == "sparse":
            if type(x).__name__ != meta or not np.array_equal(x.toarray(), old):
                return False
        elif kind == "array":
            if x.dtype.str != meta or not np.array_equal(x, old):
                return False
        elif repr(x) != old:
            return False
    return True


def ops_signature(d, vint, sgi, beta_lt1):
    """results of every operator of C09 on integer-valued v and a feasible policy"""
    from quantecon.markov import backward_induction
    v = np.array(vint, dtype=float); sg = np.array(sgi)
    R_, Q_ = d.RQ_sigma(sg)
    out = [np.array(d.bellman_operator(v)), np.array(d.compute_greedy(v)), np.array(d.T_sigma(sg)(v)),
           np.array(R_), dense(Q_), dense(d.controlled_mc(sg).P)]
    V_, S_ = backward_induction(d, 2, v)
    out += [V_, S_]
    if beta_lt1:
        out.append(np.array(d.evaluate_policy(sg)))
    return out


def same_results(a, b, exact=True, dtype_strict=True):
    if len(a) != len(b):
        return False
    for x, y in zip(a, b):
        x = np.asarray(x); y = np.asarray(y)
        if x.shape != y.shape:
            return False
        if x.dtype.kind in "iu" and y.dtype.kind in "iu":
            if not np.array_equal(x, y):
                return False
        elif exact:
            if (dtype_strict and x.dtype != y.dtype) or not np.array_equal(x, y):
                return False
        elif not np.allclose(x, y, rtol=1e-11, atol=1e-11):
            return False
    return True


def harden_ops(ctx, inst, form, ddp, inp, rng, thorough):
    """classes 1-3, 5 of the hardening audit for the operators: dress/dtype of the constructor arguments,
    state and sequences on one object (attribute re-assignment, several objects alive), non-mutation of arguments,
    garbage-prefilled reused buffers, conversions applied repeatedly and to each other's outputs"""
    from quantecon.markov import DiscreteDP
    vint = [rng.randrange(-5, 6) for _ in range(inst.n)]
    sgi = [rng.choice(inst.feasible(s_)) for s_ in range(inst.n)]
    lt1 = inst.beta < 1
    sparse = "sparse" in form.kind
    snap = snapshot_args(form.args)
    ref = ops_signature(ddp, vint, sgi, lt1)
    # 1. dress / dtype
    variants = dressings(form, inst, rng)
    if not thorough:
        variants = rng.sample(variants, min(4, len(variants)))
    for label, args in variants:
        asnap = snapshot_args(args)
        d2 = DiscreteDP(*args)
        got = ops_signature(d2, vint, sgi, lt1)
        g_, r_ = list(got), list(ref)
        if not inst.dyadic:
            # inexact arithmetic: another layout / dtype / storage format may sum in another order and break an EXACT tie
            # differently, so policies are compared tie-aware (any maximiser of the exact values), values with a tolerance
            vfr_ = [Fraction(x) for x in vint]
            e1_, _ = o_bellman(inst, vfr_)
            ok_t = sigma_is_near_greedy(inst, vfr_, [int(x) for x in g_[1]])
            ok_t = ok_t and g_[7].shape == r_[7].shape and sigma_is_near_greedy(inst, vfr_, [int(x) for x in g_[7][1]]) \
                and sigma_is_near_greedy(inst, e1_, [int(x) for x in g_[7][0]])
            if ok_t:
                g_[1] = r_[1]; g_[7] = r_[7]
            else:
                g_[0] = None
        if g_[0] is not None and "float32" in label and label.startswith("Q") and lt1:
            # float32 transition data: beta*Q_sigma and the linear solve are carried out in float32 (documented NumPy promotion),
            # so evaluate_policy is only float32-accurate; every other operator is exact on this data
            if not np.allclose(g_[-1], r_[-1], rtol=1e-4, atol=1e-4):
                g_[0] = None
            g_, r_ = g_[:-1], r_[:-1]
        if g_[0] is None or not same_results(g_, r_, exact=(inst.dyadic and not sparse), dtype_strict=False) or got[0].dtype != np.float64 \
                or got[2].dtype != np.float64 or got[6].dtype != np.float64:
            ctx.fail("dress", "operators depend on the type/dtype/layout in which the constructor arguments are passed",
                     dict(inp, dress=label, v=vint, sigma=sgi), [jsonable(x) for x in got[:3]], [jsonable(x) for x in ref[:3]])
        if not args_unchanged(args, asnap):
            ctx.fail("argument_mutated", "DiscreteDP modified a constructor argument", dict(inp, dress=label), None, None)
        ctx.count("dress:" + label)
    # 3. non-mutation of the canonical arguments and of the object's data
    if not args_unchanged(form.args, snap):
        ctx.fail("argument_mutated", "DiscreteDP or an operator modified a constructor argument", inp, None, None)
    again = ops_signature(ddp, vint, sgi, lt1)
    if not same_results(again, ref):
        ctx.fail("state", "repeating the operator calls on the same object changes the results", dict(inp, v=vint, sigma=sgi), None, None)
    ctx.count("seq:repeat all operators")
    # garbage-prefilled, reused output buffers
    Tv = np.full(inst.n, np.nan); sgb = np.full(inst.n, -7, dtype=int)
    for rep in range(2):
        r = ddp.bellman_operator(np.array(vint, dtype=float), Tv=Tv, sigma=sgb)
        if r is not Tv or not np.array_equal(Tv, ref[0]) or not np.array_equal(sgb, ref[1]):
            ctx.fail("buffer", "garbage-prefilled / reused Tv, sigma buffers give a different result", dict(inp, v=vint, reuse=rep), {"Tv": Tv, "sigma": sgb}, None)
        Tv[:] = np.inf; sgb[:] = 99
    ctx.count("buffer:prefilled+reused")
    # 2. attribute re-assignment and several objects alive at once
    b2 = 0.25 if inst.beta != Fraction(1, 4) else 0.75
    other = DiscreteDP(*form.args)
    other.beta = b2
    fresh = DiscreteDP(form.args[0], form.args[1], b2, *form.args[3:])
    o1 = ops_signature(other, vint, sgi, True); f1 = ops_signature(fresh, vint, sgi, True)
    mine = ops_signature(ddp, vint, sgi, lt1)          # the original object, interleaved with the two others
    if not same_results(o1, f1, exact=not sparse):
        ctx.fail("state", "re-assigning .beta on an existing object does not give the results of a fresh object", dict(inp, beta=b2), None, None)
    if not same_results(mine, ref):
        ctx.fail("state", "another DiscreteDP object alive changes the results of this one", inp, None, None)
    ctx.count("seq:reassign beta"); ctx.count("seq:several objects alive")
    # conversions applied repeatedly and to each other's outputs
    a1 = ddp.to_sa_pair_form(sparse=False); p1 = a1.to_product_form(); a2 = p1.to_sa_pair_form(sparse=True); p2 = a2.to_product_form()
    a3 = p2.to_sa_pair_form(sparse=False)
    base = [np.array(ddp.bellman_operator(np.array(vint, dtype=float))), np.array(ddp.compute_greedy(np.array(vint, dtype=float)))]
    conds = {"to_sa_pair_form of sa is self": a1.to_sa_pair_form() is a1, "to_product_form of product is self": p1.to_product_form() is p1}
    for nm_, dd in (("sa1", a1), ("prod1", p1), ("sa2", a2), ("prod2", p2), ("sa3", a3)):
        conds["bellman on " + nm_] = bool(np.allclose(dd.bellman_operator(np.array(vint, dtype=float)), base[0], rtol=1e-12, atol=1e-12))
        # the action LABELS are preserved by both conversions, so the greedy policies agree (ties: same first maximiser
        # because both forms list a state's actions in increasing label order -- except for an sa form given with -inf pairs)
        g_ = dd.compute_greedy(np.array(vint, dtype=float))
        if inst.dyadic and (not np.isinf(form.args[0]).any() or form.kind == "product"):
            conds["greedy on " + nm_] = bool(np.array_equal(g_, base[1]))
        else:       # rounding may break an exact tie differently in another storage format: require a maximiser
            conds["greedy on " + nm_] = sigma_is_near_greedy(inst, [Fraction(x) for x in vint], [int(x) for x in g_])
    def feas_(pp):
        return {(s_, a_): (float(pp.R[s_, a_]), tuple(pp.Q[s_, a_])) for s_ in range(pp.R.shape[0]) for a_ in range(pp.R.shape[1]) if pp.R[s_, a_] > -np.inf}
    conds["prod1 == prod2 on feasible pairs"] = feas_(p1) == feas_(p2)
    conds["sa2 == sa3"] = bool(np.array_equal(a3.s_indices, a2.s_indices) and np.array_equal(a3.a_indices, a2.a_indices) and np.array_equal(a3.R, a2.R)
                              and np.array_equal(dense(a3.Q), dense(a2.Q)))
    conds["arguments unchanged"] = args_unchanged(form.args, snap)
    if not all(conds.values()):
        ctx.fail("form_conversion", "to_sa_pair_form / to_product_form applied repeatedly and to each other's outputs do not preserve the problem",
                 dict(inp, v=vint, failed=[k_ for k_, ok_ in conds.items() if not ok_]), None, None)
    ctx.count("seq:conversion chain sa->prod->sa->prod->sa")


def expected_errors(ctx):
    """class 6: documented ValueErrors are raised (and nothing else)"""
    from quantecon.markov import DiscreteDP
    R = np.array([[1.0, 2.0], [0.0, 1.0]]); Q = np.zeros((2, 2, 2)); Q[:, :, 0] = 1
    RL = np.array([1.0, 2.0, 0.0]); QL = np.array([[1.0, 0.0]] * 3); s_, a_ = [0, 0, 1], [0, 1, 0]
    bad = [("beta<0", lambda: DiscreteDP(R, Q, -0.1)), ("beta>1", lambda: DiscreteDP(R, Q, 1.5)),
           ("Q 1-d", lambda: DiscreteDP(R, np.zeros(4), 0.5)), ("R 3-d", lambda: DiscreteDP(np.zeros((2, 2, 2)), Q, 0.5)),
           ("shape mismatch", lambda: DiscreteDP(np.zeros((2, 3)), Q, 0.5)), ("sa without s_indices", lambda: DiscreteDP(RL, QL, 0.5)),
           ("sa without a_indices", lambda: DiscreteDP(RL, QL, 0.5, s_indices=s_)), ("index length mismatch", lambda: DiscreteDP(RL, QL, 0.5, s_[:2], a_)),
           ("R length mismatch", lambda: DiscreteDP(RL[:2], QL, 0.5, s_, a_)),
           ("invalid method", lambda: DiscreteDP(R, Q, 0.5).solve(method="nope"))]
    for name, f in bad:
        try:
            f()
            ctx.fail("expected_error", "no ValueError for: " + name, {"case": name}, "no exception", "ValueError")
        except ValueError:
            ctx.count("expected ValueError:" + name)
        except Exception as e:
            ctx.fail("expected_error", "wrong exception for: " + name, {"case": name}, repr(e), "ValueError")



# ------------------------------------------------------------------ result aliasing across calls (shared with c01.py)
class Keeper:
    """keeps returned arrays uncopied together with an immediate deep copy"""
    def __init__(self):
        self.items = []

    @staticmethod
    def _buf(x):
        return x.data if hasattr(x, "toarray") else x

    @staticmethod
    def _val(x):
        return x.toarray() if hasattr(x, "toarray") else np.asarray(x)

    def keep(self, name, x):
        self.items.append((name, x, self._val(x).copy()))
        return x

    def overwritten(self):
        return [nm for nm, x, c in self.items if not np.array_equal(self._val(x), c)]

    def aliases(self, others=()):
        """pairs of kept results (of different calls) that share memory, and results sharing memory with `others`"""
        bad = []
        for i, (n1, x1, _) in enumerate(self.items):
            for n2, x2, _ in self.items[i + 1:]:
                if n1.split("#")[0] != n2.split("#")[0] and np.shares_memory(self._buf(x1), self._buf(x2)):
                    bad.append((n1, n2))
            for n2, x2 in others:
                if isinstance(self._buf(x2), np.ndarray) and np.shares_memory(self._buf(x1), self._buf(x2)):
                    bad.append((n1, n2))
        return bad

    def scribble(self):
        for nm, x, c in self.items:
            b = self._buf(x)
            if isinstance(b, np.ndarray) and b.flags.writeable and b.size:
                b[...] = -7 if b.dtype.kind in "iu" else -12345.678


def alias_audit(ctx, inst, form, ddp, inp, rng):
    """KEEP-AND-RECHECK, SCRIBBLE and shares_memory for every entry point of C09 that returns arrays
    (including the operator returned by T_sigma and the objects returned by the conversions)"""
    from quantecon.markov import DiscreteDP, backward_induction
    lt1 = inst.beta < 1
    v1 = np.array([float(rng.randrange(-5, 6)) for _ in range(inst.n)]); v2 = v1[::-1].copy() + 1.0
    sg1 = np.array([rng.choice(inst.feasible(s_)) for s_ in range(inst.n)]); sg2 = np.array([inst.feasible(s_)[-1] for s_ in range(inst.n)])
    snap = snapshot_args(form.args)

    def run_calls(d, K):
        """the same sequence of calls (same shapes, different inputs); K keeps every returned array"""
        T1 = d.T_sigma(sg1)
        K.keep("T_sigma(sg1)(v1)#a", T1(v1)); K.keep("T_sigma(sg1)(v2)#b", T1(v2))
        T2 = d.T_sigma(sg2)
        K.keep("T_sigma(sg2)(v1)#c", T2(v1)); K.keep("T_sigma(sg1)(v1) again#d", T1(v1))
        K.keep("bellman_operator(v1)#a", d.bellman_operator(v1)); K.keep("bellman_operator(v2)#b", d.bellman_operator(v2))
        K.keep("compute_greedy(v1)#a", d.compute_greedy(v1)); K.keep("compute_greedy(v2)#b", d.compute_greedy(v2))
        for tag, sg in (("sg1#a", sg1), ("sg2#b", sg2)):
            R_, Q_ = d.RQ_sigma(sg)
            K.keep("RQ_sigma R " + tag, R_); K.keep("RQ_sigma Q " + tag, Q_)
            K.keep("controlled_mc.P " + tag, d.controlled_mc(sg).P)
            if lt1:
                K.keep("evaluate_policy " + tag, d.evaluate_policy(sg))
        for tag, vv in (("v1#a", v1), ("v2#b", v2)):
            V_, S_ = backward_induction(d, 2, vv)
            K.keep("backward_induction vs " + tag, V_); K.keep("backward_induction sigmas " + tag, S_)
        for tag in ("#a", "#b"):
            a_ = d.to_sa_pair_form(sparse=False); p_ = d.to_product_form()
            if a_ is not d:
                K.keep("to_sa_pair_form R " + tag, a_.R); K.keep("to_sa_pair_form Q " + tag, a_.Q)
                K.keep("to_sa_pair_form s_indices " + tag, a_.s_indices); K.keep("to_sa_pair_form a_indices " + tag, a_.a_indices)
            if p_ is not d:
                K.keep("to_product_form R " + tag, p_.R); K.keep("to_product_form Q " + tag, p_.Q)
        return K

    K = run_calls(ddp, Keeper())
    ow = K.overwritten()
    if ow:
        ctx.fail("result_overwritten_by_later_call", "an array returned earlier was changed by a later call on the same object: " + "; ".join(ow[:4]),
                 dict(inp, v1=v1, v2=v2, sigma1=sg1, sigma2=sg2, overwritten=ow), None, None)
    attrs = [("ddp.R", ddp.R), ("ddp.Q", ddp.Q)] + [("constructor argument %d" % i_, a_) for i_, a_ in enumerate(form.args) if isinstance(a_, np.ndarray) or hasattr(a_, "toarray")] \
        + [("v1", v1), ("v2", v2), ("sigma1", sg1), ("sigma2", sg2)]
    al = K.aliases(attrs)
    # documented / harmless: controlled_mc(sigma).P is the Q_sigma of ITS OWN call only
    al = [p_ for p_ in al if not ("controlled_mc.P" in p_[0] or "controlled_mc.P" in p_[1])]
    if al:
        ctx.fail("result_aliasing", "results of different calls (or a result and an argument / stored attribute) share memory: %r" % (al[:3],),
                 dict(inp, pairs=al[:6]), None, None)
    # SCRIBBLE: garbage written into every returned array must not leak into later calls on the same or a fresh object
    expected = [(nm, c) for nm, _, c in K.items]
    K.scribble()
    for who, d in (("same object", ddp), ("fresh object", DiscreteDP(*form.args))):
        K2 = run_calls(d, Keeper())
        wrong = [nm for (nm, c), (_, _, c2) in zip(expected, K2.items) if c.shape != c2.shape or not np.allclose(c, c2, rtol=1e-12, atol=1e-12)]
        if wrong:
            ctx.fail("result_aliases_internal_state", "after the caller overwrote returned arrays, the same calls on the %s give other values: %s" % (who, "; ".join(wrong[:4])),
                     dict(inp, v1=v1, v2=v2, sigma1=sg1, sigma2=sg2, wrong=wrong, object=who), None, None)
    if not args_unchanged(form.args, snap):
        ctx.fail("result_aliases_internal_state", "overwriting returned arrays changed a constructor argument", inp, None, None)
    ctx.count("alias:keep-and-recheck"); ctx.count("alias:scribble same+fresh"); ctx.count("alias:shares_memory")


# ------------------------------------------------------------------ the check
def run(ctx):
    thorough = ctx.tier == "thorough"
    rng = ctx.rng
    ctx.proofs(["C09/Props.v", "C09/PropsTie.v"])
    warnings.filterwarnings("ignore")
    from quantecon.markov import DiscreteDP, backward_induction

    n_inst = 450 if thorough else 60
    insts = []
    # hand-made corner cases first: single state, all ties, beta in {0,1}
    insts.append(Inst(1, 1, [[Fraction(2)]], [[[Fraction(1)]]], Fraction(1, 2), True, "corner"))
    insts.append(Inst(2, 3, [[Fraction(1)] * 3, [None, Fraction(0), Fraction(0)]],
                      [[[Fraction(1), Fraction(0)]] * 3, [[Fraction(0), Fraction(1)]] * 3], Fraction(3, 4), True, "corner-all-ties"))
    insts.append(Inst(2, 2, [[Fraction(5), Fraction(10)], [Fraction(-1), None]],
                      [[[Fraction(1, 2), Fraction(1, 2)], [Fraction(0), Fraction(1)]], [[Fraction(0), Fraction(1)], [Fraction(1, 2), Fraction(1, 2)]]],
                      Fraction(19, 20), False, "puterman"))
    insts.append(gen_inst(rng, n=3, m=2, beta=Fraction(1023, 1024)))       # beta next to 1
    insts.append(gen_inst(rng, n=1, m=3, beta=Fraction(0)))
    while len(insts) < n_inst:
        insts.append(gen_inst(rng, nmax=6 if thorough else 5, mmax=5 if thorough else 4, allow_beta1=True))

    bell_exact, bell_close, bell_float = [], [], []
    meta_exact, meta_close, meta_float = [], [], []
    rq_cases, rq_meta = [], []
    ev_cases, ev_meta = [], []
    bi_cases, bi_meta = [], []
    ctor_cases, ctor_meta = [], []
    conv_cases, conv_meta = [], []
    seq_cases, seq_meta = [], []

    corp = corpus()
    corp_orders = {id(ci): orders for ci, orders in corp}
    insts = [ci for ci, _ in corp] + insts
    for ii, inst in enumerate(insts):
        kinds = FORM_KINDS if (thorough or ii % 2 == 0) else [rng.choice(FORM_KINDS[:1] + FORM_KINDS[2:3]), rng.choice(FORM_KINDS[1:])]
        plan = [(k_, None) for k_ in kinds]
        if id(inst) in corp_orders:
            plan = [(k_, o_) for o_ in corp_orders[id(inst)] for k_ in ("sa_shuffled", "sa_sparse_shuffled")] + [("product", None)]
        ctx.count("n=%d" % inst.n); ctx.count("m=%d" % inst.m); ctx.count("beta=%s" % inst.beta); ctx.count("chain:" + inst.tag)
        if any(x is None for r in inst.R for x in r):
            ctx.count("has -inf reward")
        for kind, order_ in plan:
            try:
                form = make_form(inst, kind, rng, keep_neginf_pairs=(rng.random() < 0.25 and order_ is None), order=order_)
                ctx.count("form:" + kind)
                if kind != "product":
                    ctx.count("pair order:" + form.order)
                try:
                    ddp = build(form)
                except Exception as e:
                    ctx.fail("constructor_rejects_admissible", "constructor raised on an admissible instance: %r" % (e,),
                             {"inst": inst.to_json(), "form": kind, "pairs": form.pairs}, repr(e), "accepted")
                    continue
                ident = (inst.key(), kind, tuple(form.pairs))
                ctx.case(ident, nontrivial=inst.nontrivial(),
                         sample={"form": kind, "n": inst.n, "m": inst.m, "beta": inst.beta, "pairs": form.pairs[:8]})
                inp = {"inst": inst.to_json(), "form": kind, "pairs": form.pairs}

                # ---- constructor result (CSR re-sorting of unsorted pairs)
                if kind != "product":
                    srt = sorted(range(len(form.pairs)), key=lambda i: form.pairs[i])
                    exp_s = [form.pairs[i][0] for i in srt]; exp_a = [form.pairs[i][1] for i in srt]
                    exp_ptr = [sum(1 for s in exp_s if s < i) for i in range(inst.n + 1)]
                    got = (list(map(int, ddp.s_indices)), list(map(int, ddp.a_indices)), list(map(int, ddp.a_indptr)))
                    Rg = [float(x) for x in ddp.R]; Qg = dense(ddp.Q)
                    okc = got == (exp_s, exp_a, exp_ptr)
                    okc = okc and all(Rg[k] == f2np(inst.R[s][a]) for k, (s, a) in enumerate(zip(exp_s, exp_a)))
                    okc = okc and all(list(Qg[k]) == [float(x) for x in inst.Q[s][a]] for k, (s, a) in enumerate(zip(exp_s, exp_a)))
                    if not okc:
                        ctx.fail("constructor_sorting", "pairs/rewards/rows after construction are not the (s,a)-sorted input", inp, got, (exp_s, exp_a, exp_ptr))
                    ctor_cases.append(tup(form.coq, natlit(inst.n), natlist(got[0]), natlist(got[1]), natlist(got[2]),
                                          ext_list(None if x == -np.inf else frac(x) for x in Rg), qlist2([[frac(x) for x in r] for r in Qg])))
                    ctor_meta.append(inp)

                # ---- bellman_operator / compute_greedy
                tests_exact, tests_close = [], []
                vs_list = [[Fraction(0)] * inst.n] + [dyadic_v(rng, inst.n) for _ in range(3)]
                # huge values only where all arithmetic is exact (tenths x 2^30 cancel catastrophically in floating point)
                vs_list.append(dyadic_v(rng, inst.n, scale_bits=rng.choice([10, 20, 30]) if inst.dyadic else 0))
                for vi_, v in enumerate(vs_list):
                    vf = np.array([float(x) for x in v])
                    mode = vi_ % 3
                    if mode == 0:
                        Tv = ddp.bellman_operator(vf); sg = ddp.compute_greedy(vf)
                    elif mode == 1:
                        Tv = np.empty(inst.n); sg = np.empty(inst.n, dtype=int)
                        r = ddp.bellman_operator(vf, Tv=Tv, sigma=sg)
                        if r is not Tv:
                            ctx.fail("bellman_out_array", "bellman_operator did not return the supplied Tv array", inp, None, None)
                    else:
                        Tv = np.empty(inst.n)
                        ddp.bellman_operator(vf, Tv=Tv)
                        sg = np.empty(inst.n, dtype=int)
                        r = ddp.compute_greedy(vf, sigma=sg)
                        if r is not sg:
                            ctx.fail("greedy_out_array", "compute_greedy did not return the supplied sigma array", inp, None, None)
                    ctx.count("bellman:out-arrays mode %d" % mode)
                    Tv = [float(x) for x in Tv]; sg = [int(x) for x in sg]
                    oTv, oarg = o_bellman(inst, v)
                    tie = any(len(a) > 1 for a in oarg)
                    ctx.count("bellman:tie" if tie else "bellman:unique argmax")
                    exact = inst.dyadic
                    if exact:
                        if [frac(x) for x in Tv] != oTv or sg != [a[0] for a in oarg]:
                            ctx.fail("bellman_value", "bellman_operator/compute_greedy differ from the exact max / first maximiser (dyadic data)",
                                     dict(inp, v=v), {"Tv": Tv, "sigma": sg}, {"Tv": oTv, "argmax sets": oarg})
                        tests_exact.append(tup(qlist(v), qlist([frac(x) for x in Tv]), natlist(sg)))
                    else:
                        if not all(close(x, y) for x, y in zip(Tv, oTv)) or not sigma_is_near_greedy(inst, v, sg) \
                                or any(len(a) == 1 and sg[s] != a[0] and
                                       min(oTv[s] - x for b, x in o_vals(inst, v, s).items() if b != a[0]) > TOL * (1 + abs(oTv[s]))
                                       for s, a in enumerate(oarg)):
                            ctx.fail("bellman_value", "bellman_operator/compute_greedy differ from the exact max / a maximiser",
                                     dict(inp, v=v), {"Tv": Tv, "sigma": sg}, {"Tv": oTv, "argmax sets": oarg})
                        tests_close.append(tup(qlist(v), qlist([frac(x) for x in Tv]), natlist(sg)))

                # huge / very negative dyadic v through the float instance (bit-exact: every product and partial sum is exact)
                if inst.dyadic and kind in ("product", "sa_shuffled", "sa_sparse"):
                    e = rng.choice([60, 100, 500, 1000])
                    vbig = [rng.randrange(-2**20, 2**20) * 2.0 ** e for _ in range(inst.n)]
                    Tv = [float(x) for x in ddp.bellman_operator(np.array(vbig))]
                    sg = [int(x) for x in ddp.compute_greedy(np.array(vbig))]
                    ex = [Fraction(x) for x in vbig]
                    oTv, oarg = o_bellman(inst, ex)
                    if not all(close(x, y, Fraction(1, 10**15)) for x, y in zip(Tv, oTv)) or not sigma_is_near_greedy(inst, ex, sg, Fraction(1, 10**15)):
                        ctx.fail("bellman_value_huge", "bellman_operator wrong on huge v", dict(inp, v=vbig), {"Tv": Tv, "sigma": sg}, {"Tv": oTv})
                    fcoq = form.coq.replace("(T:=Q)", "(T:=float)")
                    # rebuild the term with float literals
                    fcoq = float_term(form)
                    bell_float.append(tup(fcoq, flist(vbig), flist(Tv), natlist(sg))); meta_float.append(dict(inp, v=vbig))
                    ctx.count("bellman:huge v 2^%d" % e)

                # ---- argument FORMS: integer-valued v as list / tuple / int32 / int64 / float32 / float64, with and without
                # supplied output arrays: every result must be the float64 result (float64 dtype, same values)
                vint = [rng.randrange(-6, 7) for _ in range(inst.n)]
                vfr = [Fraction(x) for x in vint]
                refT = ddp.bellman_operator(np.array(vint, dtype=float)).copy()
                refg = ddp.compute_greedy(np.array(vint, dtype=float)).copy()
                oTv, oarg = o_bellman(inst, vfr)
                if not all(close(float(x), y) for x, y in zip(refT, oTv)) or not sigma_is_near_greedy(inst, vfr, [int(x) for x in refg]):
                    ctx.fail("bellman_value", "bellman_operator/compute_greedy wrong on an integer vector", dict(inp, v=vint), {"Tv": refT, "sigma": refg}, {"Tv": oTv})
                for fname, xv in arg_forms(vint).items():
                    for supplied in (False, True):
                        if supplied:
                            Tv = np.empty(inst.n); sg = np.empty(inst.n, dtype=int)
                            ddp.bellman_operator(xv, Tv=Tv, sigma=sg)
                        else:
                            Tv = ddp.bellman_operator(xv); sg = ddp.compute_greedy(xv)
                        if np.asarray(Tv).dtype != np.float64 or not np.array_equal(Tv, refT) or not np.array_equal(sg, refg):
                            ctx.fail("argument_form", "bellman_operator/compute_greedy depend on the form (type/dtype) in which v is passed",
                                     dict(inp, v=vint, v_form=fname, supplied_out_arrays=supplied),
                                     {"Tv": Tv, "dtype": str(np.asarray(Tv).dtype), "sigma": sg}, {"Tv": refT, "sigma": refg})
                        elif not supplied:
                            t_ = tup(qlist(vfr), qlist([frac(float(x)) for x in Tv]), natlist([int(x) for x in sg]))
                            (tests_exact if inst.dyadic else tests_close).append(t_)
                    ctx.count("argument form v:" + fname)
                # sigma forms for RQ_sigma / T_sigma / evaluate_policy / controlled_mc, v_term forms for backward_induction
                sgi = [rng.choice(inst.feasible(s_)) for s_ in range(inst.n)]
                rR, rQ = ddp.RQ_sigma(np.array(sgi)); rQ = dense(rQ)
                rT = ddp.T_sigma(np.array(sgi))(np.array(vint, dtype=float))
                rE = ddp.evaluate_policy(np.array(sgi)) if inst.beta < 1 else None
                rV, rS = backward_induction(ddp, 2, np.array(vint, dtype=float))
                for fname, xs in arg_forms(sgi, floats=False).items():
                    xv = arg_forms(vint)[rng.choice(["list", "tuple", "int32", "int64", "float32"])]
                    R_, Q_ = ddp.RQ_sigma(xs)
                    okf = np.array_equal(R_, rR) and np.array_equal(dense(Q_), rQ) and np.array_equal(dense(ddp.controlled_mc(xs).P), rQ)
                    T_ = ddp.T_sigma(xs)(xv)
                    okf = okf and np.asarray(T_).dtype == np.float64 and np.array_equal(T_, rT)
                    if rE is not None:
                        okf = okf and np.array_equal(ddp.evaluate_policy(xs), rE)
                    if not okf:
                        ctx.fail("argument_form", "RQ_sigma/controlled_mc/T_sigma/evaluate_policy depend on the form in which sigma / v are passed",
                                 dict(inp, sigma=sgi, sigma_form=fname, v=vint), None, None)
                    ctx.count("argument form sigma:" + fname)
                for fname, xv in arg_forms(vint).items():
                    V_, S_ = backward_induction(ddp, 2, xv)
                    if V_.dtype != np.float64 or not np.array_equal(V_, rV) or not np.array_equal(S_, rS):
                        ctx.fail("argument_form", "backward_induction depends on the form in which v_term is passed",
                                 dict(inp, v_term=vint, v_form=fname), {"vs": V_, "sigmas": S_}, {"vs": rV, "sigmas": rS})

                if tests_exact:
                    bell_exact.append(tup(form.coq, "[" + "; ".join(tests_exact) + "]")); meta_exact.append(inp)
                if tests_close:
                    bell_close.append(tup(form.coq, "[" + "; ".join(tests_close) + "]")); meta_close.append(inp)

                # ---- hardening audit: dress/dtype, state, non-mutation, buffers, conversion chains
                if thorough or ii % 3 == 0:
                    harden_ops(ctx, inst, form, ddp, inp, rng, thorough)

                # ---- result aliasing across calls (keep-and-recheck, scribble, shares_memory)
                alias_audit(ctx, inst, form, ddp, inp, rng)

                # ---- call SEQUENCES on one DiscreteDP object: every returned array is kept and checked only at the END
                # (a result must not be overwritten by a later call; results of different calls must not alias)
                for use_out in (False, True):
                    v0 = dyadic_v(rng, inst.n)
                    v0f = np.array([float(x) for x in v0])
                    if use_out:
                        b1, b2 = np.empty(inst.n), np.empty(inst.n)
                        g1, g2 = np.empty(inst.n, dtype=int), np.empty(inst.n, dtype=int)
                        r1 = ddp.bellman_operator(v0f, Tv=b1)
                        r2 = ddp.bellman_operator(r1, Tv=b2)
                        s1 = ddp.compute_greedy(r1, sigma=g1)
                        s2 = ddp.compute_greedy(v0f, sigma=g2)
                        if r1 is not b1 or r2 is not b2 or s1 is not g1 or s2 is not g2:
                            ctx.fail("sequence_out_arrays", "a supplied output array was not the one returned", inp, None, None)
                    else:
                        r1 = ddp.bellman_operator(v0f)
                        r2 = ddp.bellman_operator(r1)
                        s1 = ddp.compute_greedy(r1)
                        s2 = ddp.compute_greedy(v0f)
                    w = ddp.T_sigma(s1)(v0f)
                    r3 = ddp.bellman_operator(v0f)          # same argument again: must equal r1, in a different array
                    ev = ddp.evaluate_policy(s1) if inst.beta < 1 else None
                    arrays = [r1, r2, r3, s1, s2, w, v0f] + ([ev] if ev is not None else [])
                    if any(np.shares_memory(x, y) for i_, x in enumerate(arrays) for y in arrays[i_ + 1:]):
                        ctx.fail("sequence_aliasing", "results of different calls on one DiscreteDP share memory (a later call overwrites an earlier result)",
                                 dict(inp, v0=v0, supplied_out_arrays=use_out), None, None)
                    ctx.count("call sequence:" + ("supplied Tv/sigma" if use_out else "no output arrays"))
                    # read everything only now
                    R1 = [float(x) for x in r1]; R2 = [float(x) for x in r2]; R3 = [float(x) for x in r3]
                    S1 = [int(x) for x in s1]; S2 = [int(x) for x in s2]; W = [float(x) for x in w]
                    if [float(x) for x in v0f] != [float(x) for x in v0]:
                        ctx.fail("sequence_argument_mutated", "the argument v was modified by a call", dict(inp, v0=v0), list(v0f), None)
                    e1, _ = o_bellman(inst, v0); e2, _ = o_bellman(inst, e1)
                    ok_seq = all(close(x, y) for x, y in zip(R1, e1)) and all(close(x, y) for x, y in zip(R2, e2)) \
                        and all(close(x, y) for x, y in zip(R3, e1)) and sigma_is_near_greedy(inst, e1, S1) and sigma_is_near_greedy(inst, v0, S2)
                    if ok_seq:
                        eW = [inst.R[s_][S1[s_]] + inst.beta * sum(q * x for q, x in zip(inst.Q[s_][S1[s_]], v0)) for s_ in range(inst.n)]
                        ok_seq = all(close(x, y) for x, y in zip(W, eW))
                        if ok_seq and ev is not None:
                            ov = o_policy_value(inst, S1)
                            ok_seq = ov is not None and all(close(float(x), y) for x, y in zip(ev, ov))
                    if not ok_seq:
                        ctx.fail("sequence_values", "after a sequence of calls on one DiscreteDP an earlier result no longer equals its exact value",
                                 dict(inp, v0=v0, supplied_out_arrays=use_out), {"T v0": R1, "T T v0": R2, "T v0 again": R3, "greedy(T v0)": S1, "greedy(v0)": S2, "T_sigma v0": W},
                                 {"T v0": e1, "T T v0": e2})
                    seq_cases.append(tup(form.coq, qlist(v0), qlist([frac(x) for x in R1]), qlist([frac(x) for x in R2]), qlist([frac(x) for x in R3]),
                                         natlist(S1), natlist(S2), qlist([frac(x) for x in W])))
                    seq_meta.append(dict(inp, v0=v0, supplied_out_arrays=use_out))

                # ---- RQ_sigma / T_sigma / controlled_mc / evaluate_policy over feasible policies
                pols = feasible_policies(inst, rng, 24 if inst.n <= 4 else 8) if (thorough or ii % 3 == 0) else feasible_policies(inst, rng, 3)
                rq_tests, ev_tests = [], []
                for sigma in pols:
                    Rs, Qs = ddp.RQ_sigma(np.array(sigma))
                    Rs = [float(x) for x in Rs]; Qs = dense(Qs)
                    mcP = dense(ddp.controlled_mc(np.array(sigma)).P)
                    v = dyadic_v(rng, inst.n)
                    Tsv = [float(x) for x in ddp.T_sigma(np.array(sigma))(np.array([float(x) for x in v]))]
                    oR = [inst.R[s][sigma[s]] for s in range(inst.n)]
                    oQ = [inst.Q[s][sigma[s]] for s in range(inst.n)]
                    if Rs != [float(x) for x in oR] or [list(r) for r in Qs] != [[float(x) for x in r] for r in oQ] \
                            or not np.array_equal(mcP, Qs):
                        ctx.fail("RQ_sigma_rows", "RQ_sigma/controlled_mc do not select the rows of the pairs (s, sigma(s))",
                                 dict(inp, sigma=sigma), {"R_sigma": Rs, "Q_sigma": Qs}, {"R_sigma": oR, "Q_sigma": oQ})
                    oT = [oR[s] + inst.beta * sum(q * x for q, x in zip(oQ[s], v)) for s in range(inst.n)]
                    if not all(close(x, y) for x, y in zip(Tsv, oT)):
                        ctx.fail("T_sigma_value", "T_sigma(v) is not R_sigma + beta Q_sigma v", dict(inp, sigma=sigma, v=v), Tsv, oT)
                    rq_tests.append(tup(natlist(sigma), qlist([frac(x) for x in Rs]), qlist2([[frac(x) for x in r] for r in Qs]),
                                        qlist(v), qlist([frac(x) for x in Tsv])))
                    if inst.beta < 1:
                        ev = [float(x) for x in ddp.evaluate_policy(np.array(sigma))]
                        ov = o_policy_value(inst, sigma)
                        if ov is None or not all(close(x, y) for x, y in zip(ev, ov)):
                            ctx.fail("evaluate_policy_value", "evaluate_policy is not the fixed point of T_sigma", dict(inp, sigma=sigma), ev, ov)
                        ev_tests.append(tup(natlist(sigma), qlist([frac(x) for x in ev])))
                    ctx.count("policies evaluated")
                if rq_tests:
                    rq_cases.append(tup(form.coq, "[" + "; ".join(rq_tests) + "]")); rq_meta.append(inp)
                if ev_tests:
                    ev_cases.append(tup(form.coq, "[" + "; ".join(ev_tests) + "]")); ev_meta.append(inp)

                # ---- backward induction
                if thorough or ii % 2 == 0 or inst.beta == 1:
                    Th = rng.choice([0, 1, 2, 3, 5, 8])
                    vterm = None if rng.random() < 0.3 else dyadic_v(rng, inst.n)
                    vs, sgs = backward_induction(ddp, Th, None if vterm is None else np.array([float(x) for x in vterm]))
                    vt = vterm if vterm is not None else [Fraction(0)] * inst.n
                    ovs = [vt]; ok_bi = True
                    for t in range(Th, 0, -1):
                        nv, _ = o_bellman(inst, ovs[0])
                        if not sigma_is_near_greedy(inst, ovs[0], [int(x) for x in sgs[t - 1]]):
                            ok_bi = False
                        ovs.insert(0, nv)
                    if vs.shape != (Th + 1, inst.n) or sgs.shape != (Th, inst.n) or not ok_bi or \
                            not all(close(float(vs[t, s]), ovs[t][s]) for t in range(Th + 1) for s in range(inst.n)):
                        ctx.fail("backward_induction_value", "backward_induction is not the exact finite-horizon recursion",
                                 dict(inp, T=Th, v_term=vterm), {"vs": vs, "sigmas": sgs}, {"vs": ovs})
                    # brute force over all policy sequences for tiny instances
                    if 1 <= Th <= 3 and num_policies(inst) ** Th <= 300:
                        best = None
                        for seq in itertools.product(list(all_policies(inst)), repeat=Th):
                            w = list(vt)
                            for t in range(Th - 1, -1, -1):
                                w = [inst.R[s][seq[t][s]] + inst.beta * sum(q * x for q, x in zip(inst.Q[s][seq[t][s]], w)) for s in range(inst.n)]
                            best = w if best is None else [max(x, y) for x, y in zip(best, w)]
                        w = list(vt)
                        for t in range(Th - 1, -1, -1):
                            sg = [int(x) for x in sgs[t]]
                            w = [inst.R[s][sg[s]] + inst.beta * sum(q * x for q, x in zip(inst.Q[s][sg[s]], w)) if sg[s] in inst.feasible(s) else Fraction(-10**9) for s in range(inst.n)]
                        ctx.count("backward induction: brute force over policy sequences")
                        if not all(close(float(vs[0, s]), best[s]) for s in range(inst.n)) or not all(abs(w[s] - best[s]) <= TOL * (1 + abs(best[s])) for s in range(inst.n)):
                            ctx.fail("backward_induction_optimal", "vs[0] / sigmas are not optimal among all policy sequences",
                                     dict(inp, T=Th, v_term=vterm), {"vs0": vs[0], "sigmas": sgs, "value of sigmas": w}, best)
                    ctx.count("backward induction T=%d" % Th)
                    bi_cases.append(tup(form.coq, natlit(Th), qlist(vt), qlist2([[frac(x) for x in r] for r in vs]),
                                        "[" + "; ".join(natlist([int(x) for x in r]) for r in sgs) + "]" if Th else "(@nil (list nat))"))
                    bi_meta.append(dict(inp, T=Th, v_term=vterm))

                # ---- form conversion
                if kind == "product":
                    for sparse in (True, False):
                        sa = ddp.to_sa_pair_form(sparse=sparse)
                        feas = [(s, a) for s in range(inst.n) for a in inst.feasible(s)]
                        got = (list(map(int, sa.s_indices)), list(map(int, sa.a_indices)), list(map(int, sa.a_indptr)))
                        Rg = [float(x) for x in sa.R]; Qg = dense(sa.Q)
                        okc = list(zip(got[0], got[1])) == feas and Rg == [float(inst.R[s][a]) for s, a in feas] and \
                            [list(r) for r in Qg] == [[float(x) for x in inst.Q[s][a]] for s, a in feas] and sa.beta == ddp.beta
                        back = sa.to_product_form()
                        okc = okc and np.array_equal(back.R, ddp.R) and all(np.array_equal(back.Q[s, a], ddp.Q[s, a]) for s, a in feas) \
                            and all(not back.Q[s, a].any() for s in range(inst.n) for a in range(back.R.shape[1]) if (s, a) not in feas) \
                            if okc and back.R.shape == ddp.R.shape else (okc and all(
                                back.R[s, a] == ddp.R[s, a] for s in range(inst.n) for a in range(back.R.shape[1])) and
                                all(x is None for r in inst.R for x in r[back.R.shape[1]:]))
                        if not okc:
                            ctx.fail("form_conversion", "to_sa_pair_form/to_product_form do not preserve rewards, rows and feasibility",
                                     dict(inp, sparse=sparse), {"s": got[0], "a": got[1], "R": Rg}, feas)
                        conv_cases.append(tup(form.coq, "true", natlist(got[0]), natlist(got[1]), natlist(got[2]),
                                              ext_list(None if x == -np.inf else frac(x) for x in Rg), qlist2([[frac(x) for x in r] for r in Qg])))
                        conv_meta.append(dict(inp, conv="to_sa_pair_form", sparse=sparse))
                        if ddp.to_product_form() is not ddp:
                            ctx.fail("form_conversion", "to_product_form of a product ddp is not the identity", inp, None, None)
                else:
                    pr = ddp.to_product_form()
                    na = pr.R.shape[1]
                    okc = pr.R.shape == (inst.n, na) and pr.Q.shape == (inst.n, na, inst.n) and na == max(form.a) + 1
                    pset = set(form.pairs)
                    for s in range(inst.n):
                        for a in range(na if okc else 0):
                            if (s, a) in pset:
                                okc = okc and pr.R[s, a] == f2np(inst.R[s][a]) and list(pr.Q[s, a]) == [float(x) for x in inst.Q[s][a]]
                            else:
                                okc = okc and pr.R[s, a] == -np.inf and not pr.Q[s, a].any()
                    if not okc:
                        ctx.fail("form_conversion", "to_product_form does not preserve rewards, rows and feasibility", inp,
                                 {"R": pr.R, "Q": pr.Q}, None)
                    if ddp.to_sa_pair_form() is not ddp:
                        ctx.fail("form_conversion", "to_sa_pair_form of an sa-pair ddp is not the identity", inp, None, None)
                    Rg = [x for r in pr.R for x in r]; Qg = [list(q) for rows in pr.Q for q in rows]
                    conv_cases.append(tup(form.coq, "false", natlist([s for s in range(inst.n) for _ in range(na)]),
                                          natlist([a for _ in range(inst.n) for a in range(na)]), natlist([i * na for i in range(inst.n + 1)]),
                                          ext_list(None if x == -np.inf else frac(x) for x in Rg), qlist2([[frac(x) for x in r] for r in Qg])))
                    conv_meta.append(dict(inp, conv="to_product_form"))
            except Exception as e:   # garbage (inf/nan, wrong shapes) or an exception from the implementation on an admissible instance
                ctx.fail("implementation_raised_or_garbage", "operation raised or returned non-finite/ill-shaped data: %r" % (e,),
                         {"inst": inst.to_json(), "form": kind}, repr(e), None)

    DD = "cres (ddp Q)"
    TOLd = "(1 # 1000000000000)"

    def report(bad, name, meta):
        for i in bad:
            ctx.mismatch(name, meta[i])

    bad = ctx.coq_check("constructor_sa", IMPORTS, DD + " * nat * list nat * list nat * list nat * list (ext Q) * list (list Q)",
                        "fun c => let '(cd, n, s, a, p, R, Qm) := c in with_ok cd (fun d => ddp_close %s d n s a p R Qm)" % TOLd,
                        ctor_cases, chunk=100, preamble=PREAMBLE)
    report(bad, "C09.Model.mk_sa (sorted path / CSR re-sorting) vs DiscreteDP.__init__", ctor_meta)
    BT = DD + " * list (list Q * list Q * list nat)"
    bad = ctx.coq_check("bellman_exact", IMPORTS, BT,
                        "fun c => let '(cd, ts) := c in with_ok cd (fun d => forallb (fun t => let '(v, tv, sg) := t in "
                        "Qs_eqb (bellman_operator d v) tv && nats_eqb (compute_greedy d v) sg) ts)", bell_exact, chunk=60, preamble=PREAMBLE)
    report(bad, "C09.Model.bellman_operator/compute_greedy (exact, dyadic data) vs DiscreteDP", meta_exact)
    bad = ctx.coq_check("bellman_close", IMPORTS, BT,
                        "fun c => let '(cd, ts) := c in with_ok cd (fun d => forallb (fun t => let '(v, tv, sg) := t in "
                        "Qs_close %s (bellman_operator d v) tv && near_greedy %s d v sg) ts)" % (TOLQ, TOLQ), bell_close, chunk=60, preamble=PREAMBLE)
    report(bad, "C09.Model.bellman_operator/compute_greedy (1e-9, near-greedy) vs DiscreteDP", meta_close)
    bad = ctx.coq_check("bellman_float_huge", IMPORTS, "cres (ddp float) * list float * list float * list nat",
                        "fun c => let '(cd, v, tv, sg) := c in with_ok cd (fun d => Fs_eqb (bellman_operator d v) tv && nats_eqb (compute_greedy d v) sg)",
                        bell_float, chunk=60, preamble=PREAMBLE)
    report(bad, "C09.Model.bellman_operator/compute_greedy (PrimFloat instance, bit-exact on huge dyadic v) vs DiscreteDP", meta_float)
    # model fold over the same operations: T v0, T (T v0), T v0 again, greedy(T v0), greedy(v0), T_sigma(greedy) v0
    bad = ctx.coq_check("call_sequence", IMPORTS, DD + " * list Q * list Q * list Q * list Q * list nat * list nat * list Q",
                        "fun c => let '(cd, v0, r1, r2, r3, s1, s2, w) := c in with_ok cd (fun d => let t1 := bellman_operator d v0 in "
                        "Qs_close %s t1 r1 && Qs_close %s (bellman_operator d t1) r2 && Qs_close %s t1 r3 && near_greedy %s d t1 s1 && "
                        "near_greedy %s d v0 s2 && match T_sigma d s1 v0 with Some y => Qs_close %s y w | None => false end)"
                        % (TOLQ, TOLQ, TOLQ, TOLQ, TOLQ, TOLQ), seq_cases, chunk=60, preamble=PREAMBLE)
    report(bad, "C09.Model fold over a call sequence (results read at the end) vs one DiscreteDP object", seq_meta)
    bad = ctx.coq_check("RQ_sigma_T_sigma", IMPORTS, DD + " * list (list nat * list Q * list (list Q) * list Q * list Q)",
                        "fun c => let '(cd, ts) := c in with_ok cd (fun d => forallb (fun t => let '(sg, Rs, Qs, v, tsv) := t in "
                        "match RQ_sigma_fin d sg, controlled_mc d sg, T_sigma d sg v with "
                        "| Some (mr, mq), Some mc, Some mt => Qs_close %s mr Rs && Qss_close %s mq Qs && Qss_close %s mc Qs && Qs_close %s mt tsv "
                        "| _, _, _ => false end) ts)" % (TOLd, TOLd, TOLd, TOLQ), rq_cases, chunk=60, preamble=PREAMBLE)
    report(bad, "C09.Model.RQ_sigma/controlled_mc/T_sigma vs DiscreteDP", rq_meta)
    bad = ctx.coq_check("evaluate_policy", IMPORTS, DD + " * list (list nat * list Q)",
                        "fun c => let '(cd, ts) := c in with_ok cd (fun d => forallb (fun t => let '(sg, ev) := t in "
                        "match evaluate_policy d sg with Some x => Qs_close %s x ev | None => false end) ts)" % TOLQ, ev_cases, chunk=50, preamble=PREAMBLE)
    report(bad, "C09.Model.evaluate_policy (exact certified solve) vs DiscreteDP.evaluate_policy (1e-9)", ev_meta)
    bad = ctx.coq_check("backward_induction", IMPORTS, DD + " * nat * list Q * list (list Q) * list (list nat)",
                        "fun c => let '(cd, Th, vt, vs, sgs) := c in with_ok cd (fun d => let '(mvs, msg) := backward_induction d Th vt in "
                        "Qss_close %s mvs vs && Nat.eqb (length sgs) Th && "
                        "forallb (fun p => near_greedy %s d (fst p) (snd p)) (combine (tl mvs) sgs) && "
                        "forallb (fun p => list_eqb (fun x y => Nat.eqb x y || true) (fst p) (snd p)) (combine msg sgs))" % (TOLQ, TOLQ),
                        bi_cases, chunk=40, preamble=PREAMBLE)
    report(bad, "C09.Model.backward_induction vs markov.ddp.backward_induction", bi_meta)
    bad = ctx.coq_check("form_conversion", IMPORTS, DD + " * bool * list nat * list nat * list nat * list (ext Q) * list (list Q)",
                        "fun c => let '(cd, tosa, s, a, p, R, Qm) := c in with_ok cd (fun d => "
                        "match (if tosa then to_sa_pair_form d else to_product_form d) with "
                        "| COk d' => ddp_close %s d' (d_n d) s a p R Qm && "
                        "  (if tosa then match to_product_form d' with COk d2 => true | _ => false end else true) | _ => false end)" % TOLd,
                        conv_cases, chunk=100, preamble=PREAMBLE)
    report(bad, "C09.Model.to_sa_pair_form/to_product_form vs DiscreteDP", conv_meta)

    expected_errors(ctx)
    constructor_rejection(ctx, thorough)


def fl(x):
    t = flit(x)
    return t + "%float" if t.startswith("(") else "(%s)%%float" % t


def float_term(form):
    inst = form.inst

    def e(x):
        return "NegInf" if x is None else "Fin " + fl(float(x))

    def el(a):
        a = list(a)
        return "[" + "; ".join(e(x) for x in a) + "]" if a else "(@nil (ext float))"
    if form.kind == "product":
        return "(mk_prod (T:=float) %d %d [%s] [%s] %s)" % (
            inst.n, inst.m, "; ".join(el(r) for r in inst.R), "; ".join(flist2([[float(x) for x in q] for q in rows]) for rows in inst.Q),
            fl(float(inst.beta)))
    return "(mk_sa (T:=float) %d %s %s %s %s %s)" % (
        inst.n, natlist(form.s), natlist(form.a), el(inst.R[s][a] for s, a in form.pairs),
        flist2([[float(x) for x in inst.Q[s][a]] for s, a in form.pairs]), fl(float(inst.beta)))


# ------------------------------------------------------------------ constructor rejection (subprocess, bounds-checked)
SUB = r"""
import sys, json, warnings
import numpy as np
import scipy.sparse as sp
warnings.simplefilter("ignore")
from quantecon.markov import DiscreteDP
cases = json.load(open(sys.argv[1]))
out = []
for c in cases:
    n = c["n"]
    R = np.array([(-np.inf if x is None else x) for x in c["R"]], dtype=float)
    Q = np.array(c["Q"], dtype=float).reshape(len(c["R"]), n)
    if c["sparse"]:
        Q = sp.csr_matrix(Q)
    try:
        if c["product"]:
            m = c["m"]
            d = DiscreteDP(R.reshape(n, m), np.asarray(c["Q"], dtype=float).reshape(n, m, n), c["beta"])
        else:
            d = DiscreteDP(R, Q, c["beta"], np.array(c["s"], dtype=int), np.array(c["a"], dtype=int))
        res = "OK"
        if c.get("ops"):
            v = np.array(c["v"], dtype=float)
            d.bellman_operator(v); d.compute_greedy(v)
            sg = d.compute_greedy(v); d.RQ_sigma(sg); d.T_sigma(sg)(v)
            if c["beta"] < 1:
                d.evaluate_policy(sg)
    except ValueError as e:
        res = "ValueError"
    except IndexError as e:
        res = "IndexError"
    except Exception as e:
        res = "Other:" + type(e).__name__
    out.append(res)
json.dump(out, open(sys.argv[2], "w"))
"""


def constructor_rejection(ctx, thorough):
    rng = ctx.rng
    cases = []

    def add(n, pairs, Rvals, where, product=False, m=0, sparse=False, ops=False, unsorted=False):
        L = len(pairs)
        Q = [[1.0 if j == (k % n) else 0.0 for j in range(n)] for k in range(L)]
        cases.append({"n": n, "s": [p[0] for p in pairs], "a": [p[1] for p in pairs], "R": Rvals, "Q": Q, "beta": rng.choice([0.0, 0.5, 0.95, 1.0]),
                      "product": product, "m": m, "sparse": sparse, "where": where, "ops": ops, "unsorted": unsorted,
                      "v": [float(rng.randrange(-8, 9)) for _ in range(n)]})

    # exhaustive small scope: every subset of states empty, n <= 4 (5 thorough), 1-2 actions for the non-empty ones, sorted and shuffled
    for n in range(1, (6 if thorough else 5)):
        for mask in range(0, 2 ** n):
            present = [s for s in range(n) if mask >> s & 1]
            if not present:
                continue                    # L = 0 is not a DiscreteDP input
            empty = [s for s in range(n) if s not in present]
            pairs = [(s, a) for s in present for a in range(rng.choice([1, 2, 3]))]
            where = "none" if not empty else "+".join(sorted({"first" if s == 0 else "last" if s == n - 1 else "middle" for s in empty}))
            Rv = [float(rng.randrange(-3, 4)) for _ in pairs]
            add(n, pairs, Rv, where, sparse=rng.random() < 0.3, ops=not empty)
            if len(pairs) >= 2:
                sh = list(pairs)
                for _ in range(6):
                    rng.shuffle(sh)
                    if sh != sorted(sh):
                        break
                if sh != sorted(sh):
                    add(n, sh, Rv, where, sparse=rng.random() < 0.3, ops=not empty, unsorted=True)
    # only -inf rewards in some state (sa-pair and product form), first / middle / last
    for n in range(1, 5):
        for bad_s in range(n):
            m = rng.choice([1, 2, 3])
            pairs = [(s, a) for s in range(n) for a in range(m)]
            Rv = [None if s == bad_s else float(rng.randrange(-3, 4)) for s, a in pairs]
            where = "neginf-" + ("first" if bad_s == 0 else "last" if bad_s == n - 1 else "middle")
            add(n, pairs, Rv, where)
            add(n, pairs, Rv, where, product=True, m=m)
            sh = list(pairs); rng.shuffle(sh)
            if sh != sorted(sh):
                add(n, sh, [None if s == bad_s else 1.0 for s, a in sh], where, unsorted=True)
            # admissible sibling: one finite reward in that state
            Rv2 = list(Rv); Rv2[pairs.index((bad_s, m - 1))] = 0.0
            add(n, pairs, Rv2, "none", ops=True)
            add(n, pairs, Rv2, "none", product=True, m=m, ops=True)

    with tempfile.TemporaryDirectory(dir=ctx.work) as td:
        inp, outp, script = os.path.join(td, "in.json"), os.path.join(td, "out.json"), os.path.join(td, "sub.py")
        json.dump(cases, open(inp, "w")); open(script, "w").write(SUB)
        env = dict(os.environ, NUMBA_BOUNDSCHECK="1", NUMBA_CACHE_DIR=os.environ.get("NUMBA_CACHE_DIR", os.path.join(VERIF, ".cache", "numba")).rstrip("/") + "_boundscheck",
                   PYTHONPATH=REPO)
        rc, out = common._run(["/venv/bin/python", script, inp, outp], env=env, timeout=600)
        if rc != 0 or not os.path.exists(outp):
            raise RuntimeError("bounds-checked subprocess failed: " + out[-2000:])
        res = json.load(open(outp))

    coq_cases, meta = [], []
    for c, r in zip(cases, res):
        n = c["n"]
        has = set(c["s"])
        empty = [s for s in range(n) if s not in has]
        only_inf = [s for s in range(n) if s in has and all(x is None for x, t in zip(c["R"], c["s"]) if t == s)]
        admissible = not empty and not only_inf
        inp = {"n": n, "s_indices": c["s"], "a_indices": c["a"], "R": c["R"], "product": c["product"], "sparse": c["sparse"],
               "where": c["where"], "unsorted_trailing_empty": bool(c["unsorted"] and empty and max(empty) == n - 1 and (n - 1) not in has
                                                                     and all(s in empty for s in range(max(has) + 1, n)) and max(has) < n - 1)}
        ctx.case(("ctor", n, tuple(c["s"]), tuple(c["a"]), tuple(c["R"]), c["product"], c["sparse"]), nontrivial=(n >= 2),
                 sample={"constructor": inp, "impl": r} if not admissible else None)
        ctx.count("ctor:%s:%s -> %s" % ("unsorted" if c["unsorted"] else "product" if c["product"] else "sorted", c["where"], r))
        expected = "OK" if admissible else "ValueError"
        if r != expected:
            if r == "IndexError" and inp["unsorted_trailing_empty"]:
                ctx.fail("constructor_unsorted_trailing_empty_indexerror",
                         "DiscreteDP with unsorted pairs and no pair for the trailing state(s) raises IndexError (a_indptr of the "
                         "shape-inferred coo matrix is indexed past its end) instead of ValueError", inp, r, expected)
            elif r == "IndexError":
                ctx.fail("constructor_out_of_bounds", "constructor read outside its arrays (IndexError under NUMBA_BOUNDSCHECK=1) instead of ValueError",
                         inp, r, expected)
            else:
                ctx.fail("constructor_rejection", "constructor outcome differs from the feasibility rule", inp, r, expected)
        if c["product"]:
            m = c["m"]
            term = "(mk_prod (T:=Q) %d %d [%s] [%s] %s)" % (
                n, m, "; ".join(ext_list(None if x is None else Fraction(x) for x in c["R"][s * m:(s + 1) * m]) for s in range(n)),
                "; ".join(qlist2([[Fraction(x) for x in q] for q in c["Q"][s * m:(s + 1) * m]]) for s in range(n)), qlit(Fraction(c["beta"])))
        else:
            term = "(mk_sa (T:=Q) %d %s %s %s %s %s)" % (
                n, natlist(c["s"]), natlist(c["a"]), ext_list(None if x is None else Fraction(x) for x in c["R"]),
                qlist2([[Fraction(x) for x in q] for q in c["Q"]]), qlit(Fraction(c["beta"])))
        code = {"OK": 0, "ValueError": 1, "IndexError": 2}.get(r, 9)
        coq_cases.append(tup(term, natlit(code)))
        meta.append(dict(inp, impl=r))
    bad = ctx.coq_check("constructor_outcome", IMPORTS, "cres (ddp Q) * nat",
                        "fun c => Nat.eqb (fst (cres_tag (fst c))) (snd c)", coq_cases, chunk=80, preamble=PREAMBLE)
    for i in bad:
        ctx.mismatch("C09.Model.mk_sa/mk_prod outcome (OK / ValueError / IndexError) vs DiscreteDP.__init__ under NUMBA_BOUNDSCHECK=1", meta[i], meta[i]["impl"])


def replay(data):
    """Re-run the first recorded failing input against the current implementation."""
    first = data.get("first") or (data.get("mismatches") or [{}])[0]
    print("replay:", json.dumps(first)[:3000])
    inp = first.get("input", {})
    from quantecon.markov import DiscreteDP
    if "s_indices" in inp and not inp.get("product"):
        n = inp["n"]; L = len(inp["s_indices"])
        R = np.array([(-np.inf if x is None else x) for x in inp["R"]], dtype=float)
        Q = np.zeros((L, n)); Q[np.arange(L), np.arange(L) % n] = 1
        try:
            DiscreteDP(R, Q, 0.5, np.array(inp["s_indices"]), np.array(inp["a_indices"]))
            print("constructor accepted the instance")
        except Exception as e:
            print("constructor raised %s: %s   (property: inadmissible instances must raise ValueError)" % (type(e).__name__, e))
    return 0

"""C03: communication / recurrent / cyclic classes and period match the graph definitions."""
import itertools, math
import numpy as np
from common import *

IMPORTS = "From QE Require Import C03.Model."
FINISH = dict(level="proof", technique_note=(
    "Coq theorems (coq/C03/Props.v) about the executable model coq/C03/Model.v (specification-level graph library + "
    "model of the repository logic around scipy.sparse.csgraph with SciPy's raw outputs as inputs); the model is "
    "evaluated with vm_compute on the same graphs as DiGraph/MarkovChain (exhaustive over all 0/1 patterns without "
    "empty row for n<=3, n=4 in the thorough tier, random up to n=12, planted families, renumberings; dense/CSR/"
    "weighted, with/without labels); independent Tarjan + boolean-matrix-power oracle on the implementation's output. "
    "non-trivial = distinct (pattern, form) with n>=2 and at least one off-diagonal edge"))


# ------------------------------------------------------------------ literals
def nl(a):
    a = [int(x) for x in a]
    return "[" + ";".join("%d" % x for x in a) + "]" if a else "(@nil nat)"


def nll(a):
    a = list(a)
    return "[" + ";".join(nl(r) for r in a) + "]" if a else "(@nil (list nat))"


def zl(a):
    a = [int(x) for x in a]
    return "[" + ";".join(zlit(x) for x in a) + "]%Z" if a else "(@nil Z)"


def onll(a):
    return "None" if a is None else "(Some %s)" % nll(a)


def auxl(aux):
    if not aux:
        return "(@nil bfs_aux)"
    return "[" + ";".join("(%s,%s,%s)" % (blit(sc), nl(o), zl(p)) for sc, o, p in aux) + "]"


# ------------------------------------------------------------------ independent oracle (plain Python)
def tarjan(n, adj):
    """strongly connected components (iterative Tarjan), as a set of frozensets"""
    index = [None] * n
    low = [0] * n
    on = [False] * n
    st = []
    out = []
    cnt = [0]
    for root in range(n):
        if index[root] is not None:
            continue
        work = [(root, 0)]
        while work:
            v, i = work.pop()
            if i == 0:
                index[v] = low[v] = cnt[0]
                cnt[0] += 1
                st.append(v)
                on[v] = True
            rec = False
            for j in range(i, len(adj[v])):
                w = adj[v][j]
                if index[w] is None:
                    work.append((v, j + 1))
                    work.append((w, 0))
                    rec = True
                    break
                elif on[w]:
                    low[v] = min(low[v], index[w])
            if rec:
                continue
            if low[v] == index[v]:
                comp = []
                while True:
                    w = st.pop()
                    on[w] = False
                    comp.append(w)
                    if w == v:
                        break
                out.append(frozenset(comp))
            if work:
                u = work[-1][0]
                low[u] = min(low[u], low[v])
    return set(out)


def period_by_powers(nodes, adj):
    """gcd of the lengths k <= |nodes| of closed walks inside `nodes` (boolean matrix powers); 0 if none"""
    nodes = sorted(nodes)
    pos = {v: i for i, v in enumerate(nodes)}
    m = len(nodes)
    A = [[False] * m for _ in range(m)]
    for v in nodes:
        for w in adj[v]:
            if w in pos:
                A[pos[v]][pos[w]] = True
    d = 0
    M = [row[:] for row in A]
    for k in range(1, m + 1):
        if any(M[i][i] for i in range(m)):
            d = math.gcd(d, k)
        if k < m:
            M = [[any(M[i][l] and A[l][j] for l in range(m)) for j in range(m)] for i in range(m)]
    return d


def oracle(n, adj):
    comps = tarjan(n, adj)
    sinks = set(c for c in comps if all(w in c for v in c for w in adj[v]))
    return comps, sinks


# ------------------------------------------------------------------ running the implementation
def raw_scipy(g):
    """SciPy's raw outputs as the DiGraph instance sees them"""
    from scipy.sparse import csgraph
    num, proj = int(g.num_strongly_connected_components), [int(x) for x in g.scc_proj]
    order, pred = [], []
    if num == 1 and g.n > 1:
        o, p = csgraph.breadth_first_order(g.csgraph, i_start=0)
        order, pred = [int(x) for x in o], [int(x) for x in p]
    return num, proj, order, pred


def tolists(cs):
    return [[int(x) for x in c] for c in cs]


def digraph_outputs(g):
    out = {}
    out["scc"] = tolists(g.strongly_connected_components_indices)
    out["sink"] = tolists(g.sink_strongly_connected_components_indices)
    out["num_scc"] = int(g.num_strongly_connected_components)
    out["num_sink"] = int(g.num_sink_strongly_connected_components)
    out["is_sc"] = bool(g.is_strongly_connected)
    try:
        out["period"] = int(g.period)
        out["aper"] = bool(g.is_aperiodic)
        out["cyclic"] = tolists(g.cyclic_components_indices)
    except NotImplementedError:
        out["period"], out["aper"], out["cyclic"] = -1, None, None
    if g.node_labels is not None:
        out["scc_lab"] = [c.tolist() for c in g.strongly_connected_components]
        out["sink_lab"] = [c.tolist() for c in g.sink_strongly_connected_components]
        out["cyclic_lab"] = [c.tolist() for c in g.cyclic_components] if out["cyclic"] is not None else None
    return out


def mc_outputs(mc):
    out = {}
    out["scc"] = tolists(mc.communication_classes_indices)
    out["sink"] = tolists(mc.recurrent_classes_indices)
    out["num_scc"] = int(mc.num_communication_classes)
    out["num_sink"] = int(mc.num_recurrent_classes)
    out["is_sc"] = bool(mc.is_irreducible)
    out["mc_period"] = int(mc.period)
    out["mc_aper"] = bool(mc.is_aperiodic)
    try:
        out["cyclic"] = tolists(mc.cyclic_classes_indices)
    except NotImplementedError:
        out["cyclic"] = None
    if mc.state_values is not None:
        out["scc_lab"] = [c.tolist() for c in mc.communication_classes]
        out["sink_lab"] = [c.tolist() for c in mc.recurrent_classes]
        try:
            out["cyclic_lab"] = [c.tolist() for c in mc.cyclic_classes]
        except NotImplementedError:
            out["cyclic_lab"] = None
    return out


FORMS = ["dg_dense", "dg_csr_lab", "dg_weighted", "dg_weighted_csr_lab", "mc_dense", "mc_csr_lab", "mc_dense_lab"]


def build(form, n, adj, rng):
    """construct the object of the given form for the pattern `adj` (list of rows of column indices)"""
    from scipy import sparse
    from quantecon import DiGraph, MarkovChain
    A = np.zeros((n, n), dtype=int)
    for u in range(n):
        for v in adj[u]:
            A[u, v] = 1
    labels = None
    if form.endswith("_lab"):
        labels = [100 + 7 * x for x in rng.sample(range(n + 5), n)]
    if form.startswith("dg"):
        if "weighted" in form:
            W = A * np.array([[rng.choice([0.25, 0.5, 1.0, 2.0, 3.5, 1e-12, 7.0]) for _ in range(n)] for _ in range(n)])
            M = sparse.csr_matrix(W) if "csr" in form else W
            g = DiGraph(M, weighted=True, node_labels=labels)
        else:
            M = sparse.csr_matrix(A) if "csr" in form else (A.astype(bool) if rng.random() < 0.5 else A)
            g = DiGraph(M, node_labels=labels)
        return g, None, labels
    # MarkovChain: random positive weights on the pattern, rows normalised (dyadic where possible)
    W = A * np.array([[rng.choice([1.0, 1.0, 2.0, 3.0, 1e-9]) for _ in range(n)] for _ in range(n)])
    P = W / W.sum(axis=1, keepdims=True)
    M = sparse.csr_matrix(P) if "csr" in form else P
    mc = MarkovChain(M, state_values=labels)
    return mc.digraph, mc, labels


def run_pattern(ctx, n, adj, forms, cases, meta, seen, origin):
    """run the implementation on one pattern in the given forms; oracle checks in Python; queue the Coq case"""
    has_empty = any(len(r) == 0 for r in adj)
    comps, sinks = oracle(n, adj)
    one = len(comps) == 1
    per_exp = None
    if one:
        per_exp = period_by_powers(range(n), adj) or 1      # single node without loop: documented period 1
    mc_per_exp = 1
    for c in sinks:
        p = period_by_powers(c, adj) or 1
        mc_per_exp = mc_per_exp * p // math.gcd(mc_per_exp, p)
    for form in forms:
        if form.startswith("mc") and has_empty:
            continue
        inp = {"n": n, "adj": adj, "form": form, "origin": origin}
        try:
            g, mc, labels = build(form, n, adj, ctx.rng)
            o = digraph_outputs(g)
            om = mc_outputs(mc) if mc is not None else None
        except Exception as ex:
            ctx.fail("exception", "DiGraph/MarkovChain raised on a valid pattern", inp, repr(ex), None)
            continue
        nontriv = n >= 2 and any(v != u for u in range(n) for v in adj[u])
        ctx.case((n, tuple(map(tuple, adj)), form), nontrivial=nontriv,
                 sample={"form": form, "adj": adj, "scc": o["scc"], "sink": o["sink"], "period": o["period"],
                         "mc_period": om["mc_period"] if om else None})
        # ---------------- independent oracle on the implementation's output
        got = set(frozenset(c) for c in o["scc"])
        if got != comps or sum(len(c) for c in o["scc"]) != n:
            ctx.fail("scc", "classes are not the strongly connected components", inp, o["scc"], sorted(map(sorted, comps)))
        gots = set(frozenset(c) for c in o["sink"])
        if gots != sinks or len(o["sink"]) != len(sinks):
            ctx.fail("sink", "recurrent classes are not the components without leaving edge", inp, o["sink"], sorted(map(sorted, sinks)))
        if o["num_scc"] != len(comps) or o["num_sink"] != len(sinks) or o["is_sc"] != one:
            ctx.fail("counts", "class counts / is_strongly_connected inconsistent", inp, [o["num_scc"], o["num_sink"], o["is_sc"]], [len(comps), len(sinks), one])
        if one:
            if o["period"] != per_exp or o["aper"] != (per_exp == 1):
                ctx.fail("period", "period is not the gcd of cycle lengths", inp, [o["period"], o["aper"]], per_exp)
            cyc = o["cyclic"]
            d = per_exp
            ok = cyc is not None and len(cyc) == d and sorted(x for c in cyc for x in c) == list(range(n)) and all(len(c) for c in cyc)
            if ok:
                cls = {}
                for k, c in enumerate(cyc):
                    for x in c:
                        cls[x] = k
                ok = all(cls[v] == (cls[u] + 1) % d for u in range(n) for v in adj[u])
            if not ok:
                ctx.fail("cyclic", "cyclic classes do not partition the nodes with every edge k -> k+1 mod d", inp, cyc, d)
        else:
            if o["period"] != -1 or o["cyclic"] is not None:
                ctx.fail("period_reducible", "DiGraph.period defined for a non strongly connected graph", inp, o["period"], -1)
        if labels is not None:
            lab = np.array(labels)
            exp_lab = [lab[c].tolist() for c in o["scc"]], [lab[c].tolist() for c in o["sink"]], ([lab[c].tolist() for c in o["cyclic"]] if o["cyclic"] is not None else None)
            src = om if om is not None else o
            if (src["scc_lab"], src["sink_lab"], src["cyclic_lab"]) != exp_lab:
                ctx.fail("labels", "labelled variants are not labels[indices]", inp, [src["scc_lab"], src["sink_lab"], src["cyclic_lab"]], exp_lab)
        if om is not None:
            for key in ("scc", "sink", "num_scc", "num_sink", "is_sc"):
                if om[key] != o[key]:
                    ctx.fail("mc_vs_digraph", "MarkovChain.%s differs from its digraph" % key, inp, om[key], o[key])
            if om["mc_period"] != mc_per_exp or om["mc_aper"] != (mc_per_exp == 1):
                ctx.fail("mc_period", "MarkovChain.period is not the lcm over recurrent classes of the gcd of cycle lengths", inp,
                         [om["mc_period"], om["mc_aper"]], mc_per_exp)
            if om["cyclic"] != o["cyclic"]:
                ctx.fail("mc_cyclic", "MarkovChain.cyclic_classes_indices differs from digraph / defined for reducible chain", inp, om["cyclic"], o["cyclic"])
        # ---------------- Coq case (model on SciPy's raw outputs + specification-level model)
        num, proj, order, pred = raw_scipy(g)
        aux = []
        if om is not None and num != 1:
            for c in o["sink"]:
                sg = g.subgraph(c)
                snum, _, so, sp = raw_scipy(sg)
                aux.append((snum == 1, so, sp))
        s = ("{| g_n := %d; g_adj := %s; s_num := %d; s_proj := %s; s_order := %s; s_pred := %s; s_aux := %s; "
             "i_scc := %s; i_sink := %s; i_period := %s; i_cyclic := %s; i_mc_period := %s; i_aper := %s; i_mc_aper := %s |}"
             % (n, nll(adj), num, nl(proj), nl(order), zl(pred), auxl(aux), nll(o["scc"]), nll(o["sink"]),
                zlit(o["period"]) + "%Z", onll(o["cyclic"]), zlit(om["mc_period"] if om else -3) + "%Z",
                zlit(-1 if o["aper"] is None else int(o["aper"])) + "%Z", zlit(int(om["mc_aper"]) if om else -3) + "%Z"))
        ctx.count("form:" + form)
        if s not in seen:
            seen[s] = len(cases)
            cases.append(s)
            meta.append(inp)
    ctx.count("n:%d" % n)
    ctx.count("classes:%d" % min(len(comps), 5))
    ctx.count("recurrent:%d" % min(len(sinks), 4))
    if one:
        ctx.count("period:%d" % per_exp)
    else:
        ctx.count("mc_period:%d" % mc_per_exp)


# ------------------------------------------------------------------ generators
def all_patterns(n, allow_empty=False):
    rows = [[j for j in range(n) if (mask >> j) & 1] for mask in range(0 if allow_empty else 1, 2 ** n)]
    for combo in itertools.product(rows, repeat=n):
        yield [list(r) for r in combo]


def renumber(adj, perm):
    n = len(adj)
    out = [[] for _ in range(n)]
    for u in range(n):
        out[perm[u]] = sorted(perm[v] for v in adj[u])
    return out


def cyc_block(base, length, rng, chords=0, d=None):
    """nodes base..base+length-1 forming a strongly connected block of period d | length (d=None: the plain cycle)"""
    E = set((base + i, base + (i + 1) % length) for i in range(length))
    if d:
        for _ in range(chords):
            i = rng.randrange(length)
            j = (i + 1 + d * rng.randrange(0, max(1, length // d))) % length
            E.add((base + i, base + j))
    return E


def planted(rng, kind):
    """returns (n, adj)"""
    E = set()
    if kind == "transient_two_recurrent":
        a, b, t = rng.choice([1, 2, 3]), rng.choice([1, 2, 3, 4]), rng.choice([1, 2, 3])
        E |= cyc_block(0, t, rng) if t > 1 else {(0, 0)} if rng.random() < 0.5 else set()
        E |= cyc_block(t, a, rng)
        E |= cyc_block(t + a, b, rng)
        n = t + a + b
        E.add((rng.randrange(t), t + rng.randrange(a)))
        E.add((rng.randrange(t), t + a + rng.randrange(b)))
        for u in range(t):
            if not any(x == u for x, _ in E):
                E.add((u, t))
    elif kind == "selfloop_in_cycle":
        L = rng.randrange(2, 8)
        E |= cyc_block(0, L, rng)
        E.add((rng.randrange(L),) * 2)
        n = L
    elif kind == "periodic":
        d = rng.choice([2, 3, 5, 2, 3, 4, 6])
        m = rng.randrange(1, 4)
        L = d * m
        while L > 12:
            m -= 1
            L = d * m
        E |= cyc_block(0, L, rng, chords=rng.randrange(0, 4), d=d)
        n = L
    elif kind == "products":
        lens = rng.choice([[2, 3], [2, 5], [3, 5], [2, 3, 5], [4, 6], [2, 2], [3, 3, 2], [1, 2], [1, 5]])
        t = rng.randrange(0, 3)
        base = t
        for L in lens:
            E |= cyc_block(base, L, rng)
            base += L
        n = base
        starts = []
        b = t
        for L in lens:
            starts.append(b)
            b += L
        for u in range(t):
            E.add((u, rng.choice(starts) + 0))
            if rng.random() < 0.5:
                E.add((u, rng.randrange(t)))
    elif kind == "bipartite_like":
        # d-partite strongly connected graph with dense edges between consecutive parts
        d = rng.choice([2, 3, 4])
        parts = [rng.randrange(1, 4) for _ in range(d)]
        while sum(parts) > 12:
            parts[parts.index(max(parts))] -= 1
        offs = [sum(parts[:i]) for i in range(d)]
        n = sum(parts)
        for k in range(d):
            k2 = (k + 1) % d
            for i in range(parts[k]):
                tg = [offs[k2] + j for j in range(parts[k2]) if rng.random() < 0.6] or [offs[k2] + rng.randrange(parts[k2])]
                for v in tg:
                    E.add((offs[k] + i, v))
            for j in range(parts[k2]):      # every node gets an incoming edge
                if not any(v == offs[k2] + j for _, v in E):
                    E.add((offs[k] + rng.randrange(parts[k]), offs[k2] + j))
    else:
        raise ValueError(kind)
    adj = [sorted(v for (u, v) in E if u == w) for w in range(n)]
    for u in range(n):
        if not adj[u]:
            adj[u] = [u]
    return n, adj


def random_pattern(rng, n, allow_empty=False):
    p = rng.choice([0.08, 0.15, 0.25, 0.4, 0.7])
    adj = []
    for u in range(n):
        r = [v for v in range(n) if rng.random() < p]
        if not r and not allow_empty:
            r = [rng.randrange(n)]
        adj.append(r)
    return adj


def run(ctx):
    thorough = ctx.tier == "thorough"
    ctx.proofs()
    rng = ctx.rng
    cases, meta, seen = [], [], {}
    # 1. exhaustive small scope: every 0/1 pattern without empty row
    for n in (1, 2, 3):
        for adj in all_patterns(n):
            run_pattern(ctx, n, adj, FORMS, cases, meta, seen, "exhaustive")
    if thorough:
        for i, adj in enumerate(all_patterns(4)):
            forms = ["mc_dense", FORMS[i % 4], ["mc_csr_lab", "mc_dense_lab"][i % 2]] if i % 16 else FORMS
            run_pattern(ctx, 4, adj, forms, cases, meta, seen, "exhaustive")
    # DiGraph also accepts empty rows: exhaustive n<=2 (n<=3 thorough)
    for n in ((1, 2, 3) if thorough else (1, 2)):
        for adj in all_patterns(n, allow_empty=True):
            if any(not r for r in adj):
                run_pattern(ctx, n, adj, FORMS[:4], cases, meta, seen, "exhaustive_empty_rows")
    # 2. random patterns up to n = 12
    for _ in range(1500 if thorough else 170):
        n = rng.randrange(4, 13)
        adj = random_pattern(rng, n)
        run_pattern(ctx, n, adj, rng.sample(FORMS, 3), cases, meta, seen, "random")
    for _ in range(200 if thorough else 25):
        n = rng.randrange(3, 10)
        run_pattern(ctx, n, random_pattern(rng, n, allow_empty=True), rng.sample(FORMS[:4], 2), cases, meta, seen, "random_empty_rows")
    # 3. planted families + random renumberings of each
    kinds = ["transient_two_recurrent", "selfloop_in_cycle", "periodic", "products", "bipartite_like"]
    for _ in range(120 if thorough else 22):
        for kind in kinds:
            n, adj = planted(rng, kind)
            run_pattern(ctx, n, adj, rng.sample(FORMS, 2) + ["mc_dense"], cases, meta, seen, kind)
            for _r in range(2):
                perm = list(range(n))
                rng.shuffle(perm)
                run_pattern(ctx, n, renumber(adj, perm), rng.sample(FORMS, 2), cases, meta, seen, kind + "+renumbered")
    # 4. sparse input with stored zeros represents the same pattern (separate stream)
    explicit_zero_stream(ctx)
    weighted_zero_stream(ctx)
    # 5. hardening audit: dress/dtype, state and call order, aliasing, optional arguments, boundaries, exceptions
    harden_stream(ctx, cases, meta, seen)
    # ---------------- Coq: repository-logic model on SciPy's outputs, validity of those outputs, spec-level model
    ctx.count("coq_distinct_cases", len(cases))
    bad = ctx.coq_check("check_case", IMPORTS, "gcase", "check_case", cases, chunk=400 if thorough else 150,
                        preamble="Open Scope nat_scope.")
    for i in bad[:4]:
        parts = {}
        for nm in ("check_repo", "check_valid", "check_spec"):
            parts[nm] = ctx.coq_eval(IMPORTS, "%s %s" % (nm, cases[i]), preamble="Open Scope nat_scope.")[-40:]
        ctx.mismatch("C03.Model.check_case (repo logic on SciPy outputs / validity / spec-level model) vs DiGraph+MarkovChain",
                     meta[i], None, parts)


KEYS = ("scc", "sink", "num_scc", "num_sink", "is_sc", "period", "aper", "cyclic")


def interleaved_pattern(rng):
    """two recurrent classes with interleaved numbering (evens / odds), a transient class with >= 2 states"""
    m = rng.randrange(2, 4)
    A, B = [2 * i for i in range(m)], [2 * i + 1 for i in range(m)]
    t = rng.randrange(2, 4)
    T = list(range(2 * m, 2 * m + t))
    n = 2 * m + t
    adj = [[] for _ in range(n)]
    for cl in (A, B, T):
        for a, u in enumerate(cl):
            adj[u].append(cl[(a + 1) % len(cl)])
    adj[T[0]].append(rng.choice(A))
    adj[T[-1]].append(rng.choice(B))
    if rng.random() < 0.5:
        adj[rng.choice(A)].append(rng.choice(A))
    return n, [sorted(set(r)) for r in adj]


def harden_stream(ctx, cases, meta, seen):
    from scipy import sparse
    from quantecon import DiGraph, MarkovChain
    rng = ctx.rng

    def guarded(inp, f):
        try:
            return f()
        except Exception as ex:      # class 6: an exception on a valid input is an oracle failure
            ctx.fail("exception", "exception on a valid input: " + repr(ex)[:200], inp, repr(ex), None)
            return None

    def dense(n, adj, dtype=int):
        A = np.zeros((n, n), dtype=dtype)
        for u in range(n):
            for v in adj[u]:
                A[u, v] = 1
        return A

    def sub(o):
        return {k: o[k] for k in KEYS}

    pats = []
    for _ in range(6):
        pats.append(interleaved_pattern(rng))
    for kind in ("transient_two_recurrent", "periodic", "products", "bipartite_like", "selfloop_in_cycle"):
        pats.append(planted(rng, kind))
    for _ in range(6):
        n = rng.randrange(2, 9)
        pats.append((n, random_pattern(rng, n)))
    pats.append((1, [[0]]))
    objs = []
    for n, adj in pats:
        # the reference object is checked by the oracle and by the Coq model
        run_pattern(ctx, n, adj, ["dg_dense", "mc_dense"], cases, meta, seen, "harden_reference")
        A = dense(n, adj)
        inp0 = {"n": n, "adj": adj, "origin": "harden"}
        ref = guarded(inp0, lambda: sub(digraph_outputs(DiGraph(A))))
        if ref is None:
            continue
        # ---- class 1: dress / dtype / layout / sparse format; class 4: optional arguments given explicitly
        big = np.zeros((2 * n, 2 * n), dtype=int)
        big[::2, ::2] = A
        dresses = {"list": A.tolist(), "int32": A.astype(np.int32), "uint8": A.astype(np.uint8), "bool": A.astype(bool),
                   "float32": A.astype(np.float32), "float64": A.astype(float), "F_order": np.asfortranarray(A),
                   "noncontiguous_view": big[::2, ::2], "np.matrix_like_2d_list_of_arrays": [r for r in A]}
        for fmt in ("csr", "csc", "coo", "lil"):
            dresses["sparse:" + fmt] = getattr(sparse, fmt + "_matrix")(A)
            dresses["sparse:" + fmt + ":float32"] = getattr(sparse, fmt + "_matrix")(A.astype(np.float32))
        for name, M in dresses.items():
            snap = M.copy() if hasattr(M, "copy") and not isinstance(M, list) else [list(map(int, r)) for r in M]
            kw = rng.choice([{}, {"weighted": False, "node_labels": None}, {"weighted": False}, {"node_labels": None}])
            wflag = rng.choice([False, True]) if ("float" in name or name.startswith("sparse")) else False
            if wflag:
                kw = dict(kw, weighted=True)
            o = guarded(dict(inp0, dress=name, kwargs=str(kw)), lambda: sub(digraph_outputs(DiGraph(M, **kw))))
            ctx.count("dress:" + name.split(":float32")[0])
            ctx.count("optional:" + ("explicit_defaults" if kw else "omitted"))
            ctx.case(("harden_dress", n, tuple(map(tuple, adj)), name, str(sorted(kw))), nontrivial=n >= 2)
            if o is not None and o != ref:
                ctx.fail("dress", "result depends on the container/dtype/format of the adjacency matrix", dict(inp0, dress=name, kwargs=str(kw)), o, ref)
            same = (abs(M - snap).nnz == 0 and M.nnz == snap.nnz and M.dtype == snap.dtype) if sparse.issparse(M) else \
                   (np.array_equal(np.asarray(M), np.asarray(snap)))
            if not same:
                ctx.fail("argument_modified", "adjacency argument modified", dict(inp0, dress=name), None, None)
        # MarkovChain with P given as nested lists / tuples / float32 / bool / every sparse format
        if all(adj):
            W = A / A.sum(axis=1, keepdims=True)
            onehot = all(len(r) == 1 for r in adj)
            mdress = {"list": W.tolist(), "tuple": tuple(map(tuple, W.tolist())), "F_order": np.asfortranarray(W),
                      "rows_of_larger_array": np.vstack([W, W])[:n]}
            if all(len(r) in (1, 2, 4, 8) for r in adj):
                mdress["float32"] = W.astype(np.float32)
            if onehot:
                mdress["bool"] = A.astype(bool)
                mdress["int32"] = A.astype(np.int32)
            for fmt in ("csr", "csc", "coo", "lil"):
                mdress["sparse:" + fmt] = getattr(sparse, fmt + "_matrix")(W)
            mref = guarded(inp0, lambda: mc_outputs(MarkovChain(W)))
            for name, M in mdress.items():
                kw = rng.choice([{}, {"state_values": None}])
                o = guarded(dict(inp0, dress="mc:" + name), lambda: mc_outputs(MarkovChain(M, **kw)))
                ctx.count("dress:mc:" + name)
                ctx.case(("harden_mc_dress", n, tuple(map(tuple, adj)), name), nontrivial=n >= 2)
                if o is not None and mref is not None and o != mref:
                    ctx.fail("dress", "MarkovChain result depends on the container/dtype/format of P", dict(inp0, dress="mc:" + name), o, mref)
        # ---- labels in several dresses
        labs = rng.sample(range(100, 200), n)
        for lname, L in (("list", labs), ("tuple", tuple(labs)), ("int32", np.array(labs, dtype=np.int32)),
                         ("float64", np.array(labs, dtype=float)), ("str", np.array(["s%d" % x for x in labs]))):
            g = guarded(dict(inp0, labels=lname), lambda: DiGraph(A, node_labels=L))
            ctx.count("dress:labels:" + lname)
            if g is None:
                continue
            arr = np.asarray(L)
            got = guarded(dict(inp0, labels=lname), lambda: [c.tolist() for c in g.strongly_connected_components])
            if got is not None and got != [arr[c].tolist() for c in ref["scc"]]:
                ctx.fail("labels", "labelled components are not labels[indices]", dict(inp0, labels=lname), got, None)
        objs.append((n, adj, A, ref))
    # ---- class 2: several objects alive at once, lazy attributes read in random order, repeatedly
    attrs = {"scc": lambda g: tolists(g.strongly_connected_components_indices),
             "sink": lambda g: tolists(g.sink_strongly_connected_components_indices),
             "num_scc": lambda g: int(g.num_strongly_connected_components),
             "num_sink": lambda g: int(g.num_sink_strongly_connected_components),
             "is_sc": lambda g: bool(g.is_strongly_connected)}
    def per(g):
        try:
            return int(g.period)
        except NotImplementedError:
            return -1
    def cyc(g):
        try:
            return tolists(g.cyclic_components_indices)
        except NotImplementedError:
            return None
    attrs["period"] = per
    attrs["cyclic"] = cyc
    live = [(n, adj, DiGraph(A), ref) for (n, adj, A, ref) in objs]
    reads = [(i, a) for i in range(len(live)) for a in attrs] * 2
    rng.shuffle(reads)
    for i, a in reads:
        n, adj, g, ref = live[i]
        inp = {"n": n, "adj": adj, "seq": "interleaved_reads", "attr": a}
        v = guarded(inp, lambda: attrs[a](g))
        ctx.count("seq:interleaved_read")
        if v != ref[a] and not (v is None and ref[a] is None):
            ctx.fail("state", "attribute differs when objects are reused / read in another order", inp, v, ref[a])
        # class 3: the returned arrays are not views of internal state: scribbling on them changes nothing
        if a in ("scc", "sink", "cyclic") and v:
            raw = {"scc": lambda: g.strongly_connected_components_indices, "sink": lambda: g.sink_strongly_connected_components_indices,
                   "cyclic": lambda: g.cyclic_components_indices}[a]()
            for c in raw:
                c[...] = -7
            v2 = attrs[a](g)
            ctx.count("alias:scribble_on_result")
            if v2 != ref[a]:
                ctx.fail("alias", "result of a previous call aliases internal state", dict(inp, seq="scribble"), v2, ref[a])
    # MarkovChain: period before classes, cyclic before anything, labelled after unlabelled, several alive at once
    mcs = []
    for (n, adj, A, ref) in objs:
        if all(adj):
            W = A / A.sum(axis=1, keepdims=True)
            mcs.append((n, adj, W, MarkovChain(W), mc_outputs(MarkovChain(W))))
    mattrs = {"mc_period": lambda m: int(m.period), "mc_aper": lambda m: bool(m.is_aperiodic),
              "scc": lambda m: tolists(m.communication_classes_indices), "sink": lambda m: tolists(m.recurrent_classes_indices),
              "is_sc": lambda m: bool(m.is_irreducible), "num_scc": lambda m: int(m.num_communication_classes),
              "num_sink": lambda m: int(m.num_recurrent_classes)}
    def mcyc(m):
        try:
            return tolists(m.cyclic_classes_indices)
        except NotImplementedError:
            return None
    mattrs["cyclic"] = mcyc
    reads = [(i, a) for i in range(len(mcs)) for a in mattrs] * 2
    rng.shuffle(reads)
    for i, a in reads:
        n, adj, W, m, mref = mcs[i]
        inp = {"n": n, "adj": adj, "seq": "mc_interleaved_reads", "attr": a}
        if rng.random() < 0.15:
            guarded(inp, lambda: m.simulate(5, random_state=1))
            guarded(inp, lambda: m.stationary_distributions)
            ctx.count("seq:simulate_between_reads")
        v = guarded(inp, lambda: mattrs[a](m))
        ctx.count("seq:mc_interleaved_read")
        if v != mref[a] and not (v is None and mref[a] is None):
            ctx.fail("state", "MarkovChain attribute differs when the object is reused / read in another order", inp, v, mref[a])
    # ---- class 2: attribute re-assignment: node_labels / state_values set after the lazy attributes exist
    for (n, adj, A, ref) in objs[:8]:
        l1, l2 = rng.sample(range(100, 200), n), rng.sample(range(300, 400), n)
        g = DiGraph(A, node_labels=l1)
        _ = g.strongly_connected_components, g.sink_strongly_connected_components
        g.node_labels = l2
        ctx.count("seq:reassign_node_labels")
        got = [c.tolist() for c in g.strongly_connected_components], [c.tolist() for c in g.sink_strongly_connected_components]
        fresh = DiGraph(A, node_labels=l2)
        exp = [c.tolist() for c in fresh.strongly_connected_components], [c.tolist() for c in fresh.sink_strongly_connected_components]
        if got != exp:
            ctx.fail("stale_node_labels", "labelled components ignore re-assigned node_labels", {"n": n, "adj": adj, "seq": "reassign_node_labels"}, got, exp)
        g.node_labels = None
        if tolists(g.strongly_connected_components) != ref["scc"]:
            ctx.fail("stale_node_labels", "node_labels=None not honoured after re-assignment", {"n": n, "adj": adj, "seq": "reassign_node_labels"}, None, None)
        if all(adj):
            W = A / A.sum(axis=1, keepdims=True)
            m = MarkovChain(W, state_values=l1)
            _ = m.communication_classes, m.recurrent_classes
            m.state_values = l2
            ctx.count("seq:reassign_state_values")
            fresh = MarkovChain(W, state_values=l2)
            got = [c.tolist() for c in m.communication_classes], [c.tolist() for c in m.recurrent_classes]
            exp = [c.tolist() for c in fresh.communication_classes], [c.tolist() for c in fresh.recurrent_classes]
            if got != exp:
                ctx.fail("stale_state_values", "labelled classes keep the old state_values after re-assignment",
                         {"n": n, "adj": adj, "seq": "reassign_state_values"}, got, exp)
    # ---- state_values sequences with the digraph built BEFORE each set: None -> labels -> other labels -> None -> labels;
    #      labelled variants must be the *_indices mapped through the CURRENT state_values (identity when None)
    for (n, adj, A, ref) in objs:
        if not all(adj):
            continue
        W = A / A.sum(axis=1, keepdims=True)
        l1, l2, l3 = rng.sample(range(100, 200), n), rng.sample(range(300, 400), n), ["s%d" % x for x in rng.sample(range(50), n)]
        seqs = rng.choice([[None, l1, l2, None, l3], [l1, None, l2, l3, None], [l2, l1, None, None, l3]])
        for builder in (lambda P_: P_, lambda P_: sparse.csr_matrix(P_)):
            m = guarded({"n": n, "adj": adj, "seq": "state_values_sequence"}, lambda: MarkovChain(builder(W), state_values=seqs[0]))
            if m is None:
                continue
            cur = seqs[0]
            for step, nxt in enumerate(seqs[1:] + [None]):
                inp = {"n": n, "adj": adj, "seq": "state_values_sequence", "values": [str(v)[:40] for v in seqs], "step": step}
                def labelled():
                    out = {"communication": ([np.asarray(c).tolist() for c in m.communication_classes], tolists(m.communication_classes_indices)),
                           "recurrent": ([np.asarray(c).tolist() for c in m.recurrent_classes], tolists(m.recurrent_classes_indices))}
                    if m.is_irreducible:
                        out["cyclic"] = ([np.asarray(c).tolist() for c in m.cyclic_classes], tolists(m.cyclic_classes_indices))
                    return out
                got = guarded(inp, labelled)      # this also (re)builds the digraph before the next set
                ctx.count("seq:state_values:" + ("None" if cur is None else "labels"))
                if got is not None:
                    lab = None if cur is None else np.asarray(cur)
                    for key, (lv, iv) in got.items():
                        exp = iv if lab is None else [lab[c].tolist() for c in iv]
                        if lv != exp:
                            ctx.fail("stale_state_values", "labelled %s classes are not the indices mapped through the current state_values" % key,
                                     inp, lv, exp)
                    cs, ss = oracle(n, adj)
                    if set(frozenset(c) for c in got["communication"][1]) != cs or set(frozenset(c) for c in got["recurrent"][1]) != ss:
                        ctx.fail("scc", "classes changed by re-assigning state_values", inp, got["communication"][1], None)
                guarded(inp, lambda: setattr(m, "state_values", nxt))
                cur = nxt
    # ---- class 5/6: documented errors are raised as ValueError
    bad_calls = {"digraph_nonsquare": lambda: DiGraph(np.ones((2, 3))),
                 "digraph_labels_length": lambda: DiGraph(np.eye(3), node_labels=[1, 2]),
                 "mc_nonsquare": lambda: MarkovChain(np.ones((2, 3)) / 3),
                 "mc_negative": lambda: MarkovChain(np.array([[1.5, -0.5], [0.5, 0.5]])),
                 "mc_rowsum": lambda: MarkovChain(np.array([[0.5, 0.4], [0.5, 0.5]])),
                 "mc_state_values_length": lambda: MarkovChain(np.eye(2), state_values=[1, 2, 3])}
    for name, f in bad_calls.items():
        ctx.count("error:" + name)
        try:
            f()
            ctx.fail("missing_error", "documented ValueError not raised", {"call": name}, None, "ValueError")
        except ValueError:
            pass
        except Exception as ex:
            ctx.fail("missing_error", "wrong exception type", {"call": name}, repr(ex), "ValueError")


def explicit_zero_stream(ctx):
    """CSR matrices with stored zeros describe the same positive-entry graph; the classes must not change."""
    from scipy import sparse
    from quantecon import MarkovChain
    rng = ctx.rng
    fixed = [(2, [[0], [1]], [(0, 1)]), (2, [[1], [1]], [(0, 0), (1, 0)]), (3, [[1], [2], [2]], [(2, 0)])]
    for t in range(12):
        if t < len(fixed):
            n, adj, zeros = fixed[t]
        else:
            n = rng.randrange(2, 6)
            adj = random_pattern(rng, n)
            zeros = [(u, v) for u in range(n) for v in range(n) if v not in adj[u] and rng.random() < 0.4]
        data, ind, ptr = [], [], [0]
        for u in range(n):
            for v in range(n):
                if v in adj[u]:
                    data.append(1.0 / len(adj[u])); ind.append(v)
                elif (u, v) in zeros:
                    data.append(0.0); ind.append(v)
            ptr.append(len(ind))
        P = sparse.csr_matrix((np.array(data), np.array(ind), np.array(ptr)), shape=(n, n))
        inp = {"n": n, "adj": adj, "stored_zeros": zeros, "form": "csr_explicit_zeros"}
        comps, sinks = oracle(n, adj)
        snap = (P.nnz, P.data.copy(), P.indices.copy(), P.indptr.copy())
        try:
            mc = MarkovChain(P)
            got = set(frozenset(int(x) for x in c) for c in mc.communication_classes_indices)
            gots = set(frozenset(int(x) for x in c) for c in mc.recurrent_classes_indices)
        except Exception as ex:
            ctx.fail("explicit_zero_edge", "exception on CSR input with stored zeros", inp, repr(ex), None)
            continue
        if not (P.nnz == snap[0] and np.array_equal(P.data, snap[1]) and np.array_equal(P.indices, snap[2])
                and np.array_equal(P.indptr, snap[3])):
            ctx.fail("argument_modified", "the caller's sparse matrix was modified", inp, [P.nnz], [snap[0]])
        ctx.case(("explicit_zeros", n, tuple(map(tuple, adj)), tuple(zeros)), nontrivial=bool(zeros))
        ctx.count("form:csr_explicit_zeros")
        if got != comps or gots != sinks:
            ctx.fail("explicit_zero_edge", "stored zero entries of a sparse matrix are treated as edges", inp,
                     [sorted(map(sorted, got)), sorted(map(sorted, gots))], [sorted(map(sorted, comps)), sorted(map(sorted, sinks))])


def weighted_zero_stream(ctx):
    """DiGraph(weighted=True) on sparse input with stored zero weights (explicit 0.0, entry zeroed in place,
    COO duplicates +w/-w that cancel): the graph is the NONZERO-weight graph."""
    from scipy import sparse
    from quantecon import DiGraph
    rng = ctx.rng
    fixed = [(2, [[0], [1]], [(0, 1)]), (2, [[1], [1]], [(1, 0)]), (3, [[1], [2], [0]], [(0, 2), (2, 1)]), (3, [[1], [2], [2]], [(2, 0)])]
    for t in range(16):
        if t < len(fixed):
            n, adj, zeros = fixed[t]
        else:
            n = rng.randrange(2, 7)
            adj = random_pattern(rng, n, allow_empty=rng.random() < 0.3)
            zeros = [(u, v) for u in range(n) for v in range(n) if v not in adj[u] and rng.random() < 0.35]
            if not zeros:
                continue
        comps, sinks = oracle(n, adj)
        one = len(comps) == 1
        per_exp = (period_by_powers(range(n), adj) or 1) if one else -1
        for how in ("explicit_zero", "zeroed_in_place", "coo_cancelling_duplicates"):
            for fmt in ("csr", "csc", "coo"):
                rows, cols, vals = [], [], []
                for u in range(n):
                    for v in adj[u]:
                        rows.append(u); cols.append(v); vals.append(rng.choice([0.25, 0.5, 1.0, 2.5, 1e-9]))
                for (u, v) in zeros:
                    if how == "coo_cancelling_duplicates":
                        w = rng.choice([0.5, 1.0, 3.0])
                        rows += [u, u]; cols += [v, v]; vals += [w, -w]
                    else:
                        rows.append(u); cols.append(v); vals.append(0.0 if how == "explicit_zero" else 4.0)
                M = sparse.coo_matrix((np.array(vals), (np.array(rows), np.array(cols))), shape=(n, n))
                if fmt != "coo":
                    M = M.tocsr() if fmt == "csr" else M.tocsc()
                    if how == "zeroed_in_place":
                        for (u, v) in zeros:
                            M[u, v] = 0.0          # stays a stored entry
                elif how == "zeroed_in_place":
                    M.data[np.isin(M.data, [4.0])] = 0.0
                inp = {"n": n, "adj": adj, "stored_zeros": zeros, "form": "weighted_%s_%s" % (fmt, how)}
                labels = rng.choice([None, [10 + 3 * i for i in range(n)]])
                try:
                    g = DiGraph(M, weighted=True, node_labels=labels)
                    o = digraph_outputs(g)
                except Exception as ex:
                    ctx.fail("explicit_zero_edge", "exception on weighted sparse input with stored zeros", inp, repr(ex), None)
                    continue
                ctx.case(("weighted_zeros", n, tuple(map(tuple, adj)), tuple(zeros), fmt, how), nontrivial=True)
                ctx.count("form:weighted_%s_stored_zeros" % fmt)
                ctx.count("stored_zero:" + how)
                got = set(frozenset(c) for c in o["scc"])
                gots = set(frozenset(c) for c in o["sink"])
                bad = got != comps or gots != sinks or o["is_sc"] != one or o["period"] != per_exp
                if one and not bad:
                    cyc = o["cyclic"]
                    cls = {x: k for k, c in enumerate(cyc or []) for x in c}
                    bad = cyc is None or len(cyc) != per_exp or sorted(cls) != list(range(n)) or \
                        any(cls[v] != (cls[u] + 1) % per_exp for u in range(n) for v in adj[u])
                if bad:
                    ctx.fail("explicit_zero_edge", "stored zero weights of a weighted sparse graph are treated as edges", inp,
                             [sorted(map(sorted, got)), sorted(map(sorted, gots)), o["period"]],
                             [sorted(map(sorted, comps)), sorted(map(sorted, sinks)), per_exp])


def replay(data):
    first = data.get("first") or (data.get("mismatches") or [{}])[0]
    print("replay:", json.dumps(first)[:2000])
    inp = first.get("input", {})
    if "adj" in inp:
        n, adj = inp["n"], inp["adj"]
        comps, sinks = oracle(n, adj)
        print("oracle classes:", sorted(map(sorted, comps)), "recurrent:", sorted(map(sorted, sinks)))
        import random
        class C:  # minimal ctx stand-in
            rng = random.Random(0)
        form = inp.get("form", "dg_dense")
        if form in FORMS:
            g, mc, _ = build(form, n, adj, C.rng)
            print("impl:", digraph_outputs(g), mc_outputs(mc) if mc is not None else None)
    return 0

"""C20: learning dynamics keep a valid state along every history.

Model coq/C20/Model.v: each dynamics as a pure step function of the state and of the objects drawn in the
period (revising player, mutation uniform, random choice, sampled actions, payoff perturbations), histories as
fold_left.  The draws are injected into the real code through a scripted numpy.random.RandomState subclass
(or reconstructed from a recording one), whole time series are compared exactly, and an independent
exact-Fraction oracle checks the invariants and the transition rule on the implementation's output."""
import sys, os, json, math, itertools
import numpy as np
from common import *

IMPORTS = "From QE Require Import C20.Model."
PREAMBLE = """
Definition series_eqb (r : option (list (list Z) * list Z)) (e : option (list (list Z) * list Z)) : bool :=
  match r, e with
  | Some (h, f), Some (h', f') => Zss_eqb h h' && Zs_eqb f f'
  | None, None => true
  | _, _ => false
  end.
Definition rows_of (r : option (list (list Z) * list Z)) : option (list (list Z)) :=
  match r with Some (h, f) => Some (h ++ [f]) | None => None end.
Definition fp_rows {T} (r : option (list (list T * list T * Z) * (list T * list T * Z))) : option (list (list T) * list (list T)) :=
  match r with
  | Some (h, f) => let all := h ++ [f] in Some (map (fun s => fst (fst s)) all, map (fun s => snd (fst s)) all)
  | None => None
  end.
Definition fp_ok (exact : bool) (r : option (list (list Q) * list (list Q))) (e0 e1 : list (list Q)) : bool :=
  match r with
  | Some (a, b) => if exact then Qss_eqb a e0 && Qss_eqb b e1
                   else Qss_close (1 # 1000000000000) a e0 && Qss_close (1 # 1000000000000) b e1
  | None => false
  end.
"""
FINISH = dict(level="proof", technique_note=(
    "Coq theorems (coq/C20/Props.v) about the executable model coq/C20/Model.v for every history of every length; "
    "model tied to /repo by injecting the random draws through a scripted RandomState (or reconstructing them from a "
    "recording one) and comparing whole time series exactly; independent exact-Fraction oracle of the invariants and of "
    "the transition rule. non-trivial = distinct input with >= 2 actions and >= 2 periods"))
ONE_M = 1.0 - 2.0 ** -53
ETOL = Fraction(1, 10 ** 12)


# ------------------------------------------------------------------ random states
class ScriptedRS(np.random.RandomState):
    def __init__(self, ints=(), uniforms=(), samples=()):
        super().__init__(0)
        self.ints, self.ii = [int(x) for x in ints], 0
        self.u, self.iu = [float(x) for x in uniforms], 0
        self.samples, self.isamp = [list(s) for s in samples], 0
        self.choice_p = []

    def randint(self, low, high=None, size=None, dtype=int):
        if size is None:
            if self.ii >= len(self.ints):
                raise AssertionError("scripted integer stream exhausted")
            v = self.ints[self.ii]
            self.ii += 1
            return v
        out = np.empty(size, dtype=np.int64)
        m = out.size
        if self.ii + m > len(self.ints):
            raise AssertionError("scripted integer stream exhausted")
        out.ravel()[:] = self.ints[self.ii:self.ii + m]
        self.ii += m
        return out

    def random(self, size=None):
        if size is None:
            if self.iu >= len(self.u):
                raise AssertionError("scripted uniform stream exhausted")
            v = self.u[self.iu]
            self.iu += 1
            return v
        out = np.empty(size, dtype=float)
        m = out.size
        out.ravel()[:] = self.u[self.iu:self.iu + m]
        self.iu += m
        return out

    random_sample = random

    def choice(self, a, size=None, replace=True, p=None):
        s = self.samples[self.isamp]
        self.isamp += 1
        self.choice_p.append((a, size, None if p is None else [float(x) for x in p]))
        return np.array(s, dtype=np.int64)


class RecordingRS(np.random.RandomState):
    def __init__(self, seed):
        super().__init__(seed)
        self.log = []

    def randint(self, low, high=None, size=None, dtype=int):
        r = super().randint(low, high, size, dtype)
        self.log.append(("randint", size, np.asarray(r).ravel().tolist()))
        return r

    def random(self, size=None):
        r = super().random_sample(size)
        self.log.append(("random", size, np.asarray(r, dtype=float).ravel().tolist()))
        return r

    random_sample = random

    def choice(self, a, size=None, replace=True, p=None):
        n0 = len(self.log)
        r = super().choice(a, size=size, replace=replace, p=p)
        del self.log[n0:]          # legacy choice() draws through self.random_sample: keep only the drawn object
        self.log.append(("choice", size, np.asarray(r).ravel().tolist()))
        return r


class ScriptedDist:
    """stands for a scipy.stats distribution in StochasticFictitiousPlay: rvs returns the scripted vectors"""

    def __init__(self, vectors):
        self.v, self.i = [list(x) for x in vectors], 0

    def rvs(self, size=None, random_state=None):
        x = self.v[self.i]
        self.i += 1
        assert len(x) == size
        return np.array(x, dtype=float)


# ------------------------------------------------------------------ literals
def qmat(A):
    return qlist2([[frac(x) for x in r] for r in A])


def optq(x):
    return "None" if x is None else "(Some %s)" % qlit(frac(x))


def series_lit(hist, final):
    return "(Some (%s, %s))" % (zlist2(hist), zlist(final))


# ------------------------------------------------------------------ independent oracle pieces
def br_exact(pv, tol):
    """smallest index whose payoff is within tol of the maximum (exact arithmetic)"""
    m = max(pv)
    for i, x in enumerate(pv):
        if x >= m - tol:
            return i
    return None


def matvec(A, x):
    return [sum(Fraction(a) * Fraction(b) for a, b in zip(row, x)) for row in A]


def composition(rng, total, parts):
    cuts = sorted(rng.randrange(0, total + 1) for _ in range(parts - 1))
    return [b - a for a, b in zip([0] + cuts, cuts + [total])]


def all_compositions(total, parts):
    if parts == 1:
        yield [total]
        return
    for first in range(total + 1):
        for rest in all_compositions(total - first, parts - 1):
            yield [first] + rest


def gen_payoff(rng, n, m=None):
    m = m or n
    style = rng.choice(["small", "small", "ties", "coord", "wide"])
    if style == "coord":
        return [[(rng.randrange(1, 5) if i == j else 0) for j in range(m)] for i in range(n)]
    if style == "ties":
        return [[rng.choice([0, 1]) for _ in range(m)] for _ in range(n)]
    if style == "wide":
        return [[rng.randrange(-20, 21) for _ in range(m)] for _ in range(n)]
    return [[rng.randrange(-2, 4) for _ in range(m)] for _ in range(n)]



def call(ctx, inp, f):
    """run the implementation; an exception it raises on a valid input is an oracle failure with that input"""
    try:
        return True, f()
    except Exception as e:
        ctx.fail("exception", "the implementation raised %s on a valid input" % type(e).__name__, inp, repr(e)[:300], None)
        return False, None

# ------------------------------------------------------------------ BRD / KMR / SamplingBRD
def check_dist_series(ctx, kind, inp, rows, N, n):
    """invariants of the action distribution along a history"""
    for t, r in enumerate(rows):
        if len(r) != n or any(x < 0 for x in r) or sum(r) != N:
            ctx.fail(kind + "_invariant", "action distribution is not a vector of non-negative integers summing to N", dict(inp, period=t), r, N)
            return False
    for t in range(len(rows) - 1):
        d = [b - a for a, b in zip(rows[t], rows[t + 1])]
        nz = sorted(x for x in d if x != 0)
        if nz not in ([], [-1, 1]):
            ctx.fail(kind + "_one_player", "more than one player moved in a period", dict(inp, period=t), [rows[t], rows[t + 1]], None)
            return False
    return True


def brd_family(ctx, thorough):
    from quantecon.game_theory import BRD, KMR, SamplingBRD
    rng = ctx.rng
    default_tol = None
    specs = []
    # exhaustive small scope: every initial condition and every revising player, one period and short histories
    small = [(2, 2), (2, 3), (3, 3)] + ([(3, 4), (4, 3), (2, 5)] if thorough else [])
    for n, N in small:
        for _ in range(3 if thorough else 2):
            A = gen_payoff(rng, n)
            for dist in all_compositions(N, n):
                ps = list(range(N)) + [rng.randrange(N) for _ in range(3)]
                specs.append(("BRD", A, N, dist, ps, None, {}))
    for _ in range(1500 if thorough else 160):
        n = rng.choice([1, 2, 2, 3, 3, 4, 4])
        N = rng.choice([1, 2, 3, 4, 5, 6, 8])
        A = gen_payoff(rng, n)
        dist = composition(rng, N, n)
        ts = rng.choice([1, 2, 5, 12, 40, 200 if rng.random() < 0.3 else 25])
        ps = [rng.randrange(N) for _ in range(ts)]
        tol = rng.choice([None, None, None, 0, 1, 2, 0.5, -1 if rng.random() < 0.3 else None])
        cls = rng.choice(["BRD", "BRD", "KMR", "KMR", "SamplingBRD"])
        extra = {}
        if cls == "KMR":
            extra["eps"] = rng.choice([0.0, 0.1, 0.25, 0.5, 1.0])
            extra["us"] = [rng.choice([0.0, ONE_M, extra["eps"], math.nextafter(extra["eps"], 0.0) if extra["eps"] > 0 else 0.3, rng.random(), rng.random()])
                           for _ in range(ts)]
            extra["rs"] = [rng.randrange(n) for _ in range(ts)]
        if cls == "SamplingBRD":
            if N < 2:
                N = 2
                dist = composition(rng, N, n)
                ps = [rng.randrange(N) for _ in range(ts)]
            extra["k"] = rng.choice([1, 2, 3, 5])
            extra["samples"] = [[rng.randrange(n) for _ in range(extra["k"])] for _ in range(ts)]
        specs.append((cls, A, N, dist, ps, tol, extra))

    cases = {"BRD": [], "KMR": [], "SamplingBRD": []}
    metas = {"BRD": [], "KMR": [], "SamplingBRD": []}
    for cls, A, N, dist, ps, tol, extra in specs:
        n = len(A)
        ts = len(ps)
        opts = {} if tol is None else {"tol": tol}
        inp = {"class": cls, "A": A, "N": N, "init_action_dist": dist, "player_ind_seq": ps, "tol": tol}
        inp.update({k: v for k, v in extra.items()})
        PAD = [0] * (2 * ts + 4)      # a wrong draw protocol must show up as a wrong history, not as an exhausted script
        if cls == "BRD":
            dyn = BRD(A, N)
            rs = ScriptedRS(ints=ps + PAD, uniforms=[0.5] * len(PAD))
            want_use = (len(ps), 0, 0)
        elif cls == "KMR":
            dyn = KMR(A, N, epsilon=extra["eps"])
            muts = [r for u, r in zip(extra["us"], extra["rs"]) if u < extra["eps"] and n > 1]
            rs = ScriptedRS(ints=ps + muts + PAD, uniforms=extra["us"] + [0.5] * len(PAD))
            want_use = (len(ps) + len(muts), len(extra["us"]), 0)
        else:
            dyn = SamplingBRD(A, N, k=extra["k"])
            rs = ScriptedRS(ints=ps + PAD, uniforms=[0.5] * len(PAD), samples=extra["samples"] + [[0] * extra["k"]] * 4)
            want_use = (len(ps), 0, len(extra["samples"]))
        if default_tol is None:
            default_tol = dyn.player.tol
        tolq = frac(default_tol if tol is None else tol)
        init = np.array(dist, dtype=rng.choice([int, float]))
        try:
            out = dyn.time_series(ts, init_action_dist=init, random_state=rs, **opts)
            hist = [[int(x) for x in r] for r in out]
            final = [int(x) for x in init]          # time_series works in place on the array it is given
            exp = series_lit(hist, final)
            status = "ok"
        except IndexError:
            exp, status, hist, final = "None", "IndexError", None, None
        except Exception as e:
            exp, status, hist, final = "None", "exception", None, None
            ctx.fail("brd_exception", "time_series raised %r" % (e,), inp, repr(e), None)
        if status == "ok" and (rs.ii, rs.iu, rs.isamp) != want_use:
            ctx.fail("draw_protocol", "the dynamics consumed random draws other than those its definition prescribes "
                     "(integers, uniforms, samples)", inp, [rs.ii, rs.iu, rs.isamp], list(want_use))
        ctx.count("%s:%s" % (cls, status))
        ctx.count("%s:n=%d" % (cls, n))
        ctx.count("%s:ts%s" % (cls, "<=5" if ts <= 5 else ("<=40" if ts <= 40 else "=200")))
        ctx.count("brd-family:tol=%s" % tol)
        ctx.case((cls, A, N, dist, ps, tol, sorted(extra.items())), nontrivial=(n >= 2 and ts >= 2 and status == "ok"),
                 sample={"class": cls, "A": A, "N": N, "init": dist, "players": ps[:6], "impl": hist[:3] if hist else status})
        if status == "ok":
            rows = hist + [final]
            if check_dist_series(ctx, "brd", inp, rows, N, n):
                # transition rule (independent): the revising player is the p-th player when players are sorted by action
                for t in range(ts):
                    cur = rows[t]
                    a = [i for i in range(n) for _ in range(cur[i])][ps[t]]
                    rest = list(cur)
                    rest[a] -= 1
                    if cls == "KMR" and extra["us"][t] < extra["eps"]:
                        idx = sum(1 for u in extra["us"][:t] if u < extra["eps"])
                        b = 0 if n == 1 else muts[idx]
                    elif cls == "SamplingBRD":
                        b = br_exact(matvec(A, np.bincount(extra["samples"][t], minlength=n).tolist()), tolq)
                    else:
                        b = br_exact(matvec(A, rest), tolq)
                    if b is None:
                        break
                    want = list(rest)
                    want[b] += 1
                    if want != rows[t + 1]:
                        ctx.fail("brd_transition", "next action distribution is not the one prescribed for the revising player drawn",
                                 dict(inp, period=t), rows[t + 1], want)
                        break
            # play(): one period on the SAME object from a visited state must reproduce the next state of the series
            if ts >= 1:
                t = rng.randrange(ts)
                cur = rows[t]
                a = [i for i in range(n) for _ in range(cur[i])][ps[t]]
                arr = np.array(cur, dtype=float)
                if cls == "BRD":
                    rs2 = ScriptedRS(ints=[0] * 4, uniforms=[0.5] * 4)
                elif cls == "KMR":
                    idx = sum(1 for u in extra["us"][:t] if u < extra["eps"])
                    rs2 = ScriptedRS(ints=([muts[idx]] if (extra["us"][t] < extra["eps"] and n > 1) else []) + [0] * 4, uniforms=[extra["us"][t]] + [0.5] * 4)
                else:
                    rs2 = ScriptedRS(ints=[0] * 4, uniforms=[0.5] * 4, samples=[extra["samples"][t]] + [[0] * extra["k"]] * 2)
                okc, got = call(ctx, dict(inp, call="play", period=t), lambda: dyn.play(a, arr, random_state=rs2, **opts))
                if okc and [int(x) for x in got] != rows[t + 1]:
                    ctx.fail("play_mismatch", "play() from a visited state does not give the next state of time_series", dict(inp, call="play", period=t),
                             [int(x) for x in got], rows[t + 1])
            if cls == "SamplingBRD":
                for (a_, size_, p_), t in zip(rs.choice_p, range(ts)):
                    cur = rows[t]
                    a_rev = [i for i in range(n) for _ in range(cur[i])][ps[t]]
                    others = [(c - (1 if i == a_rev else 0)) / (N - 1) for i, c in enumerate(cur)]   # empirical distribution of the OTHER players
                    if size_ != extra["k"] or a_ != n or any(x < 0 for x in p_) or abs(sum(p_) - 1) > 1e-12 or list(p_) != others:
                        ctx.fail("sampling_probabilities", "SamplingBRD samples from something that is not the others' empirical distribution",
                                 dict(inp, period=t), [a_, size_, p_], None)
                        break
        elif tolq >= 0 and status == "IndexError":
            ctx.fail("brd_exception", "time_series raised IndexError on a valid input", inp, status, None)
        if cls == "BRD":
            cases[cls].append(tup(qmat(A), qlit(tolq), zlist(dist), zlist(ps), exp))
        elif cls == "KMR":
            it = iter(muts)
            ds = []
            for p, u in zip(ps, extra["us"]):
                r = next(it) if (u < extra["eps"] and n > 1) else 0
                ds.append(tup(zlit(p), qlit(frac(u)), zlit(r)))
            dl = "[" + "; ".join(ds) + "]" if ds else "(@nil (Z * Q * Z))"
            cases[cls].append(tup(qmat(A), qlit(tolq), qlit(frac(extra["eps"])), zlist(dist), dl, exp))
        else:
            ds = [tup(zlit(p), zlist(s)) for p, s in zip(ps, extra["samples"])]
            dl = "[" + "; ".join(ds) + "]" if ds else "(@nil (Z * list Z))"
            cases[cls].append(tup(qmat(A), qlit(tolq), zlist(dist), dl, exp))
        metas[cls].append(inp)
    st = "option (list (list Z) * list Z)"
    for cls, ctype, ok in (
            ("BRD", "list (list Q) * Q * list Z * list Z * " + st, "fun c => let '(A, tol, d, ps, e) := c in series_eqb (brd_series A tol d ps) e"),
            ("KMR", "list (list Q) * Q * Q * list Z * list (Z * Q * Z) * " + st, "fun c => let '(A, tol, eps, d, ds, e) := c in series_eqb (kmr_series A tol eps d ds) e"),
            ("SamplingBRD", "list (list Q) * Q * list Z * list (Z * list Z) * " + st, "fun c => let '(A, tol, d, ds, e) := c in series_eqb (sampling_series A tol d ds) e")):
        bad = ctx.coq_check(cls + ".time_series", IMPORTS, ctype, ok, cases[cls], chunk=40, preamble=PREAMBLE)
        for i in bad:
            ctx.mismatch("C20.Model.%s_series vs game_theory.%s.time_series" % (cls.lower(), cls), metas[cls][i])

    # init_action_dist=None: random_pure_actions + _set_action_dist, then recorded genuine streams; equal seeds
    rec_cases = {"BRD": [], "KMR": [], "SamplingBRD": []}
    rec_meta = {"BRD": [], "KMR": [], "SamplingBRD": []}
    for _ in range(90 if thorough else 36):
        n = rng.choice([2, 3, 4])
        N = rng.choice([2, 3, 5, 8])
        A = gen_payoff(rng, n)
        ts = rng.choice([3, 10, 40])
        seed = rng.randrange(2 ** 31)
        cls = rng.choice(["BRD", "KMR", "SamplingBRD"])
        eps, k = rng.choice([0.1, 0.3]), rng.choice([1, 2, 3])
        mk = {"BRD": lambda: BRD(A, N), "KMR": lambda: KMR(A, N, epsilon=eps), "SamplingBRD": lambda: SamplingBRD(A, N, k=k)}[cls]
        inp = {"class": cls, "A": A, "N": N, "ts": ts, "seed": seed, "eps": eps, "k": k}
        rec = RecordingRS(seed)
        okc, r = call(ctx, inp, lambda: (mk().time_series(ts, random_state=seed), mk().time_series(ts, random_state=np.random.RandomState(seed)),
                                         mk().time_series(ts, random_state=rec)))
        if not okc:
            continue
        o1, o2, o3 = r
        ctx.case(("brd-seed", cls, A, N, ts, seed), nontrivial=True)
        ctx.count("%s:recorded-stream" % cls)
        if not (np.array_equal(o1, o2) and np.array_equal(o1, o3)):
            ctx.fail("seed", "equal seeds gave different histories", inp, [o1.tolist()[:5], o2.tolist()[:5]], None)
            continue
        rows = [[int(x) for x in r] for r in o3]
        check_dist_series(ctx, "brd", inp, rows, N, n)
        # reconstruct the draws: N scalar randint (initial actions), one randint array (players), then per period draws
        log = rec.log
        init_actions = [v[0] for kd, sz, v in log[:N]]
        ps = log[N][2]
        rest = log[N + 1:]
        dist0 = np.bincount(init_actions, minlength=n).tolist()
        if rows and rows[0] != dist0:
            ctx.fail("brd_initial", "initial action distribution is not the histogram of the drawn initial actions", inp, rows[0], dist0)
        tolq = frac(mk().player.tol)
        exp = "(%s)" % zlist2(rows)
        if cls == "BRD":
            rec_cases[cls].append(tup(qmat(A), qlit(tolq), zlit(n), zlist(init_actions), zlist(ps), exp))
        elif cls == "KMR":
            ds, j = [], 0
            for p in ps:
                u = rest[j][2][0]
                j += 1
                r = 0
                if u < eps and n > 1:
                    r = rest[j][2][0]
                    j += 1
                ds.append(tup(zlit(p), qlit(frac(u)), zlit(r)))
            rec_cases[cls].append(tup(qmat(A), qlit(tolq), qlit(frac(eps)), zlit(n), zlist(init_actions), "[" + "; ".join(ds) + "]", exp))
        else:
            ds = [tup(zlit(p), zlist(rest[t][2])) for t, p in enumerate(ps)]
            rec_cases[cls].append(tup(qmat(A), qlit(tolq), zlit(n), zlist(init_actions), "[" + "; ".join(ds) + "]", exp))
        rec_meta[cls].append(inp)
    hs = "list (list Z)"
    hist_ok = "match %s with Some (h, _) => Zss_eqb h e | None => false end"
    for cls, ctype, ok in (
            ("BRD", "list (list Q) * Q * Z * list Z * list Z * " + hs,
             "fun c => let '(A, tol, n, ia, ps, e) := c in " + hist_ok % "brd_series A tol (set_action_dist n ia) ps"),
            ("KMR", "list (list Q) * Q * Q * Z * list Z * list (Z * Q * Z) * " + hs,
             "fun c => let '(A, tol, eps, n, ia, ds, e) := c in " + hist_ok % "kmr_series A tol eps (set_action_dist n ia) ds"),
            ("SamplingBRD", "list (list Q) * Q * Z * list Z * list (Z * list Z) * " + hs,
             "fun c => let '(A, tol, n, ia, ds, e) := c in " + hist_ok % "sampling_series A tol (set_action_dist n ia) ds")):
        bad = ctx.coq_check(cls + ".time_series(recorded stream)", IMPORTS, ctype, ok, rec_cases[cls], chunk=20, preamble=PREAMBLE)
        for i in bad:
            ctx.mismatch("C20.Model.%s_series vs %s.time_series on a recorded genuine stream" % (cls.lower(), cls), rec_meta[cls][i])
    # random tie-breaking (outside the deterministic model): invariants only
    for _ in range(30 if thorough else 10):
        n, N = rng.choice([2, 3, 4]), rng.choice([3, 5, 8])
        A = [[rng.choice([0, 1]) for _ in range(n)] for _ in range(n)]
        seed = rng.randrange(2 ** 31)
        inp = {"class": "BRD", "A": A, "N": N, "tie_breaking": "random", "seed": seed}
        okc, r = call(ctx, inp, lambda: (BRD(A, N).time_series(30, tie_breaking="random", random_state=seed),
                                         BRD(A, N).time_series(30, tie_breaking="random", random_state=seed)))
        if not okc:
            continue
        o, o2 = r
        ctx.case(("brd-random-ties", A, N, seed), nontrivial=True)
        ctx.count("BRD:tie_breaking=random")
        check_dist_series(ctx, "brd", inp, [[int(x) for x in r] for r in o], N, n)
        if not np.array_equal(o, o2):
            ctx.fail("seed", "equal seeds gave different histories", inp, None, None)


# ------------------------------------------------------------------ FictitiousPlay / StochasticFictitiousPlay
def gen_belief(rng, n, dyadic):
    if rng.random() < 0.35:
        return rng.randrange(n)            # a pure action
    if dyadic:
        w = composition(rng, 16, n)
        return [x / 16.0 for x in w]
    w = [rng.randrange(0, 6) for _ in range(n)]
    if sum(w) == 0:
        w[0] = 1
    return [x / sum(w) for x in w]


def as_vec(a, n):
    if isinstance(a, int):
        return [1.0 if i == a else 0.0 for i in range(n)]
    return list(a)


def fict_play(ctx, thorough):
    from quantecon.game_theory import FictitiousPlay, StochasticFictitiousPlay, NormalFormGame, Player
    rng = ctx.rng
    cases, meta = [], []
    fcases, fmeta = [], []
    for it in range(2000 if thorough else 220):
        n0, n1 = rng.choice([1, 2, 2, 3, 3, 4]), rng.choice([2, 2, 3, 3, 4])
        A = gen_payoff(rng, n0, n1)
        B = gen_payoff(rng, n1, n0)
        gain = rng.choice([None, None, 0.5, 0.25, 0.125, 0.1, 1.0])
        dyadic = gain in (0.5, 0.25, 0.125, 1.0)
        # dyadic gain and dyadic initial beliefs: every float operation is exact while the mantissas fit (4 + ts*log2(1/gain) <= 53 bits)
        ts = rng.choice([1, 2, 5, 12] + ([30, 45] if gain in (0.5, 1.0) else [])) if dyadic else rng.choice([1, 2, 6, 25, 60, 200 if rng.random() < 0.2 else 40])
        t_init = rng.choice([0, 0, 3])
        # tolerances other than the default only where arithmetic is exact (otherwise a payoff gap equal to tol is decided by rounding)
        tol = rng.choice([None, None, 0, 1, 0.5]) if dyadic else None
        init = (gen_belief(rng, n0, dyadic), gen_belief(rng, n1, dyadic))
        stochastic = rng.random() < 0.35
        g = NormalFormGame((Player(A), Player(B)))
        opts = {} if tol is None else {"tol": tol}
        perts = None
        if stochastic:
            vecs = []
            for _ in range(max(ts - 1, 0)):
                vecs.append([rng.choice([-1.0, -0.5, 0.0, 0.25, 1.0, 2.0]) for _ in range(n0)])
                vecs.append([rng.choice([-1.0, -0.5, 0.0, 0.25, 1.0, 2.0]) for _ in range(n1)])
            fp = StochasticFictitiousPlay(g, ScriptedDist(vecs), gain=gain)
            perts = [(vecs[2 * j], vecs[2 * j + 1]) for j in range(max(ts - 1, 0))]
        else:
            fp = FictitiousPlay(g, gain=gain)
        okc, out = call(ctx, {"class": "FictitiousPlay", "A": A, "B": B, "gain": gain, "ts": ts, "t_init": t_init, "tol": tol, "init": init},
                        lambda: fp.time_series(ts, init_actions=init, t_init=t_init, **opts))
        if not okc:
            continue
        tolq = frac(Player(A).tol if tol is None else tol)
        x0, x1 = as_vec(init[0], n0), as_vec(init[1], n1)
        exact = dyadic
        inp = {"class": "StochasticFictitiousPlay" if stochastic else "FictitiousPlay", "A": A, "B": B, "gain": gain, "ts": ts, "t_init": t_init,
               "tol": tol, "init": init, "perturbations": perts}
        ctx.case(("fp", A, B, gain, ts, t_init, tol, init, perts), nontrivial=(ts >= 2),
                 sample={"class": inp["class"], "A": A, "B": B, "gain": gain, "init": init, "impl_last": [out[0][-1].tolist(), out[1][-1].tolist()]})
        ctx.count("FP:%s" % ("stochastic" if stochastic else "plain"))
        ctx.count("FP:gain=%s" % gain)
        ctx.count("FP:ts%s" % ("<=12" if ts <= 12 else ("<=60" if ts <= 60 else "=200")))
        # oracle: probability vectors; update (1-s) old + s e_br with br a best response to the OLD beliefs
        ok = True
        for j in range(ts):
            for i in (0, 1):
                row = out[i][j].tolist()
                if min(row) < -1e-15 or abs(sum(Fraction(x) for x in row) - 1) > ETOL:
                    ctx.fail("fp_probability_vector", "belief is not a probability vector", dict(inp, period=j, player=i), row, None)
                    ok = False
            if not ok:
                break
            if j == 0:
                continue
            s = Fraction(gain) if gain is not None else Fraction(1, t_init + j - 1 + 2)
            old = [[Fraction(x) for x in out[i][j - 1].tolist()] for i in (0, 1)]
            new = [[Fraction(x) for x in out[i][j].tolist()] for i in (0, 1)]
            for i, M in ((0, A), (1, B)):
                pv = matvec(M, old[1 - i])
                if perts is not None:
                    pv = [a + Fraction(b) for a, b in zip(pv, perts[j - 1][i])]
                diff = [b - (1 - s) * a for a, b in zip(old[i], new[i])]
                br = max(range(len(diff)), key=lambda q: diff[q])
                want = [(1 - s) * a + (s if q == br else 0) for q, a in enumerate(old[i])]
                if max(abs(a - b) for a, b in zip(want, new[i])) > ETOL:
                    ctx.fail("fp_update", "belief update is not (1-s)*old + s*e_br with the documented step size", dict(inp, period=j, player=i),
                             [float(x) for x in new[i]], [float(x) for x in want])
                    ok = False
                elif s > 0 and pv[br] < max(pv) - tolq - Fraction(1, 10 ** 9):
                    ctx.fail("fp_best_response", "belief moved towards an action that is not a best response to the old beliefs",
                             dict(inp, period=j, player=i), br, br_exact(pv, tolq))
                    ok = False
            if not ok:
                break
        if ok and ts >= 2 and not stochastic:
            okc, fin = call(ctx, dict(inp, call="play"), lambda: fp.play(actions=init, num_reps=ts - 1, t_init=t_init, **opts))
            if okc and any(fin[i].tolist() != out[i][-1].tolist() for i in (0, 1)):
                ctx.fail("play_mismatch", "FictitiousPlay.play(num_reps) differs from the last row of time_series", dict(inp, call="play"),
                         [fin[0].tolist(), fin[1].tolist()], [out[0][-1].tolist(), out[1][-1].tolist()])
        pl = "[" + "; ".join("None" if perts is None else "(Some (%s, %s))" % (qlist([frac(x) for x in perts[j][0]]), qlist([frac(x) for x in perts[j][1]]))
                             for j in range(max(ts - 1, 0))) + "]"
        if ts <= 1:
            pl = "(@nil (option (list Q * list Q)))"
        if exact or ts <= 12:
            # exact instance: equality on dyadic data, 1e-12 otherwise (short runs: exact rationals grow with every period)
            cases.append(tup(qmat(A), qmat(B), optq(gain), qlit(tolq), qlist([frac(x) for x in x0]), qlist([frac(x) for x in x1]), zlit(t_init), pl,
                             blit(exact), qmat(out[0].tolist()), qmat(out[1].tolist())))
            meta.append(inp)
            ctx.count("FP:Q-instance")
        if True:
            # float instance, bit-exact, every case and every length (same operations in source order)
            fpl = pl.replace("(@nil (option (list Q * list Q)))", "(@nil (option (list float * list float)))")
            if perts is not None:
                fpl = "[" + "; ".join("(Some (%s, %s))" % (flist(perts[j][0]), flist(perts[j][1])) for j in range(ts - 1)) + "]" if ts > 1 else fpl
            fcases.append(tup(flist2(A), flist2(B), "None" if gain is None else "(Some %s%%float)" % flit(gain), flit(float(tolq)) + "%float",
                              flist(x0), flist(x1), zlit(t_init), fpl, flist2(out[0].tolist()), flist2(out[1].tolist())))
            fmeta.append(inp)
    bad = ctx.coq_check("FictitiousPlay.time_series", IMPORTS,
                        "list (list Q) * list (list Q) * option Q * Q * list Q * list Q * Z * list (option (list Q * list Q)) * bool * list (list Q) * list (list Q)",
                        "fun c => let '(A, B, gain, tol, x0, x1, t0, perts, exact, e0, e1) := c in fp_ok exact (fp_rows (fp_series A B gain tol x0 x1 t0 perts)) e0 e1",
                        cases, chunk=15, preamble=PREAMBLE)
    for i in bad:
        ctx.mismatch("C20.Model.fp_series (Q instance) vs FictitiousPlay/StochasticFictitiousPlay.time_series", meta[i])
    return fcases, fmeta


def fict_play_float(ctx, fcases, fmeta):
    bad = ctx.coq_check("FictitiousPlay.time_series(float, bit-exact)", IMPORTS,
                        "list (list float) * list (list float) * option float * float * list float * list float * Z * list (option (list float * list float)) * list (list float) * list (list float)",
                        "fun c => let '(A, B, gain, tol, x0, x1, t0, perts, e0, e1) := c in "
                        "match fp_rows (fp_series A B gain tol x0 x1 t0 perts) with Some (a, b) => Fss_eqb a e0 && Fss_eqb b e1 | None => false end",
                        fcases, chunk=15, preamble=PREAMBLE)
    for i in bad:
        ctx.mismatch("C20.Model.fp_series (float instance, bit-exact) vs FictitiousPlay.time_series", fmeta[i])


def tlit(a, f):
    if isinstance(a, list):
        return "(Node [%s])" % "; ".join(tlit(x, f) for x in a)
    return "(Leaf %s)" % f(a)


def fict_play_three(ctx, thorough):
    """N = 3 (and some N = 4) players: model nfp_series (nested payoff arrays, last-axis contraction) on the float instance
    bit-exactly and on Q within 1e-12, plus the oracle of the invariants"""
    from quantecon.game_theory import FictitiousPlay, NormalFormGame, Player
    rng = ctx.rng
    fcases, qcases, meta = [], [], []
    for _ in range(120 if thorough else 40):
        Np = rng.choice([3, 3, 3, 4])
        ns = [rng.choice([2, 3]) if Np == 3 else 2 for _ in range(Np)]
        arrays = []
        for i in range(Np):
            shape = tuple(ns[(i + k) % Np] for k in range(Np))
            arrays.append(np.array([rng.randrange(-2, 4) for _ in range(int(np.prod(shape)))]).reshape(shape))
        g = NormalFormGame([Player(a) for a in arrays])
        gain = rng.choice([None, None, 0.5, 0.25])
        ts = rng.choice([1, 2, 5, 12, 40])
        t_init = rng.choice([0, 2])
        dy = gain is not None
        init = tuple(gen_belief(rng, n, True) for n in ns)
        inp = {"class": "FictitiousPlay", "players": Np, "nums_actions": ns, "payoffs": [a.tolist() for a in arrays], "gain": gain, "ts": ts,
               "t_init": t_init, "init": init}
        fp = FictitiousPlay(g, gain=gain)
        okc, o = call(ctx, inp, lambda: fp.time_series(ts, init_actions=init, t_init=t_init))
        if not okc:
            continue
        ctx.case(("fpN", inp["payoffs"], gain, ts, t_init, init), nontrivial=(ts >= 2), sample={"FictitiousPlay(N)": {"N": Np, "ns": ns, "gain": gain, "ts": ts}})
        ctx.count("FP:N=%d players" % Np)
        good = True
        for i in range(Np):
            for j in range(ts):
                row = o[i][j].tolist()
                if min(row) < -1e-15 or abs(sum(Fraction(x) for x in row) - 1) > ETOL:
                    ctx.fail("fp_probability_vector", "belief is not a probability vector", dict(inp, period=j, player=i), row, None)
                    good = False
                if j >= 1 and good:
                    s_ = Fraction(gain) if gain is not None else Fraction(1, t_init + j - 1 + 2)
                    old = [Fraction(x) for x in o[i][j - 1].tolist()]
                    new = [Fraction(x) for x in row]
                    diff = [b_ - (1 - s_) * a_ for a_, b_ in zip(old, new)]
                    br = max(range(len(diff)), key=lambda q: diff[q])
                    want = [(1 - s_) * a_ + (s_ if q == br else 0) for q, a_ in enumerate(old)]
                    # payoff vector of player i against the OLD beliefs of the others (exact multilinear form)
                    opp = [[Fraction(x) for x in o[(i + k) % Np][j - 1].tolist()] for k in range(1, Np)]
                    pv = []
                    for a_ in range(ns[i]):
                        tot = Fraction(0)
                        for prof in itertools.product(*[range(len(v)) for v in opp]):
                            w = Fraction(1)
                            for k, ak in enumerate(prof):
                                w *= opp[k][ak]
                            tot += w * int(arrays[i][(a_,) + prof])
                        pv.append(tot)
                    if max(abs(x - y) for x, y in zip(want, new)) > ETOL:
                        ctx.fail("fp_update", "belief update is not (1-s)*old + s*e_br with the documented step size", dict(inp, period=j, player=i), row, [float(x) for x in want])
                        good = False
                    elif pv[br] < max(pv) - Fraction(1, 10 ** 8) - Fraction(1, 10 ** 9):
                        ctx.fail("fp_best_response", "belief moved towards an action that is not a best response to the old beliefs", dict(inp, period=j, player=i), br, None)
                        good = False
            if not good:
                break
        if ts >= 2:
            okc, fin = call(ctx, dict(inp, call="play"), lambda: fp.play(actions=init, num_reps=ts - 1, t_init=t_init))
            if okc and any(fin[i].tolist() != o[i][-1].tolist() for i in range(Np)):
                ctx.fail("play_mismatch", "FictitiousPlay.play(num_reps) differs from the last row of time_series", dict(inp, call="play"), None, None)
        x0 = [as_vec(init[i], ns[i]) for i in range(Np)]
        per = [[o[i][j].tolist() for i in range(Np)] for j in range(ts)]
        tolf = Player(arrays[0]).tol
        fcases.append(tup("[" + "; ".join(tlit(a.tolist(), lambda v: flit(v) + "%float") for a in arrays) + "]",
                          "None" if gain is None else "(Some %s%%float)" % flit(gain), flit(tolf) + "%float", flist2(x0), zlit(t_init), natlit(ts - 1),
                          "[" + "; ".join(flist2(r) for r in per) + "]"))
        if dy or ts <= 12:
            qcases.append(tup("[" + "; ".join(tlit(a.tolist(), lambda v: qlit(frac(v))) for a in arrays) + "]",
                              optq(gain), qlit(frac(tolf)), qlist2([[frac(v) for v in r] for r in x0]), zlit(t_init), natlit(ts - 1), blit(dy and ts <= 12),
                              "[" + "; ".join(qlist2([[frac(v) for v in r] for r in rr]) for rr in per) + "]"))
        meta.append(inp)
    bad = ctx.coq_check("FictitiousPlay(N players).time_series(float, bit-exact)", IMPORTS,
                        "list (@tensor float) * option float * float * list (list float) * Z * nat * list (list (list float))",
                        "fun c => let '(arr, gain, tol, xs, t0, k, e) := c in match nfp_series arr gain tol xs t0 k with "
                        "Some (h, f) => list_eqb Fss_eqb (map fst (h ++ [f])) e | None => false end", fcases, chunk=10, preamble=PREAMBLE)
    for i in bad:
        ctx.mismatch("C20.Model.nfp_series (float instance, bit-exact) vs FictitiousPlay.time_series with N players", meta[i])
    bad = ctx.coq_check("FictitiousPlay(N players).time_series(Q)", IMPORTS,
                        "list (@tensor Q) * option Q * Q * list (list Q) * Z * nat * bool * list (list (list Q))",
                        "fun c => let '(arr, gain, tol, xs, t0, k, exact, e) := c in match nfp_series arr gain tol xs t0 k with "
                        "Some (h, f) => if exact then list_eqb Qss_eqb (map fst (h ++ [f])) e else list_eqb (Qss_close (1 # 1000000000000)) (map fst (h ++ [f])) e "
                        "| None => false end", qcases, chunk=10, preamble=PREAMBLE)
    if bad:
        ctx.mismatch("C20.Model.nfp_series (Q instance) vs FictitiousPlay.time_series with N players", {"cases": bad[:5]})


# ------------------------------------------------------------------ LocalInteraction
def local_interaction(ctx, thorough):
    from quantecon.game_theory import LocalInteraction
    from quantecon.game_theory import Player
    rng = ctx.rng
    cases, meta = [], []
    specs = []
    # exhaustive: all action profiles on small graphs, simultaneous and every single revising player
    for n, N in [(2, 3), (3, 2), (2, 4)] + ([(3, 3), (2, 5)] if thorough else []):
        A = gen_payoff(rng, n)
        adj = [[rng.choice([0, 0, 1, 1, 2]) for _ in range(N)] for _ in range(N)]
        for prof in itertools.product(range(n), repeat=N):
            specs.append((A, adj, list(prof), "simultaneous", None, 3, None))
            specs.append((A, adj, list(prof), "asynchronous", list(range(N)), N + 1, None))
    for _ in range(1800 if thorough else 200):
        n = rng.choice([1, 2, 2, 3, 3, 4])
        N = rng.choice([1, 2, 3, 4, 5, 6])
        A = gen_payoff(rng, n)
        style = rng.choice(["01", "weighted", "weighted", "half", "sparse"])
        if style == "01":
            adj = [[rng.choice([0, 1]) for _ in range(N)] for _ in range(N)]
        elif style == "weighted":
            adj = [[rng.choice([0, 0, 1, 2, 3]) for _ in range(N)] for _ in range(N)]
        elif style == "half":
            adj = [[rng.choice([0, 0.5, 1.0, 1.5]) for _ in range(N)] for _ in range(N)]
        else:
            adj = [[(rng.randrange(1, 4) if rng.random() < 0.25 else 0) for _ in range(N)] for _ in range(N)]
        prof = [rng.randrange(n) for _ in range(N)]
        rev = rng.choice(["simultaneous", "asynchronous", "asynchronous"])
        ts = rng.choice([1, 2, 6, 20, 200 if rng.random() < 0.25 else 30])
        seq = None
        mode = None
        if rev == "asynchronous":
            seq = [rng.randrange(N) for _ in range(ts)]
            mode = rng.choice(["given", "drawn"])
        tol = rng.choice([None, None, 0, 1])
        specs.append((A, adj, prof, rev, seq, ts, (mode, tol)))
    default_tol = Player([[0]]).tol
    for A, adj, prof, rev, seq, ts, extra in specs:
        mode, tol = extra if extra else ("given", None)
        n, N = len(A), len(adj)
        li = LocalInteraction(A, np.array(adj))
        opts = {} if tol is None else {"tol": tol}
        inp = {"class": "LocalInteraction", "A": A, "adj": adj, "actions": prof, "revision": rev, "player_ind_seq": seq, "ts": ts, "tol": tol, "seq_mode": mode}
        if rev == "asynchronous" and mode == "drawn":
            rs = ScriptedRS(ints=seq + [0] * 8, uniforms=[0.5] * 8)
            okc, out = call(ctx, inp, lambda: li.time_series(ts, revision=rev, actions=tuple(prof), random_state=rs, **opts))
            if okc and (rs.ii, rs.iu) != (len(seq), 0):
                ctx.fail("draw_protocol", "LocalInteraction consumed random draws other than the revising players", inp, [rs.ii, rs.iu], [len(seq), 0])
        elif rev == "asynchronous":
            okc, out = call(ctx, inp, lambda: li.time_series(ts, revision=rev, actions=tuple(prof), player_ind_seq=seq, **opts))
        else:
            okc, out = call(ctx, inp, lambda: li.time_series(ts, revision=rev, actions=tuple(prof), **opts))
        if not okc:
            continue
        rows = [[int(x) for x in r] for r in out]
        tolq = frac(default_tol if tol is None else tol)
        ctx.case(("li", A, adj, prof, rev, seq, ts, tol), nontrivial=(n >= 2 and ts >= 2 and N >= 2), sample={"LocalInteraction": inp, "impl": rows[:3]})
        ctx.count("LocalInteraction:%s" % rev)
        ctx.count("LocalInteraction:N=%d" % N)
        # oracle: range + the rule (every revising player best-responds to the weighted counts of the OLD profile)
        good = True
        for t, r in enumerate(rows):
            if len(r) != N or any(not (0 <= a < n) for a in r):
                ctx.fail("localint_range", "action outside the action set", dict(inp, period=t), r, None)
                good = False
                break
        if good and rows[0] != prof:
            ctx.fail("localint_start", "time series does not start at the given profile", inp, rows[0], prof)
        if good:
            for t in range(ts - 1):
                old = rows[t]
                revs = range(N) if rev == "simultaneous" else [seq[t]]
                want = list(old)
                for i in revs:
                    counts = [sum(Fraction(adj[i][j]) for j in range(N) if old[j] == a) for a in range(n)]
                    want[i] = br_exact(matvec(A, counts), tolq)
                if want != rows[t + 1]:
                    ctx.fail("localint_transition", "next profile is not the best response of the revising player(s) to the old profile",
                             dict(inp, period=t), rows[t + 1], want)
                    break
        if good and ts >= 2:
            if rev == "simultaneous":
                okc, fin = call(ctx, dict(inp, call="play"), lambda: li.play(revision=rev, actions=tuple(prof), num_reps=ts - 1, **opts))
            else:
                k_ = rng.randrange(1, ts)
                okc, fin = call(ctx, dict(inp, call="play"), lambda: li.play(revision=rev, actions=tuple(prof),
                                                                              player_ind_seq=(seq[0] if k_ == 1 and rng.random() < 0.5 else seq[:k_]), **opts))
            want_fin = rows[-1] if rev == "simultaneous" else rows[k_]
            if okc and [int(x) for x in fin] != want_fin:
                ctx.fail("play_mismatch", "LocalInteraction.play differs from the corresponding row of time_series", dict(inp, call="play"),
                         [int(x) for x in fin], want_fin)
        ds = ["None" if rev == "simultaneous" else "(Some %s)" % zlit(seq[t]) for t in range(ts - 1)]
        dl = "[" + "; ".join(ds) + "]" if ds else "(@nil (option Z))"
        cases.append(tup(qmat(A), qmat(adj), qlit(tolq), zlist(prof), dl, "(Some %s)" % zlist2(rows)))
        meta.append(inp)
    bad = ctx.coq_check("LocalInteraction.time_series", IMPORTS, "list (list Q) * list (list Q) * Q * list Z * list (option Z) * option (list (list Z))",
                        "fun c => let '(A, adj, tol, a0, ds, e) := c in opt_eqb Zss_eqb (rows_of (localint_series A adj tol a0 ds)) e",
                        cases, chunk=60, preamble=PREAMBLE)
    for i in bad:
        ctx.mismatch("C20.Model.localint_series vs LocalInteraction.time_series", meta[i])
    # seeds
    for _ in range(20 if thorough else 8):
        n, N = rng.choice([2, 3]), rng.choice([3, 5, 6])
        A = gen_payoff(rng, n)
        adj = [[rng.choice([0, 1, 2]) for _ in range(N)] for _ in range(N)]
        seed = rng.randrange(2 ** 31)
        rev = rng.choice(["simultaneous", "asynchronous"])
        inp = {"class": "LocalInteraction", "A": A, "adj": adj, "revision": rev, "seed": seed}
        okc, r = call(ctx, inp, lambda: (LocalInteraction(A, adj).time_series(20, revision=rev, random_state=seed),
                                         LocalInteraction(A, adj).time_series(20, revision=rev, random_state=seed)))
        if not okc:
            continue
        o1, o2 = r
        ctx.case(("li-seed", A, adj, rev, seed), nontrivial=True)
        ctx.count("LocalInteraction:seeded")
        if not np.array_equal(o1, o2):
            ctx.fail("seed", "equal seeds gave different histories", inp, None, None)
        if o1.min() < 0 or o1.max() >= n:
            ctx.fail("localint_range", "action outside the action set", inp, o1.tolist()[:5], None)


# ------------------------------------------------------------------ LogitDynamics
def logit_dynamics(ctx, thorough):
    from quantecon.game_theory import LogitDynamics, NormalFormGame, Player
    rng = ctx.rng
    cases, meta = [], []
    for it in range(1500 if thorough else 160):
        Np = rng.choice([2, 2, 2, 3])
        ns = [rng.choice([1, 2, 3, 4]) if Np == 2 else rng.choice([2, 3]) for _ in range(Np)]
        players = []
        for i in range(Np):
            shape = tuple(ns[(i + k) % Np] for k in range(Np))
            size = int(np.prod(shape))
            players.append(Player(np.array([rng.randrange(-3, 4) for _ in range(size)]).reshape(shape)))
        g = NormalFormGame(players)
        beta = rng.choice([0.5, 1.0, 2.0, 0.0, 30.0])
        ld = LogitDynamics(g, beta=beta)
        tables = []
        for i in range(Np):
            opp_ns = [ns[(i + k) % Np] for k in range(1, Np)]
            tbl = []
            for prof in itertools.product(*[range(m) for m in opp_ns]):
                tbl.append((list(prof), [float(x) for x in ld.players[i].logit_choice_cdfs[prof]]))
            tables.append(tbl)
        ts = rng.choice([1, 3, 10, 40, 200 if rng.random() < 0.2 else 20])
        init = [rng.randrange(m) for m in ns]
        seq = [rng.randrange(Np) for _ in range(ts)]
        # uniforms steered at the breakpoints of the cdf the revising player will face (guidance by a float re-implementation)
        us, cur = [], list(init)
        for t in range(ts):
            i = seq[t]
            opp = tuple(cur[i + 1:] + cur[:i])
            cdf = dict((tuple(k), v) for k, v in tables[i])[opp]
            c = cdf[-1]
            b = rng.choice(cdf)
            cand = [0.0, ONE_M, b / c, math.nextafter(b / c, 0.0), math.nextafter(b / c, 2.0), rng.random(), rng.random(), rng.random()]
            u = rng.choice(cand)
            if not (0.0 <= u < 1.0):
                u = ONE_M
            us.append(u)
            v = u * c
            cur[i] = sum(1 for x in cdf if x <= v)
        rs = ScriptedRS(ints=seq + [0] * 8, uniforms=us + [0.5] * 8)
        okc, out = call(ctx, {"class": "LogitDynamics", "payoffs": [p.payoff_array.tolist() for p in players], "beta": beta, "init": init,
                              "player_ind_seq": seq, "uniforms": [u.hex() for u in us]},
                        lambda: ld.time_series(ts, init_actions=tuple(init), random_state=rs))
        if not okc:
            continue
        if (rs.ii, rs.iu) != (len(seq), len(us)):
            ctx.fail("draw_protocol", "LogitDynamics consumed random draws other than one revising player and one uniform per period",
                     {"class": "LogitDynamics", "ts": ts}, [rs.ii, rs.iu], [len(seq), len(us)])
        rows = [[int(x) for x in r] for r in out]
        inp = {"class": "LogitDynamics", "payoffs": [p.payoff_array.tolist() for p in players], "beta": beta, "init": init, "player_ind_seq": seq,
               "uniforms": [u.hex() for u in us]}
        ctx.case(("logit", inp["payoffs"], beta, init, seq, inp["uniforms"]), nontrivial=(ts >= 2 and max(ns) >= 2),
                 sample={"LogitDynamics": {"nums_actions": ns, "beta": beta, "init": init, "players": seq[:5], "us": us[:3]}, "impl": rows[:3]})
        ctx.count("Logit:players=%d" % Np)
        ctx.count("Logit:beta=%s" % beta)
        ctx.count("Logit:u=0", us.count(0.0))
        ctx.count("Logit:u=1-2^-53", us.count(ONE_M))
        # oracle: range, only the revising player changes, new action is the inverse-CDF image of u under the logit weights
        okr = True
        for t, r in enumerate(rows):
            if any(not (0 <= a < ns[i]) for i, a in enumerate(r)):
                ctx.fail("logit_range", "action outside the action set", dict(inp, period=t), r, None)
                okr = False
                break
        if okr and rows and rows[0] != init:
            ctx.fail("logit_start", "time series does not start at the given profile", inp, rows[0], init)
        if okr:
            for t in range(ts - 1):
                i = seq[t]
                old, new = rows[t], rows[t + 1]
                if any(old[j] != new[j] for j in range(Np) if j != i):
                    ctx.fail("logit_one_player", "a player other than the revising one changed action", dict(inp, period=t), [old, new], None)
                    break
                opp = tuple(old[i + 1:] + old[:i])
                pay = [Fraction(int(players[i].payoff_array[(a,) + opp])) for a in range(ns[i])]
                w = [math.exp(float((p - max(pay)) * Fraction(beta))) for p in pay]
                W = sum(w)
                lo, hi = sum(w[:new[i]]) / W, sum(w[:new[i] + 1]) / W
                # the documented rule in binary64, recomputed from the payoffs (not from the object's tables, not from the Coq model):
                # cdf = cumsum(exp((payoff - max) * beta)); the new action is the number of entries of cdf that are <= u*cdf[-1]
                pv = np.array([players[i].payoff_array[(a,) + opp] for a in range(ns[i])])
                cdf_o = np.exp((pv - pv.max()) * beta).cumsum()
                want_a = int(np.sum(cdf_o <= us[t] * cdf_o[-1]))
                if not (lo - 1e-9 <= us[t] < hi + 1e-9) or new[i] != want_a:
                    ctx.fail("logit_law", "new action is not the inverse-CDF image of the uniform under the logit choice probabilities",
                             dict(inp, period=t), new[i], [lo, us[t], hi, want_a])
                    break
        if okr and ts >= 2:
            k_ = rng.randrange(1, ts)
            rs3 = ScriptedRS(ints=[0] * 4, uniforms=us[:k_] + [0.5] * 4)
            okc, fin = call(ctx, dict(inp, call="play"), lambda: ld.play(init_actions=tuple(init), player_ind_seq=(seq[0] if k_ == 1 else seq[:k_]), random_state=rs3))
            if okc and [int(x) for x in fin] != rows[k_]:
                ctx.fail("play_mismatch", "LogitDynamics.play differs from the corresponding row of time_series", dict(inp, call="play"),
                         [int(x) for x in fin], rows[k_])
        tl = "[" + "; ".join("[" + "; ".join(tup(zlist(k), flist(v)) for k, v in tbl) + "]" for tbl in tables) + "]"
        ds = [tup(zlit(p), flit(u) + "%float") for p, u in zip(seq, us)]
        cases.append(tup(tl, zlist(init), "[" + "; ".join(ds) + "]", zlist2(rows)))
        meta.append(inp)
    bad = ctx.coq_check("LogitDynamics.time_series", IMPORTS, "list (list (list Z * list float)) * list Z * list (Z * float) * list (list Z)",
                        "fun c => let '(tbl, a0, ds, e) := c in match logit_series tbl a0 ds with Some (h, _) => Zss_eqb h e | None => false end",
                        cases, chunk=30, preamble=PREAMBLE)
    for i in bad:
        ctx.mismatch("C20.Model.logit_series (float instance, bit-exact) vs LogitDynamics.time_series", meta[i])
    for _ in range(20 if thorough else 8):
        ns = [rng.choice([2, 3]), rng.choice([2, 3, 4])]
        g = NormalFormGame((Player(gen_payoff(rng, ns[0], ns[1])), Player(gen_payoff(rng, ns[1], ns[0]))))
        seed = rng.randrange(2 ** 31)
        inp = {"class": "LogitDynamics", "nums_actions": ns, "seed": seed, "payoffs": [p.payoff_array.tolist() for p in g.players]}
        okc, r = call(ctx, inp, lambda: (LogitDynamics(g, beta=1.5).time_series(50, random_state=seed),
                                         LogitDynamics(g, beta=1.5).time_series(50, random_state=seed)))
        if not okc:
            continue
        o1, o2 = r
        ctx.case(("logit-seed", ns, seed, [p.payoff_array.tolist() for p in g.players]), nontrivial=True)
        ctx.count("Logit:seeded")
        if not np.array_equal(o1, o2):
            ctx.fail("seed", "equal seeds gave different histories", inp, None, None)
        if (o1 < 0).any() or (o1 >= np.array(ns)).any():
            ctx.fail("logit_range", "action outside the action set", inp, o1.tolist()[:5], None)


# ------------------------------------------------------------------ hardening audit: dress / state / aliasing / optional arguments /
# degenerate sizes.  Every variant call must reproduce the CANONICAL call (float64 / int64 ndarrays, Python scalars, fresh objects).
def harden(ctx, thorough):
    import scipy.sparse as sp
    from quantecon.game_theory import BRD, KMR, SamplingBRD, FictitiousPlay, StochasticFictitiousPlay, LocalInteraction, LogitDynamics, NormalFormGame, Player
    rng = ctx.rng
    NPI = [int, np.int64, np.int32, np.intp, np.uint8]

    def same(a, b):
        a, b = np.asarray(a), np.asarray(b)
        return a.shape == b.shape and np.array_equal(a, b)

    def mat_dresses(A, tag):
        A64 = np.array(A, dtype=np.float64)
        big = np.zeros((2 * A64.shape[0], 2 * A64.shape[1]))
        big[::2, ::2] = A64
        out = [("list", [list(r) for r in A]), ("tuple", tuple(tuple(r) for r in A)), ("float32", A64.astype(np.float32)),
               ("int32", A64.astype(np.int32)), ("int64", A64.astype(np.int64)), ("F-order", np.asfortranarray(A64)),
               ("non-contiguous view", big[::2, ::2])]
        for name, _ in out:
            ctx.count("dress:%s=%s" % (tag, name))
        return out

    # ---------------- BRD / KMR / SamplingBRD
    for it in range(45 if thorough else 16):
        n, N = rng.choice([1, 2, 3, 4]), rng.choice([1, 2, 3, 5, 8])
        A = gen_payoff(rng, n)
        cls = rng.choice(["BRD", "KMR", "SamplingBRD"])
        if cls == "SamplingBRD" and N < 2:
            N = 2
        dist = composition(rng, N, n)
        ts = rng.choice([0, 1, 2, 6, 15])
        ps = [rng.randrange(N) for _ in range(ts)]
        eps, k = rng.choice([0.0, 0.25, 0.5, 1.0]), rng.choice([1, 2, 3])
        us = [rng.choice([0.0, 0.25, 0.5, ONE_M, rng.random()]) for _ in range(ts)]
        muts = [rng.randrange(n) for _ in range(ts)]
        samples = [[rng.randrange(n) for _ in range(k)] for _ in range(ts)]
        inp = {"class": cls, "A": A, "N": N, "init_action_dist": dist, "player_ind_seq": ps, "eps": eps, "k": k, "hardening": True}

        def mk(Av=None, Nv=None, epsv=None, kv=None):
            Av = np.array(A, dtype=np.float64) if Av is None else Av
            Nv = N if Nv is None else Nv
            if cls == "BRD":
                return BRD(Av, Nv)
            if cls == "KMR":
                return KMR(Av, Nv, epsilon=eps if epsv is None else epsv)
            return SamplingBRD(Av, Nv, k=k if kv is None else kv)

        def rs():
            return ScriptedRS(ints=ps + muts + [0] * 8, uniforms=us + [0.5] * 8, samples=samples + [[0] * k] * 4)

        okc, ref = call(ctx, inp, lambda: mk().time_series(ts, init_action_dist=np.array(dist), random_state=rs()))
        if not okc:
            continue
        ctx.case(("harden-brd", cls, A, N, dist, ps, eps, k, us, muts, samples), nontrivial=(n >= 2 and ts >= 2))
        ctx.count("degenerate:%s ts=%d N=%d n=%d" % (cls, ts, N, n) if (ts == 0 or N == 1 or n == 1) else "harden:%s" % cls)
        if ref.shape != (ts, n):
            ctx.fail("shape", "time_series does not have shape (ts_length, num_actions)", inp, list(ref.shape), [ts, n])
        for name, Av in mat_dresses(A, "payoff_matrix"):
            before = np.array(Av, copy=True)
            dv = rng.choice([list(dist), tuple(dist), np.array(dist, dtype=np.int32), np.array(dist, dtype=np.float64), np.array(dist + dist)[:n] if False else np.array(dist)])
            dist_list_before = list(dist)
            okc, o = call(ctx, dict(inp, dress=name), lambda: mk(Av, rng.choice(NPI)(N), None if cls != "KMR" else rng.choice([float, np.float64])(eps),   # not float32: `u < np.float32(eps)` compares in float32 (NumPy 2 weak scalars)
                                                                 None if cls != "SamplingBRD" else rng.choice(NPI)(k)).time_series(
                rng.choice(NPI)(ts), init_action_dist=dv, random_state=rs()))
            if okc and not same(o, ref):
                ctx.fail("dress", "time_series with the payoff matrix as %s / NumPy scalars / init_action_dist as %s differs from the canonical call" % (name, type(dv).__name__),
                         dict(inp, dress=name), np.asarray(o).tolist()[:6], ref.tolist()[:6])
            if not np.array_equal(before, np.array(Av)) or (isinstance(dv, (list, tuple)) and list(dv) != dist_list_before):
                ctx.fail("mutation", "the dynamics modified its payoff matrix or a list/tuple init_action_dist", dict(inp, dress=name), None, None)
        # one object reused; attribute re-assignment; another object alive
        obj = mk(epsv=0.75, kv=k + 1)
        other = BRD(gen_payoff(rng, n + 1), N + 1)
        for step in range(3):
            other.time_series(3, init_action_dist=np.array([N + 1] + [0] * n), random_state=ScriptedRS(ints=[0] * 8))
            if cls == "KMR":
                obj.epsilon = eps
                ctx.count("seq:reassign epsilon")
            elif cls == "SamplingBRD":
                obj.k = k
                ctx.count("seq:reassign k")
            else:
                ctx.count("seq:reuse BRD")
            okc, o = call(ctx, dict(inp, sequence=step), lambda: obj.time_series(ts, init_action_dist=np.array(dist), random_state=rs()))
            if okc and not same(o, ref):
                ctx.fail("stale_state", "a reused dynamics object (attributes re-assigned, another object alive) differs from a fresh one", dict(inp, sequence=step),
                         np.asarray(o).tolist()[:6], ref.tolist()[:6])
            if okc:
                o[...] = -3
        # optional arguments: tol / tie_breaking omitted vs explicit defaults
        okc, o = call(ctx, dict(inp, optional="explicit defaults"), lambda: mk().time_series(ts, init_action_dist=np.array(dist), tol=None, tie_breaking="smallest", random_state=rs()))
        ctx.count("optional:tol=None,tie_breaking='smallest' explicit")
        if okc and not same(o, ref):
            ctx.fail("optional_argument", "explicit tol=None / tie_breaking='smallest' differs from omitting them", inp, np.asarray(o).tolist()[:6], ref.tolist()[:6])
    # tol=0 crossed with near-ties (gap 1e-9 < default tol 1e-8): default treats them as ties (smallest index), tol=0 does not
    for it in range(24 if thorough else 10):
        n = rng.choice([2, 3])
        j = rng.randrange(1, n)
        A = [[0.0] * n for _ in range(n)]
        for a in range(n):
            for b in range(n):
                A[a][b] = 1.0 + (rng.choice([1e-9, 5e-9]) if a == j else 0.0)
        N = 2          # one opponent: the payoff-vector gap equals the matrix gap (1e-9 or 5e-9, below the default tol 1e-8)
        dist = composition(rng, N, n)
        p = rng.randrange(N)
        act = [i for i in range(n) for _ in range(dist[i])][p]
        for tolv, want in ((None, 0), (0, j), (0.0, j), (1e-8, 0)):
            ctx.count("optional:tol=%r near-tie" % (tolv,))
            inp = {"class": "BRD", "A": A, "N": N, "init_action_dist": dist, "player_ind_seq": [p], "tol": tolv, "hardening": "near-tie"}
            kw = {} if tolv is None else {"tol": tolv}
            okc, o = call(ctx, inp, lambda: BRD(A, N).play(act, np.array(dist, dtype=float), **kw))
            exp = list(dist)
            exp[act] -= 1
            exp[want] += 1
            ctx.case(("near-tie", A, N, dist, p, tolv), nontrivial=True)
            if okc and [int(x) for x in o] != exp:
                ctx.fail("tolerance", "best response with tol=%r on payoffs 1e-9 apart is not the documented one" % (tolv,), inp, [int(x) for x in o], exp)
        # tie_breaking='random': the revising player must end on SOME best response (up to tol); equal seeds equal results
        sd = rng.randrange(2 ** 31)
        okc, o = call(ctx, {"class": "BRD", "A": A, "tie_breaking": "random"}, lambda: BRD(A, N).play(act, np.array(dist, dtype=float), tie_breaking="random", random_state=sd))
        ctx.count("optional:tie_breaking='random'")
        if okc:
            rest = list(dist)
            rest[act] -= 1
            got = [int(x) - r for x, r in zip(o, rest)]
            if sorted(got) != [0] * (n - 1) + [1]:
                ctx.fail("brd_invariant", "play with random tie-breaking does not add exactly one player", {"class": "BRD", "A": A, "init_action_dist": dist}, [int(x) for x in o], None)
    # ---------------- FictitiousPlay
    for it in range(36 if thorough else 14):
        n0, n1 = rng.choice([1, 2, 3]), rng.choice([2, 3])
        A, B = gen_payoff(rng, n0, n1), gen_payoff(rng, n1, n0)
        gain = rng.choice([None, 0.5, 0.25, 0.0, 1.0])
        ts = rng.choice([1, 2, 4, 9])
        t_init = rng.choice([0, 0, 3])
        init = (gen_belief(rng, n0, True), gen_belief(rng, n1, True))
        inp = {"class": "FictitiousPlay", "A": A, "B": B, "gain": gain, "ts": ts, "t_init": t_init, "init": init, "hardening": True}
        g = NormalFormGame((Player(np.array(A, dtype=float)), Player(np.array(B, dtype=float))))
        okc, ref = call(ctx, inp, lambda: FictitiousPlay(g, gain=gain).time_series(ts, init_actions=init, t_init=t_init))
        if not okc:
            continue
        ctx.case(("harden-fp", A, B, gain, ts, t_init, init), nontrivial=(ts >= 2))
        ctx.count("optional:gain=%r" % (gain,))
        if gain == 0.0 and any(not np.array_equal(ref[i][-1], ref[i][0]) for i in (0, 1)):
            ctx.fail("optional_argument", "gain=0.0 (falsy but valid) must leave the beliefs constant", inp, [ref[0][-1].tolist(), ref[1][-1].tolist()], None)
        dA, dB = mat_dresses(A, "payoff_array(FP)"), mat_dresses(B, "payoff_array(FP)")
        for (name, Av), (_, Bv) in zip(dA, dB):
            if name == "tuple":
                continue
            snapA = np.array(Av, copy=True)
            iv = tuple((rng.choice(NPI)(a) if isinstance(a, int) else rng.choice([list, tuple, np.array])(a)) for a in init)
            gv = NormalFormGame((Player(Av), Player(Bv)))
            okc, o = call(ctx, dict(inp, dress=name), lambda: FictitiousPlay(gv, gain=None if gain is None else rng.choice([float, np.float64])(gain)).time_series(
                rng.choice(NPI)(ts), init_actions=iv, t_init=rng.choice(NPI)(t_init)))
            if okc and any(not same(o[i], ref[i]) for i in (0, 1)):
                ctx.fail("dress", "FictitiousPlay with payoff arrays as %s / NumPy scalars / init_actions as other containers differs from the canonical call" % name,
                         dict(inp, dress=name), [o[0][-1].tolist(), o[1][-1].tolist()], [ref[0][-1].tolist(), ref[1][-1].tolist()])
            if not np.array_equal(snapA, np.array(Av)):
                ctx.fail("mutation", "FictitiousPlay modified a payoff array", dict(inp, dress=name), None, None)
        # optional: t_init omitted (when 0) / gain omitted (when None); play(num_reps) vs repeated play(1); caller-supplied out buffer
        fp = FictitiousPlay(g, gain=gain)
        if t_init == 0:
            okc, o = call(ctx, dict(inp, optional="t_init omitted"), lambda: (FictitiousPlay(g) if gain is None else FictitiousPlay(g, gain=gain)).time_series(ts, init_actions=init))
            ctx.count("optional:t_init/gain omitted")
            if okc and any(not same(o[i], ref[i]) for i in (0, 1)):
                ctx.fail("optional_argument", "omitting t_init / gain differs from passing the defaults", inp, None, None)
        if ts >= 3:
            okc, whole = call(ctx, dict(inp, call="play"), lambda: fp.play(actions=init, num_reps=ts - 1, t_init=t_init))
            cur = init
            good = okc
            for r in range(ts - 1):
                okc, cur = call(ctx, dict(inp, call="play(1) repeated"), lambda: fp.play(actions=cur, t_init=t_init + r))
                good = good and okc
                if not okc:
                    break
            ctx.count("seq:play(num_reps=k) vs k x play(1)")
            if good and any(not same(cur[i], whole[i]) or not same(whole[i], ref[i][-1]) for i in (0, 1)):
                ctx.fail("play_mismatch", "play(num_reps=k), k successive play(1) calls and row k of time_series differ", dict(inp, call="play"),
                         [np.asarray(whole[0]).tolist(), np.asarray(cur[0]).tolist()], ref[0][-1].tolist())
            buf = (np.full(n0, 7.5), np.full(n1, -3.25))
            okc, ob = call(ctx, dict(inp, call="play(out=buffer)"), lambda: fp.play(actions=init, num_reps=ts - 1, t_init=t_init, out=buf))
            ctx.count("buffer:out reused, pre-filled")
            if okc and (any(ob[i] is not buf[i] for i in (0, 1)) or any(not same(buf[i], ref[i][-1]) for i in (0, 1))):
                ctx.fail("buffer", "play(out=...) does not return / fill the caller's buffers with the same result", dict(inp, call="play(out=buffer)"), [b.tolist() for b in buf], [ref[0][-1].tolist(), ref[1][-1].tolist()])
            okc, ob2 = call(ctx, dict(inp, call="play(out=buffer) again"), lambda: fp.play(actions=init, num_reps=1, t_init=t_init, out=buf))
            if okc and any(not same(buf[i], ref[i][1]) for i in (0, 1)):
                ctx.fail("buffer", "a reused out buffer gives a different result than a fresh one", inp, [b.tolist() for b in buf], [ref[0][1].tolist(), ref[1][1].tolist()])
        for i, a in enumerate(init):
            if not isinstance(a, int) and as_vec(a, 0) != list(a):
                pass
        # init_actions omitted: random initial beliefs; invariants only; equal seeds equal histories
        sd = rng.randrange(2 ** 31)
        okc, o = call(ctx, dict(inp, optional="init_actions omitted", seed=sd), lambda: (fp.time_series(ts, random_state=sd), fp.time_series(ts, random_state=np.int64(sd))))
        ctx.count("optional:init_actions omitted")
        if okc:
            if any(not same(o[0][i], o[1][i]) for i in (0, 1)):
                ctx.fail("seed", "equal seeds (Python int / np.int64) gave different histories", dict(inp, seed=sd), None, None)
            for i in (0, 1):
                if (o[0][i] < -1e-15).any() or (abs(o[0][i].sum(axis=1) - 1) > 1e-12).any():
                    ctx.fail("fp_probability_vector", "belief is not a probability vector (random initial beliefs)", dict(inp, seed=sd), o[0][i][-1].tolist(), None)
    # ---------------- LocalInteraction
    for it in range(36 if thorough else 14):
        n, N = rng.choice([1, 2, 3]), rng.choice([1, 2, 3, 5])
        A = gen_payoff(rng, n)
        adj = [[rng.choice([0, 0, 1, 2]) for _ in range(N)] for _ in range(N)]
        prof = [rng.randrange(n) for _ in range(N)]
        rev = rng.choice(["simultaneous", "asynchronous"])
        ts = rng.choice([1, 2, 5, 9])
        seq = [rng.randrange(N) for _ in range(ts)]
        inp = {"class": "LocalInteraction", "A": A, "adj": adj, "actions": prof, "revision": rev, "player_ind_seq": seq, "ts": ts, "hardening": True}
        kw = {"player_ind_seq": seq} if rev == "asynchronous" else {}
        okc, ref = call(ctx, inp, lambda: LocalInteraction(np.array(A, dtype=float), np.array(adj)).time_series(ts, revision=rev, actions=tuple(prof), **kw))
        if not okc:
            continue
        ctx.case(("harden-li", A, adj, prof, rev, seq, ts), nontrivial=(ts >= 2 and N >= 2))
        a64 = np.array(adj, dtype=np.float64)
        adjs = [("list", adj), ("int32", a64.astype(np.int32)), ("float64", a64), ("float32", a64.astype(np.float32)), ("csr", sp.csr_matrix(a64)),
                ("csc", sp.csc_matrix(a64)), ("coo", sp.coo_matrix(a64)), ("F-order", np.asfortranarray(a64))]
        for (aname, adv), (mname, Av) in zip(adjs, mat_dresses(A, "payoff_matrix(LI)") + [("float64", np.array(A, dtype=float))]):
            ctx.count("dress:adj_matrix=%s" % aname)
            snap = adv.toarray().copy() if sp.issparse(adv) else np.array(adv, copy=True)
            pv = rng.choice([tuple, list, np.array])(prof)
            kwv = {"player_ind_seq": rng.choice([list, np.array, tuple])(seq)} if rev == "asynchronous" else {}
            okc, o = call(ctx, dict(inp, dress=aname + "/" + mname), lambda: LocalInteraction(Av, adv).time_series(rng.choice(NPI)(ts), revision=rev, actions=pv, **kwv))
            if okc and not same(o, ref):
                ctx.fail("dress", "LocalInteraction with adjacency as %s, payoffs as %s, actions/player_ind_seq in other containers differs from the canonical call" % (aname, mname),
                         dict(inp, dress=aname + "/" + mname), np.asarray(o).tolist()[:5], ref.tolist()[:5])
            now = adv.toarray() if sp.issparse(adv) else np.array(adv)
            if not np.array_equal(snap, now) or list(pv) != prof:
                ctx.fail("mutation", "LocalInteraction modified its adjacency matrix or the actions it was given", dict(inp, dress=aname), None, None)
        li = LocalInteraction(np.array(A, dtype=float), np.array(adj))
        if ts >= 3:
            if rev == "simultaneous":
                okc, whole = call(ctx, dict(inp, call="play(num_reps)"), lambda: li.play(actions=tuple(prof), num_reps=ts - 1))
            else:
                okc, whole = call(ctx, dict(inp, call="play(seq)"), lambda: li.play(revision=rev, actions=tuple(prof), player_ind_seq=seq[:ts - 1]))
            cur, good = tuple(prof), okc
            for r in range(ts - 1):
                if rev == "simultaneous":
                    okc, cur = call(ctx, dict(inp, call="play(1) repeated"), lambda: li.play(actions=cur))
                else:
                    okc, cur = call(ctx, dict(inp, call="play(1) repeated"), lambda: li.play(revision=rev, actions=cur, player_ind_seq=rng.choice(NPI)(seq[r])))
                good = good and okc
                if not okc:
                    break
            ctx.count("seq:play(num_reps=k) vs k x play(1)")
            if good and (list(cur) != [int(x) for x in ref[-1]] or [int(x) for x in whole] != [int(x) for x in ref[-1]]):
                ctx.fail("play_mismatch", "LocalInteraction.play over k periods, k successive single-period plays and row k of time_series differ",
                         dict(inp, call="play"), [list(map(int, whole)), list(map(int, cur))], ref[-1].tolist())
        okc, o = call(ctx, dict(inp, optional="explicit defaults"), lambda: li.time_series(ts, revision=rev, actions=tuple(prof), tol=None, tie_breaking="smallest", **kw))
        ctx.count("optional:LocalInteraction explicit defaults / revision omitted")
        if okc and not same(o, ref):
            ctx.fail("optional_argument", "explicit tol=None / tie_breaking='smallest' differs from omitting them", inp, None, None)
        if rev == "simultaneous":
            okc, o = call(ctx, dict(inp, optional="revision omitted"), lambda: li.time_series(ts, actions=tuple(prof)))
            if okc and not same(o, ref):
                ctx.fail("optional_argument", "omitting revision differs from revision='simultaneous'", inp, None, None)
    # ---------------- LogitDynamics
    for it in range(36 if thorough else 14):
        ns = [rng.choice([1, 2, 3]), rng.choice([2, 3])]
        A, B = gen_payoff(rng, ns[0], ns[1]), gen_payoff(rng, ns[1], ns[0])
        beta = rng.choice([0, 1, 2, 0.5])
        ts = rng.choice([1, 2, 5, 9])
        init = [rng.randrange(m) for m in ns]
        seq = [rng.randrange(2) for _ in range(ts)]
        us = [rng.choice([0.0, ONE_M, rng.random(), rng.random()]) for _ in range(ts)]
        inp = {"class": "LogitDynamics", "payoffs": [A, B], "beta": beta, "init": init, "player_ind_seq": seq, "uniforms": [u.hex() for u in us], "hardening": True}

        def game(Av=None, Bv=None):
            return NormalFormGame((Player(np.array(A, dtype=float) if Av is None else Av), Player(np.array(B, dtype=float) if Bv is None else Bv)))

        def rs(k=None):
            k = ts if k is None else k
            return ScriptedRS(ints=seq[:k] + [0] * 8, uniforms=us[:k] + [0.5] * 8)

        okc, ref = call(ctx, inp, lambda: LogitDynamics(game(), beta=float(beta)).time_series(ts, init_actions=tuple(init), random_state=rs()))
        if not okc:
            continue
        ctx.case(("harden-logit", A, B, beta, ts, init, seq, inp["uniforms"]), nontrivial=(ts >= 2))
        for (name, Av), (_, Bv) in zip(mat_dresses(A, "payoff_array(Logit)"), mat_dresses(B, "payoff_array(Logit)")):
            if name in ("tuple", "float32"):      # float32 payoffs make exp() run in float32: legitimately different weights
                continue
            snapA = np.array(Av, copy=True)
            bv = rng.choice([float, np.float64])(beta)
            if isinstance(beta, int):
                bv = rng.choice([int, np.int64, float])(beta)
            ctx.count("dress:beta=%s" % type(bv).__name__)
            okc, o = call(ctx, dict(inp, dress=name), lambda: LogitDynamics(game(Av, Bv), beta=bv).time_series(
                rng.choice(NPI)(ts), init_actions=rng.choice([tuple, list, np.array])(init), random_state=rs()))
            if okc and not same(o, ref):
                ctx.fail("dress", "LogitDynamics with payoffs as %s / beta as %s / NumPy ts_length differs from the canonical call" % (name, type(bv).__name__),
                         dict(inp, dress=name), np.asarray(o).tolist()[:5], ref.tolist()[:5])
            if not np.array_equal(snapA, np.array(Av)):
                ctx.fail("mutation", "LogitDynamics modified a payoff array", dict(inp, dress=name), None, None)
        ld = LogitDynamics(game(), beta=float(beta))
        # several objects alive (different games), reuse, play(num_reps=k) vs k x play(1)
        other = LogitDynamics(NormalFormGame((Player(gen_payoff(rng, 2, 2)), Player(gen_payoff(rng, 2, 2)))), beta=7.0)
        other.time_series(3, init_actions=(0, 1), random_state=ScriptedRS(ints=[0, 1, 0], uniforms=[0.2, 0.9, 0.4]))
        okc, o = call(ctx, dict(inp, sequence="reuse"), lambda: (ld.time_series(ts, init_actions=tuple(init), random_state=rs()), ld.time_series(ts, init_actions=tuple(init), random_state=rs())))
        ctx.count("seq:LogitDynamics reused, other object alive")
        if okc and (not same(o[0], ref) or not same(o[1], ref)):
            ctx.fail("stale_state", "a reused LogitDynamics object (another dynamics alive) differs from a fresh one", dict(inp, sequence="reuse"), None, None)
        if ts >= 3:
            kk = ts - 1
            okc, whole = call(ctx, dict(inp, call="play(num_reps)"), lambda: ld.play(init_actions=tuple(init), num_reps=rng.choice(NPI)(kk), random_state=rs(kk)))
            cur, good = tuple(init), okc
            for r in range(kk):
                okc, cur = call(ctx, dict(inp, call="play(1) repeated"), lambda: ld.play(init_actions=cur, player_ind_seq=rng.choice(NPI)(seq[r]), random_state=ScriptedRS(uniforms=[us[r], 0.5])))
                good = good and okc
                if not okc:
                    break
            ctx.count("seq:play(num_reps=k) vs k x play(1)")
            if good and ([int(x) for x in cur] != [int(x) for x in ref[kk]] or [int(x) for x in whole] != [int(x) for x in ref[kk]]):
                ctx.fail("play_mismatch", "LogitDynamics.play(num_reps=k), k successive single plays and row k of time_series differ", dict(inp, call="play"),
                         [list(map(int, whole)), list(map(int, cur))], ref[kk].tolist())
        okc, o = call(ctx, dict(inp, optional="beta omitted"), lambda: (LogitDynamics(game()).time_series(ts, init_actions=tuple(init), random_state=rs()),
                                                                     LogitDynamics(game(), beta=1.0).time_series(ts, init_actions=tuple(init), random_state=rs())))
        ctx.count("optional:beta omitted (=1.0)")
        if okc and not same(o[0], o[1]):
            ctx.fail("optional_argument", "LogitDynamics without beta differs from beta=1.0", inp, None, None)
    # two LogitDynamics objects on the SAME game: the first must keep its own beta
    g = NormalFormGame((Player([[4, 0], [3, 2]]), Player([[4, 0], [3, 2]])))
    ld1 = LogitDynamics(g, beta=0.0)
    st = [rng.random() for _ in range(30)]
    sq = [rng.randrange(2) for _ in range(30)]
    a = ld1.time_series(30, init_actions=(0, 0), random_state=ScriptedRS(ints=sq + [0] * 4, uniforms=st + [0.5] * 4))
    LogitDynamics(g, beta=50.0)
    b = ld1.time_series(30, init_actions=(0, 0), random_state=ScriptedRS(ints=sq + [0] * 4, uniforms=st + [0.5] * 4))
    ctx.case(("logit-shared-game",), nontrivial=True)
    ctx.count("seq:two LogitDynamics on one game")
    if not same(a, b):
        ctx.fail("logit_shared_game", "a LogitDynamics object changes behaviour when another LogitDynamics with a different beta is created on the same game "
                 "(choice weights are stored on the shared Player objects)",
                 {"class": "LogitDynamics", "shared_game": True, "payoffs": [[4, 0], [3, 2]], "beta_first": 0.0, "beta_second": 50.0, "uniforms": [u.hex() for u in st], "player_ind_seq": sq},
                 b.ravel().tolist()[:20], a.ravel().tolist()[:20])


# ------------------------------------------------------------------ result aliasing across calls
class Keeper:
    """KEEP-AND-RECHECK: every returned array is kept uncopied next to a deep copy; after later calls the kept array must
    still equal its copy; results of different calls must not share memory with each other or with arguments/attributes."""

    def __init__(self, ctx):
        self.ctx, self.items = ctx, []

    def keep(self, what, arr, inp, against=()):
        arrs = [a for a in (arr if isinstance(arr, (tuple, list)) else [arr]) if isinstance(a, np.ndarray)]
        for a in arrs:
            for name, other in against:
                if isinstance(other, np.ndarray) and a.size and other.size and np.shares_memory(a, other):
                    self.ctx.fail("result_aliases_internal_state", "%s shares memory with %s" % (what, name), inp, None, None)
            for w2, a2, _, _ in self.items:
                if a.size and a2.size and np.shares_memory(a, a2):
                    self.ctx.fail("result_overwritten_by_later_call", "%s shares memory with the result of an earlier call (%s)" % (what, w2), inp, None, None)
            self.items.append((what, a, a.copy(), inp))
            self.ctx.count("alias:kept results")

    def recheck(self):
        for what, a, c, inp in self.items:
            if a.shape != c.shape or not np.array_equal(a, c):
                self.ctx.fail("result_overwritten_by_later_call", "%s, kept by the caller, was changed by a later call" % what, inp, a.tolist()[:4], c.tolist()[:4])
                break
        self.items = []


def scribble(a):
    """overwrite a returned array in place with garbage (after the caller has copied what it needs)"""
    for x in (a if isinstance(a, (tuple, list)) else [a]):
        if isinstance(x, np.ndarray) and x.size and x.flags.writeable:
            x[...] = -9 if x.dtype.kind in "iu" else (7.25 if x.dtype.kind == "f" else x.flat[0])


def alias_audit(ctx, thorough):
    """every entry point that returns arrays: same-shaped calls repeated on ONE object with other seeds/inputs; kept results must
    survive, scribbled results must not matter, results must not share memory with each other / arguments / attributes"""
    from quantecon.game_theory import BRD, KMR, SamplingBRD, FictitiousPlay, LocalInteraction, LogitDynamics, NormalFormGame, Player
    rng = ctx.rng
    for it in range(30 if thorough else 10):
        n, N = rng.choice([2, 3]), rng.choice([3, 5])
        A = np.array(gen_payoff(rng, n), dtype=float)
        Bm = np.array(gen_payoff(rng, n), dtype=float)
        adj = np.array([[rng.choice([0, 1, 2]) for _ in range(N)] for _ in range(N)])
        ts = rng.choice([3, 6])
        g = NormalFormGame((Player(A.copy()), Player(Bm.copy())))
        objs = {"BRD": BRD(A, N), "KMR": KMR(A, N, epsilon=0.3), "SamplingBRD": SamplingBRD(A, N, k=2), "FictitiousPlay": FictitiousPlay(g),
                "LocalInteraction": LocalInteraction(A, adj), "LogitDynamics": LogitDynamics(g, beta=1.0)}
        fresh = {"BRD": lambda: BRD(A.copy(), N), "KMR": lambda: KMR(A.copy(), N, epsilon=0.3), "SamplingBRD": lambda: SamplingBRD(A.copy(), N, k=2),
                 "FictitiousPlay": lambda: FictitiousPlay(NormalFormGame((Player(A.copy()), Player(Bm.copy())))),
                 "LocalInteraction": lambda: LocalInteraction(A.copy(), adj.copy()),
                 "LogitDynamics": lambda: LogitDynamics(NormalFormGame((Player(A.copy()), Player(Bm.copy()))), beta=1.0)}
        snapA, snapB, snapAdj = A.copy(), Bm.copy(), adj.copy()
        ctx.case(("alias", A.tolist(), Bm.tolist(), adj.tolist(), N, ts), nontrivial=True)
        for cls, obj in objs.items():
            K = Keeper(ctx)
            for rep in range(4):
                seed = rng.randrange(2 ** 31)
                inp = {"class": cls, "A": A.tolist(), "B": Bm.tolist(), "adj": adj.tolist(), "N": N, "ts": ts, "seed": seed, "call": rep, "aliasing_audit": True}

                def run(o):
                    if cls in ("BRD", "KMR", "SamplingBRD"):
                        d0 = np.array(composition(np.random.RandomState(seed), N, n) if False else [N] + [0] * (n - 1), dtype=float)
                        return o.time_series(ts, init_action_dist=d0, random_state=seed), d0
                    if cls == "FictitiousPlay":
                        ia = (np.array([1.0] + [0.0] * (n - 1)), np.array([0.0] * (n - 1) + [1.0]))
                        r = o.time_series(ts, init_actions=ia, t_init=seed % 3)
                        pl = o.play(actions=ia, num_reps=2, t_init=seed % 3)
                        return tuple(r) + tuple(pl), ia
                    if cls == "LocalInteraction":
                        return o.time_series(ts, revision="asynchronous", actions=tuple([seed % n] * N), random_state=seed), None
                    return o.time_series(ts, init_actions=(seed % n, 0), random_state=seed), None
                try:
                    res, arg = run(obj)
                    ref, _ = run(fresh[cls]())
                except Exception as e:
                    ctx.fail("exception", "%s raised %s on a valid input" % (cls, type(e).__name__), inp, repr(e)[:200], None)
                    break
                rl = list(res) if isinstance(res, tuple) else [res]
                fl = list(ref) if isinstance(ref, tuple) else [ref]
                if any(not np.array_equal(x, y) for x, y in zip(rl, fl)):
                    ctx.fail("result_aliases_internal_state", "%s on a reused object (earlier results scribbled on) differs from a fresh object" % cls, inp,
                             np.asarray(rl[0]).tolist()[:3], np.asarray(fl[0]).tolist()[:3])
                against = [("payoff matrix", A), ("payoff matrix B", Bm), ("adjacency", adj)]
                if cls == "FictitiousPlay":
                    against += [("init_actions[0]", arg[0]), ("init_actions[1]", arg[1])] + [("Player.payoff_array", pp.payoff_array) for pp in obj.players]
                if cls == "LogitDynamics":
                    against += [("logit_choice_cdfs", c) for c in obj.logit_choice_cdfs()]
                if cls in ("BRD", "KMR", "SamplingBRD"):
                    against += [("Player.payoff_array", obj.player.payoff_array)]
                K.keep("%s result #%d" % (cls, rep), tuple(rl), inp, against)
                if rep % 2 == 1:
                    K.recheck()
                    scribble(rl)
                    ctx.count("alias:scribbled results")
            K.recheck()
        if not (np.array_equal(A, snapA) and np.array_equal(Bm, snapB) and np.array_equal(adj, snapAdj)):
            ctx.fail("mutation", "a payoff or adjacency matrix changed along the sequences", {"A": snapA.tolist()}, None, None)
        # logit_choice_cdfs(): the table handed out must not be what later plays rely on after the caller edits a COPY-free view?  It is the
        # documented internal table: only check that playing does not change it.
        ld = objs["LogitDynamics"]
        tab = [c.copy() for c in ld.logit_choice_cdfs()]
        ld.time_series(5, init_actions=(0, 0), random_state=1)
        if any(not np.array_equal(x, y) for x, y in zip(tab, ld.logit_choice_cdfs())):
            ctx.fail("mutation", "LogitDynamics changed its logit_choice_cdfs while playing", {"class": "LogitDynamics", "A": A.tolist()}, None, None)



FLOAT_AXIOMS = ("FloatAxioms.Prim2SF_valid", "FloatAxioms.SF2Prim_Prim2SF", "FloatAxioms.Prim2SF_SF2Prim", "FloatAxioms.ltb_spec",
                "FloatAxioms.leb_spec", "FloatAxioms.add_spec", "FloatAxioms.mul_spec", "FloatAxioms.eqb_spec", "FloatAxioms.compare_spec",
                "ClassicalDedekindReals.sig_forall_dec", "ClassicalDedekindReals.sig_not_dec", "Classical_Prop.classic",
                "FunctionalExtensionality.functional_extensionality_dep")
# further axioms of the LOADED library Coq.Floats.FloatAxioms (specifications of primitive operations that no C10/C20 theorem
# uses; coqchk -o lists the axioms of every loaded library, Print Assumptions only those a theorem depends on)
FLOAT_LIB_AXIOMS = tuple("FloatAxioms." + n for n in (
    "of_uint63_spec", "div_spec", "sub_spec", "Leibniz.eqb_spec", "frshiftexp_spec", "next_down_spec", "compare_spec", "ldshiftexp_spec",
    "opp_spec", "next_up_spec", "abs_spec", "sqrt_spec", "classify_spec", "eqb_spec", "normfr_mantissa_spec"))


def run(ctx):
    thorough = ctx.tier == "thorough"
    # PropsFloat.v: binary64 instances through Flocq; they rest on the standard library's specification of the primitive
    # float operations (FloatAxioms) and on the classical reals, each axiom named in the evidence
    ctx.proofs(["C20/Props.v", "C20/PropsFloat.v"], extra_axioms=FLOAT_AXIOMS + FLOAT_LIB_AXIOMS)
    ctx.assumptions += ["axioms used only by *PropsFloat.v: " + ", ".join(FLOAT_AXIOMS),
                        "axioms of the loaded library FloatAxioms not used by any theorem (listed by coqchk -o): " + ", ".join(FLOAT_LIB_AXIOMS)]
    ctx.trusted += ["float fact used by C20_logit_range: for the cumulative weights c = cdf[-1] of the game and 0 <= u < 1, not (c <= u*c) "
                    "(hypothesis of the generic theorem; proved for Q in Props.v and for binary64 in PropsFloat.v through Flocq: FloatAxioms.*, classical reals)",
                    "NumPy searchsorted(side='right') modelled by its specification on sorted arrays; exp() values are read from the object"]
    import time
    t0 = time.time()

    def lap(name):
        nonlocal t0
        ctx.notes.append("%s: %.1fs" % (name, time.time() - t0))
        if os.environ.get("VERIF_TIMING"):
            print("  [timing] %s %.1fs" % (name, time.time() - t0))
        t0 = time.time()
    brd_family(ctx, thorough)
    lap("BRD/KMR/SamplingBRD")
    fcases, fmeta = fict_play(ctx, thorough)
    lap("FictitiousPlay (Q)")
    fict_play_float(ctx, fcases, fmeta)
    fict_play_three(ctx, thorough)
    lap("FictitiousPlay (float, three players)")
    local_interaction(ctx, thorough)
    lap("LocalInteraction")
    logit_dynamics(ctx, thorough)
    lap("LogitDynamics")
    harden(ctx, thorough)
    alias_audit(ctx, thorough)
    lap("hardening + aliasing audit")


def replay(data):
    first = data.get("first") or (data.get("mismatches") or [{}])[0]
    inp = first.get("input", {})
    print("replay:", json.dumps(first)[:1500])
    try:
        from quantecon.game_theory import BRD, KMR, SamplingBRD, LocalInteraction
        cls = inp.get("class")
        if cls in ("BRD", "KMR", "SamplingBRD") and "player_ind_seq" in inp:
            n = len(inp["A"])
            ps = inp["player_ind_seq"]
            if cls == "BRD":
                dyn, rs = BRD(inp["A"], inp["N"]), ScriptedRS(ints=ps)
            elif cls == "KMR":
                muts = [r for u, r in zip(inp["us"], inp["rs"]) if u < inp["eps"] and n > 1]
                dyn, rs = KMR(inp["A"], inp["N"], epsilon=inp["eps"]), ScriptedRS(ints=ps + muts, uniforms=inp["us"])
            else:
                dyn, rs = SamplingBRD(inp["A"], inp["N"], k=inp["k"]), ScriptedRS(ints=ps, samples=inp["samples"])
            opts = {} if inp.get("tol") is None else {"tol": inp["tol"]}
            print("implementation now returns:", dyn.time_series(len(ps), init_action_dist=np.array(inp["init_action_dist"]), random_state=rs, **opts).tolist()[:12])
        elif cls == "LocalInteraction" and "actions" in inp:
            li = LocalInteraction(inp["A"], np.array(inp["adj"]))
            kw = {} if inp.get("tol") is None else {"tol": inp["tol"]}
            if inp["revision"] == "asynchronous":
                kw["player_ind_seq"] = inp["player_ind_seq"]
            print("implementation now returns:", li.time_series(inp["ts"], revision=inp["revision"], actions=tuple(inp["actions"]), **kw).tolist()[:12])
    except Exception as e:
        print("replay failed:", repr(e))
    return 0

"""C04: linprog_simplex / minmax -- correct status and certified optimal primal-dual pair.

Correspondence: coq/C04/Model.v (NumQ instance, source tolerances from Gen/Consts.v) is evaluated inside Coq on the
same LPs / matrices; status, success, num_iter compared exactly, x, lambd, fun (v, x, y) within 1e-9.
Oracle (independent, fractions.Fraction): brute-force basic-solution enumeration decides optimal / infeasible /
unbounded and the optimal value; certificate check on the returned x, lambd, fun (primal feasible, dual feasible,
c.x = fun = b.lambd); for minmax: x, y probability vectors with min_j (x'A)_j = v = max_i (A y)_i."""
import itertools
import numpy as np
from common import *

IMPORTS = "From QE Require Import Base.Pivot C04.Model C04.Proofs C04.ProofsMM2 C04.Sep Gen.Consts."
PREAMBLE = """
Definition opts : @PivOptions Q := {| fea_tol := lp_FEA_TOL; tol_piv := lp_TOL_PIV; tol_ratio_diff := lp_TOL_RATIO_DIFF |}.
Definition optsF : @PivOptions float := {| fea_tol := lp_FEA_TOL_f; tol_piv := lp_TOL_PIV_f; tol_ratio_diff := lp_TOL_RATIO_DIFF_f |}.
Definition optsF0 : @PivOptions float := {| fea_tol := 0%float; tol_piv := 0%float; tol_ratio_diff := 0%float |}.
Definition tolc : Q := (1 # 1000000000).
Definition LPQ : Type := (list Q * nat * nat * list (list Q) * list Q * list (list Q) * list Q * nat * (list Q * list Q * Q * bool * nat * nat))%type.
(* strict: the exact-arithmetic run follows the same path as the float run *)
Definition lp_ok (o : @PivOptions Q) (c : LPQ) : bool :=
  let '(cv, m, k, Aub, bub, Aeq, beq, mi, (x, lam, fn, su, st, ni)) := c in
  let '(x', lam', fn', su', st', ni') := linprog_simplex cv m k Aub bub Aeq beq mi o in
  Bool.eqb su su' && Nat.eqb st st' && Nat.eqb ni ni' &&
  Qs_close tolc x' x && Qs_close tolc lam' lam && Qclose tolc fn' fn.
(* weak: path-independent outputs only (status; optimal value on success) *)
Definition lp_ok_weak (o : @PivOptions Q) (c : LPQ) : bool :=
  let '(cv, m, k, Aub, bub, Aeq, beq, mi, (x, lam, fn, su, st, ni)) := c in
  let '(x', lam', fn', su', st', ni') := linprog_simplex cv m k Aub bub Aeq beq mi o in
  Bool.eqb su su' && Nat.eqb st st' && (if su then Qclose tolc fn' fn else true).
(* bit-exact: the binary64 instance of the same model text *)
Definition LPF : Type := (list float * nat * nat * list (list float) * list float * list (list float) * list float * nat * (list float * list float * float * bool * nat * nat))%type.
Definition lp_okF (c : LPF) : bool :=
  let '(cv, m, k, Aub, bub, Aeq, beq, mi, (x, lam, fn, su, st, ni)) := c in
  let '(x', lam', fn', su', st', ni') := linprog_simplex cv m k Aub bub Aeq beq mi optsF in
  Bool.eqb su su' && Nat.eqb st st' && Nat.eqb ni ni' && Fs_eqb x' x && Fs_eqb lam' lam && PrimFloat.eqb fn' fn.
Definition lp_okF0 (c : LPF) : bool :=
  let '(cv, m, k, Aub, bub, Aeq, beq, mi, (x, lam, fn, su, st, ni)) := c in
  let '(x', lam', fn', su', st', ni') := linprog_simplex cv m k Aub bub Aeq beq mi optsF0 in
  Bool.eqb su su' && Nat.eqb st st' && Nat.eqb ni ni' && Fs_eqb x' x && Fs_eqb lam' lam && PrimFloat.eqb fn' fn.
Definition MMQ : Type := (nat * nat * list (list Q) * nat * (Q * list Q * list Q))%type.
Definition mm_ok (o : @PivOptions Q) (c : MMQ) : bool :=
  let '(m, n, A, mi, (v, x, y)) := c in let '(v', x', y') := minmax m n A mi o in
  Qclose tolc v' v && Qs_close tolc x' x && Qs_close tolc y' y.
Definition mm_ok_weak (o : @PivOptions Q) (c : MMQ) : bool :=
  let '(m, n, A, mi, (v, x, y)) := c in let '(v', x', y') := minmax m n A mi o in Qclose (1 # 1000000) v' v.
Definition MMF : Type := (nat * nat * list (list float) * nat * (float * list float * list float))%type.
Definition mm_okF (c : MMF) : bool :=
  let '(m, n, A, mi, (v, x, y)) := c in let '(v', x', y') := minmax m n A mi optsF in
  PrimFloat.eqb v' v && Fs_eqb x' x && Fs_eqb y' y.
"""
FINISH = dict(level="proof", technique_note=(
    "Coq theorems (coq/C04/Props.v) about the executable model coq/C04/Model.v + Base/Pivot.v; the model is tied to "
    "/repo by evaluating it with vm_compute (exact Q arithmetic, tolerances re-read from the source) on the LPs the "
    "implementation solved; independent Fraction oracle (basic-solution enumeration for status/optimum, certificate "
    "check on x, lambd, fun; saddle-point check for minmax). non-trivial = LP with >=2 variables and >=2 constraint "
    "rows, matrix game with >=2 rows and columns"))
TOL = Fraction(1, 10**9)


# ---------------------------------------------------------------- exact oracle
def rref(A):
    """reduced row echelon form over Fractions; returns (R, pivot columns)"""
    A = [list(r) for r in A]
    rows = len(A)
    cols = len(A[0]) if A else 0
    piv = []
    r = 0
    for c in range(cols):
        if r == rows:
            break
        p = next((i for i in range(r, rows) if A[i][c] != 0), None)
        if p is None:
            continue
        A[r], A[p] = A[p], A[r]
        inv = 1 / A[r][c]
        A[r] = [a * inv for a in A[r]]
        for i in range(rows):
            if i != r and A[i][c] != 0:
                f = A[i][c]
                A[i] = [a - f * b for a, b in zip(A[i], A[r])]
        piv.append(c)
        r += 1
    return A, piv


def basic_solutions(A, b):
    """all basic feasible solutions of {u >= 0 : A u = b} (A: rows x N, Fractions). Returns None if the equations
    are inconsistent, else a list (possibly empty) of vertices."""
    N = len(A[0]) if A else 0
    R, piv = rref([list(A[i]) + [b[i]] for i in range(len(A))])
    if N in piv:
        return None
    rk = len(piv)
    R = [r for r in R[:rk]]
    if rk == 0:
        return [[Fraction(0)] * N]
    out = []
    for B in itertools.combinations(range(N), rk):
        S, p2 = rref([[R[i][j] for j in B] + [R[i][N]] for i in range(rk)])
        if len(p2) < rk or rk in p2:
            continue
        u = [Fraction(0)] * N
        ok = True
        for i in range(rk):
            if S[i][rk] < 0:
                ok = False
                break
            u[B[i]] = S[i][rk]
        if ok:
            out.append(u)
    return out


def lp_exact(c, A_ub, b_ub, A_eq, b_eq):
    """exact classification of max c.x s.t. A_ub x <= b_ub, A_eq x = b_eq, x >= 0:
    (0, optimum) / (2, None) infeasible / (3, None) unbounded -- by enumeration of basic solutions"""
    n, m, k = len(c), len(A_ub), len(A_eq)
    A = [list(A_ub[i]) + [Fraction(1 if j == i else 0) for j in range(m)] for i in range(m)] + \
        [list(A_eq[i]) + [Fraction(0)] * m for i in range(k)]
    b = list(b_ub) + list(b_eq)
    cc = list(c) + [Fraction(0)] * m
    verts = basic_solutions(A, b)
    if not verts:
        return 2, None
    # recession cone {d >= 0, A d = 0}: improving ray iff max c.d over its normalised section sum(d)=1 is > 0
    rays = basic_solutions(A + [[Fraction(1)] * (n + m)], [Fraction(0)] * (m + k) + [Fraction(1)])
    if rays and max(sum(a * x for a, x in zip(cc, d)) for d in rays) > 0:
        return 3, None
    return 0, max(sum(a * x for a, x in zip(cc, u)) for u in verts)


def certificate(lp, x, lambd, fun):
    """primal feasible, dual feasible (lambd >= 0 on inequality rows, A' lambd >= c), c.x = fun = b.lambd;
    x, lambd, fun: exact values of the returned floats. Returns None or the violated condition."""
    c, A_ub, b_ub, A_eq, b_eq = lp["c"], lp["A_ub"], lp["b_ub"], lp["A_eq"], lp["b_eq"]
    n, m, k = len(c), len(A_ub), len(A_eq)
    tol = TOL * (1 + max([abs(v) for v in x] + [abs(v) for v in lambd] + [abs(fun)])) * 10
    if any(v < -tol for v in x):
        return "x has a negative component"
    for i in range(m):
        if sum(A_ub[i][j] * x[j] for j in range(n)) > b_ub[i] + tol:
            return "A_ub x <= b_ub violated in row %d" % i
    for i in range(k):
        if abs(sum(A_eq[i][j] * x[j] for j in range(n)) - b_eq[i]) > tol:
            return "A_eq x = b_eq violated in row %d" % i
    if any(lambd[i] < -tol for i in range(m)):
        return "lambd negative on an inequality row"
    A = list(A_ub) + list(A_eq)
    for j in range(n):
        if sum(A[i][j] * lambd[i] for i in range(m + k)) < c[j] - tol:
            return "dual infeasible: (A' lambd)_%d < c_%d" % (j, j)
    cx = sum(a * v for a, v in zip(c, x))
    bl = sum(a * v for a, v in zip(list(b_ub) + list(b_eq), lambd))
    if abs(cx - fun) > tol or abs(bl - fun) > tol:
        return "c.x = %g, fun = %g, b.lambd = %g are not equal" % (float(cx), float(fun), float(bl))
    return None


# ---------------------------------------------------------------- LP generators
def rint(rng, lo=-3, hi=3):
    return Fraction(rng.randrange(lo, hi + 1))


def gen_lp(rng, shape_nmk=None):
    n = rng.choice([1, 2, 2, 3, 3, 4, 4, 5, 6])
    L = rng.choice([1, 2, 2, 3, 3, 4, 5])
    shape = rng.randrange(6)
    m = L if shape == 0 else 0 if shape == 1 else rng.randrange(0, L + 1)
    k = L - m
    if shape_nmk is not None:
        n, m, k = shape_nmk
        L = m + k
    style = rng.randrange(10)
    posA = style in (0, 1)            # mostly bounded feasible
    A = [[rint(rng, 0 if posA else -3, 3) for _ in range(n)] for _ in range(L)]
    if style == 2:                    # sparse
        A = [[a if rng.random() < 0.5 else Fraction(0) for a in r] for r in A]
    b = [rint(rng, 0 if style in (0, 3) else -3, 3) for _ in range(L)]
    c = [rint(rng) for _ in range(n)]
    if style == 4:                    # b from a known feasible point (many equalities stay feasible)
        x0 = [Fraction(rng.randrange(0, 3)) for _ in range(n)]
        for i in range(L):
            ax = sum(A[i][j] * x0[j] for j in range(n))
            b[i] = ax + (Fraction(rng.randrange(0, 3)) if i < m else 0)
    if style == 5 and L >= 2:         # duplicated / redundant / contradictory rows
        i, j = rng.sample(range(L), 2)
        A[j] = list(A[i])
        b[j] = b[i] + rng.choice([0, 0, 1, -1])
        if L >= 3 and rng.random() < 0.5:
            t = rng.choice([x for x in range(L) if x not in (i, j)])
            A[t] = [A[i][q] + A[j][q] for q in range(n)]
            b[t] = b[i] + b[j] + rng.choice([0, 0, 1])
    if style == 6:                    # degenerate vertex at the origin
        b = [Fraction(0) if rng.random() < 0.7 else rint(rng, 0, 3) for _ in range(L)]
    if style == 7:                    # equalities consistent by construction with negative b
        x0 = [Fraction(rng.randrange(0, 3)) for _ in range(n)]
        A = [[rint(rng) for _ in range(n)] for _ in range(L)]
        b = [sum(A[i][j] * x0[j] for j in range(n)) + (Fraction(rng.randrange(0, 2)) if i < m else 0) for i in range(L)]
    mi = rng.choice([1000] * 14 + [1, 2, 3, 5])
    return dict(c=c, A_ub=A[:m], b_ub=b[:m], A_eq=A[m:], b_eq=b[m:], max_iter=mi, tag="random%d" % style)


def F(x):
    return Fraction(x)


def fixed_lps():
    q = lambda rows: [[F(x) for x in r] for r in rows]
    v = lambda xs: [F(x) for x in xs]
    out = []
    # Beale's cycling example (dyadic data) and its integer scaling
    out.append(dict(c=v(["3/4", -20, "1/2", -6]), A_ub=q([["1/4", -8, -1, 9], ["1/2", -12, "-1/2", 3], [0, 0, 1, 0]]),
                    b_ub=v([0, 0, 1]), A_eq=[], b_eq=[], tag="beale"))
    out.append(dict(c=v([3, -80, 2, -24]), A_ub=q([[1, -32, -4, 36], [1, -24, -1, 6], [0, 0, 1, 0]]),
                    b_ub=v([0, 0, 1]), A_eq=[], b_eq=[], tag="beale-int"))
    # Klee-Minty n=3
    out.append(dict(c=v([4, 2, 1]), A_ub=q([[1, 0, 0], [4, 1, 0], [8, 4, 1]]), b_ub=v([5, 25, 125]), A_eq=[], b_eq=[], tag="klee-minty"))
    # Kuhn's / Marshall-Suurballe style degenerate cycling instance
    out.append(dict(c=v([2, 3, -1, -12]), A_ub=q([[-2, -9, 1, 9], ["1/3", 1, "-1/3", -2]]), b_ub=v([0, 0]), A_eq=[], b_eq=[], tag="cycle-ms"))
    out.append(dict(c=v([10, -57, -9, -24]), A_ub=q([["1/2", "-11/2", "-5/2", 9], ["1/2", "-3/2", "-1/2", 1], [1, 0, 0, 0]]),
                    b_ub=v([0, 0, 1]), A_eq=[], b_eq=[], tag="cycle-chvatal"))
    # infeasible / unbounded / negative b / redundant equalities
    out.append(dict(c=v([1, 1]), A_ub=q([[1, 1]]), b_ub=v([-1]), A_eq=[], b_eq=[], tag="infeasible-negb"))
    out.append(dict(c=v([1, 0]), A_ub=q([[-1, 1]]), b_ub=v([2]), A_eq=[], b_eq=[], tag="unbounded"))
    out.append(dict(c=v([1, 1]), A_ub=[], b_ub=[], A_eq=q([[1, 1], [2, 2]]), b_eq=v([2, 4]), tag="redundant-eq"))
    out.append(dict(c=v([1, 1]), A_ub=[], b_ub=[], A_eq=q([[1, 1], [2, 2]]), b_eq=v([2, 5]), tag="contradictory-eq"))
    out.append(dict(c=v([1, -1]), A_ub=q([[1, 0]]), b_ub=v([3]), A_eq=q([[1, -1], [-1, 1]]), b_eq=v([-1, 1]), tag="redundant-eq-negb"))
    out.append(dict(c=v([-1, -1]), A_ub=q([[-1, -1], [-1, 0]]), b_ub=v([-2, -1]), A_eq=[], b_eq=[], tag="negb-min"))
    out.append(dict(c=v([1, 2, 3]), A_ub=q([[1, 1, 1]]), b_ub=v([0]), A_eq=q([[0, 0, 0]]), b_eq=v([0]), tag="zero-row"))
    out.append(dict(c=v([0, 0]), A_ub=q([[1, 1]]), b_ub=v([1]), A_eq=[], b_eq=[], tag="zero-objective"))
    for lp in out:
        lp["max_iter"] = 1000
    out.append(dict(out[2], max_iter=10**6, tag="klee-minty-default-max_iter"))
    return out


def run_lp(lp, pass_empty_shapes=True):
    from quantecon.optimize import linprog_simplex
    n = len(lp["c"])
    f = lambda rows, r: np.array([[float(x) for x in row] for row in rows], dtype=float).reshape(r, n)
    kw = {}
    m, k = len(lp["A_ub"]), len(lp["A_eq"])
    if m or pass_empty_shapes:
        kw.update(A_ub=f(lp["A_ub"], m), b_ub=np.array([float(x) for x in lp["b_ub"]], dtype=float))
    if k or pass_empty_shapes:
        kw.update(A_eq=f(lp["A_eq"], k), b_eq=np.array([float(x) for x in lp["b_eq"]], dtype=float))
    r = linprog_simplex(np.array([float(x) for x in lp["c"]]), max_iter=lp["max_iter"], **kw)
    return ([float(v) for v in r.x], [float(v) for v in r.lambd], float(r.fun), bool(r.success), int(r.status), int(r.num_iter))


def gen_buffer_sequences(rng, nseq):
    """call SEQUENCES: 2-4 different LPs of one shape solved with ONE set of caller-supplied output/work buffers
    (tableau, basis, x, lambd -- every optional buffer of linprog_simplex), pre-filled with garbage (7.0 / 7) and never
    cleaned between the solves.  mode 'all': all four buffers; 'xl': only x and lambd; 'tb': only tableau and basis."""
    out = []
    for sid in range(nseq):
        probe = gen_lp(rng)
        shp = (len(probe["c"]), len(probe["A_ub"]), len(probe["A_eq"]))
        mode = ["all", "all", "xl", "tb"][sid % 4]
        for pos in range(rng.randrange(2, 5)):
            lp = gen_lp(rng, shp)
            lp["max_iter"] = 1000
            lp["tag"] = "buffers-%s:%s" % (mode, lp["tag"])
            lp["buf"] = (sid, mode, pos)
            out.append(lp)
    return out


def run_lp_buffers(lp, store):
    """solve lp with the (persistent, garbage-initialised) buffers of its sequence; returns (out, problems)"""
    from quantecon.optimize import linprog_simplex
    sid, mode, pos = lp["buf"]
    n, m, k = len(lp["c"]), len(lp["A_ub"]), len(lp["A_eq"])
    L = m + k
    if sid not in store:
        store[sid] = dict(tableau=np.full((L + 1, n + m + L + 1), 7.0), basis=np.full(L, 7, dtype=np.int_),
                          x=np.full(n, 7.0), lambd=np.full(L, 7.0))
    b = store[sid]
    names = {"all": ("tableau", "basis", "x", "lambd"), "xl": ("x", "lambd"), "tb": ("tableau", "basis")}[mode]
    kw = {name: b[name] for name in names}
    f = lambda rows, r: np.array([[float(v) for v in row] for row in rows], dtype=float).reshape(r, n)
    r = linprog_simplex(np.array([float(v) for v in lp["c"]]), A_ub=f(lp["A_ub"], m), b_ub=np.array([float(v) for v in lp["b_ub"]], dtype=float),
                        A_eq=f(lp["A_eq"], k), b_eq=np.array([float(v) for v in lp["b_eq"]], dtype=float), max_iter=lp["max_iter"], **kw)
    problems = []
    if "x" in names and not (np.shares_memory(r.x, b["x"]) and np.array_equal(r.x, b["x"], equal_nan=True)):
        problems.append("res.x is not the supplied x buffer")
    if "lambd" in names and not (np.shares_memory(r.lambd, b["lambd"]) and np.array_equal(r.lambd, b["lambd"], equal_nan=True)):
        problems.append("res.lambd is not the supplied lambd buffer")
    out = ([float(v) for v in r.x], [float(v) for v in r.lambd], float(r.fun), bool(r.success), int(r.status), int(r.num_iter))
    return out, problems


def lp_input(lp):
    return {k: lp[k] for k in ("c", "A_ub", "b_ub", "A_eq", "b_eq", "max_iter", "tag")}


def lp_oracle(lp, out, exact=None):
    """list of (kind, what) property violations of the implementation's output on this LP"""
    x, lambd, fun, success, status, num_iter = out
    fails = []
    if success != (status == 0):
        fails.append(("lp_status_flag", "success flag and status disagree"))
    limited = lp["max_iter"] < 1000
    if status == 1:
        if not limited:
            fails.append(("lp_max_iter", "status 1 below a cap of %d iterations" % lp["max_iter"]))
        return fails
    if exact is None:
        exact = lp_exact(lp["c"], lp["A_ub"], lp["b_ub"], lp["A_eq"], lp["b_eq"])
    est, opt = exact
    if status != est:
        fails.append(("lp_wrong_status", "status %d reported, exact classification is %d (0 optimal, 2 infeasible, 3 unbounded)" % (status, est)))
    if status == 0:
        bad = certificate(lp, [frac(v) for v in x], [frac(v) for v in lambd], frac(fun))
        if bad:
            fails.append(("lp_certificate", "success reported but " + bad))
        if est == 0 and abs(frac(fun) - opt) > TOL * (1 + abs(opt)):
            fails.append(("lp_not_optimal", "fun = %r but the exact optimum is %s" % (fun, opt)))
    return fails


def coq_lp(lp, out, fl=False):
    """fl=False: exact rationals (Q instance); fl=True: hex float literals (binary64 instance)"""
    x, lambd, fun, su, st, ni = out
    mi = natlit(lp["max_iter"]) if lp["max_iter"] < 5000 else "(Z.to_nat %d)" % lp["max_iter"]
    if fun == -math.inf or any(v != v or abs(v) == math.inf for v in x + lambd + [fun]):
        x, lambd, fun = [], [], 0.0     # Phase 1 failed: x, lambd are uninitialised memory, fun = -inf: not compared
    if fl:
        L1, L2, lit = flist, flist2, (lambda v: flit(v) + "%float")
        conv = float
    else:
        L1, L2, lit = qlist, qlist2, qlit
        conv = frac
    return tup(L1([conv(v) for v in lp["c"]]), natlit(len(lp["A_ub"])), natlit(len(lp["A_eq"])),
               L2([[conv(v) for v in r] for r in lp["A_ub"]]), L1([conv(v) for v in lp["b_ub"]]),
               L2([[conv(v) for v in r] for r in lp["A_eq"]]), L1([conv(v) for v in lp["b_eq"]]), mi,
               tup(L1([conv(v) for v in x]), L1([conv(v) for v in lambd]), lit(conv(fun)), blit(su), natlit(st), natlit(ni)))


# ---------------------------------------------------------------- minmax
def run_minmax(A, max_iter=1000):
    from quantecon.optimize import minmax
    v, x, y = minmax(np.array([[float(a) for a in r] for r in A], dtype=float), max_iter=max_iter)
    return float(v), [float(t) for t in x], [float(t) for t in y]


def minmax_oracle(A, out, tol):
    v, x, y = out
    m, n = len(A), len(A[0])
    xf, yf, vf = [frac(t) for t in x], [frac(t) for t in y], frac(v)
    fails = []
    if any(t < -tol for t in xf) or abs(sum(xf) - 1) > tol:
        fails.append(("minmax_x_not_probability", "x = %s is not a probability vector" % x))
    if any(t < -tol for t in yf) or abs(sum(yf) - 1) > tol:
        fails.append(("minmax_y_not_probability", "y = %s is not a probability vector" % y))
    lo = min(sum(xf[i] * A[i][j] for i in range(m)) for j in range(n))
    hi = max(sum(A[i][j] * yf[j] for j in range(n)) for i in range(m))
    sc = 1 + max(abs(a) for r in A for a in r)
    if abs(lo - vf) > tol * sc or abs(hi - vf) > tol * sc:
        fails.append(("minmax_value", "min_j (x'A)_j = %g, v = %g, max_i (Ay)_i = %g are not equal" % (float(lo), v, float(hi))))
    return fails


def coq_mm(A, mi, out, fl=False):
    v, x, y = out
    if fl:
        return tup(natlit(len(A)), natlit(len(A[0])), flist2([[float(a) for a in r] for r in A]), natlit(mi),
                   tup(flit(v) + "%float", flist(x), flist(y)))
    return tup(natlit(len(A)), natlit(len(A[0])), qlist2(A), natlit(mi),
               tup(qlit(frac(v)), qlist([frac(t) for t in x]), qlist([frac(t) for t in y])))


def gen_games(rng, thorough):
    games = []
    # exhaustive 2x2 with |a|<=1 (81) / <=3 in thorough (2401); all 1xn, nx1 small
    rngv = range(-3, 4) if thorough else range(-1, 2)
    for t in itertools.product(rngv, repeat=4):
        games.append(([[F(t[0]), F(t[1])], [F(t[2]), F(t[3])]], "int-exhaustive-2x2"))
    for _ in range(1200 if thorough else 260):
        m, n = rng.randrange(1, 5), rng.randrange(1, 5)
        A = [[rint(rng) for _ in range(n)] for _ in range(m)]
        mode = rng.randrange(6)
        if mode == 0 and m >= 2:
            A[rng.randrange(m)] = list(A[rng.randrange(m)])          # duplicated row
        elif mode == 1:
            cst = rint(rng)
            A = [[cst] * n for _ in range(m)]                        # constant
        elif mode == 2:
            A = [[-abs(a) for a in r] for r in A]                    # all non-positive
        elif mode == 3 and n >= 2:
            j, j2 = rng.randrange(n), rng.randrange(n)
            for r in A:
                r[j] = r[j2]                                         # duplicated column
        games.append((A, "int<=4x4"))
    for _ in range(300 if thorough else 40):
        m, n = rng.randrange(2, 9), rng.randrange(2, 9)
        A = [[frac(round(rng.uniform(-3, 3), 3)) for _ in range(n)] for _ in range(m)]
        games.append((A, "real:mixed-sign<=8x8"))
    # real-valued families (the exact binary value of every float is what model and oracle see)
    fams = ["real:U(0,1)", "real:positive,first-column<1", "real:positive,first-column-small", "real:dyadic-positive<1",
            "real:small-denominators", "real:normal", "real:positive>1", "real:nonneg-with-zero"]
    for t in range(900 if thorough else 170):
        fam = fams[t % len(fams)]
        m, n = rng.randrange(1, 9), rng.randrange(1, 9)
        if rng.random() < 0.5:
            m, n = rng.randrange(1, 5), rng.randrange(1, 5)
        if fam == "real:U(0,1)":
            A = [[frac(rng.random() or 0.5) for _ in range(n)] for _ in range(m)]
        elif fam == "real:positive,first-column<1":
            A = [[frac(rng.uniform(0.05, 0.95)) if j == 0 else frac(rng.uniform(0.05, 5)) for j in range(n)] for _ in range(m)]
        elif fam == "real:positive,first-column-small":
            A = [[frac(rng.uniform(1e-3, 0.2)) if j == 0 else frac(round(rng.uniform(0.5, 3), 2)) for j in range(n)] for _ in range(m)]
        elif fam == "real:dyadic-positive<1":
            A = [[Fraction(rng.randrange(1, 16), 16) for _ in range(n)] for _ in range(m)]
        elif fam == "real:small-denominators":
            A = [[frac(float(Fraction(rng.randrange(1, 7), rng.choice([3, 5, 7])))) for _ in range(n)] for _ in range(m)]
        elif fam == "real:normal":
            A = [[frac(rng.gauss(0, 1)) for _ in range(n)] for _ in range(m)]
        elif fam == "real:positive>1":
            A = [[frac(rng.uniform(1.01, 4)) for _ in range(n)] for _ in range(m)]
        else:
            A = [[frac(rng.choice([0.0, rng.random(), rng.uniform(0, 3)])) for _ in range(n)] for _ in range(m)]
        games.append((A, fam))
    # fixed instances: strictly positive, first column entirely below 1 (the maximum of column 0 is not in row 0)
    for A in ([[0.5, 0.2], [0.1, 0.6]], [[0.1, 0.6], [0.5, 0.2]], [[0.2, 0.9, 0.4], [0.7, 0.1, 0.3], [0.4, 0.5, 0.8]],
              [[0.25, 0.75], [0.5, 0.125], [0.75, 0.25]], [[0.3], [0.6], [0.2]], [[0.3, 0.6, 0.2]]):
        games.append(([[frac(v) for v in r] for r in A], "real:fixed-positive,first-column<1"))
    return games



# ---------------------------------------------------------------- hardening streams (dress / optional arguments / aliasing / scaling)
ARRAY_DRESS = ["int64", "int32", "float32", "F-order", "view-stride2", "view-rows-of-larger", "list", "tuple"]


def dress_array(a, kind):
    """the same integer-valued data in another dtype / memory layout / container"""
    a = np.asarray(a, dtype=float)
    if kind in ("int64", "int32", "float32"):
        return a.astype(getattr(np, kind))
    if kind == "F-order":
        return np.asfortranarray(a)
    if kind == "view-stride2":
        big = np.full(tuple(2 * d for d in a.shape), 7.0)
        v = big[tuple(slice(None, None, 2) for _ in a.shape)]
        v[...] = a
        return v
    if kind == "view-rows-of-larger":
        big = np.full(tuple(d + 2 for d in a.shape), 7.0)
        v = big[tuple(slice(1, 1 + d) for d in a.shape)]
        v[...] = a
        return v
    if kind == "list":
        return a.tolist()
    if kind == "tuple":
        return tuple(map(tuple, a.tolist())) if a.ndim == 2 else tuple(a.tolist())
    raise ValueError(kind)


def is_typing_rejection(e):
    """numba refuses the argument types at dispatch (documented types are float ndarrays): a rejection, not a result"""
    return (type(e).__name__ in ("TypingError", "TypeError", "NumbaTypeError", "UnsupportedError")
            or (isinstance(e, ValueError) and "fingerprint" in str(e)))        # numba cannot type an empty list


def lp_arrays(lp):
    n = len(lp["c"])
    f = lambda rows, r: np.array([[float(v) for v in row] for row in rows], dtype=float).reshape(r, n)
    return dict(c=np.array([float(v) for v in lp["c"]]), A_ub=f(lp["A_ub"], len(lp["A_ub"])), b_ub=np.array([float(v) for v in lp["b_ub"]], dtype=float),
                A_eq=f(lp["A_eq"], len(lp["A_eq"])), b_eq=np.array([float(v) for v in lp["b_eq"]], dtype=float))


def lp_out(r):
    return ([float(v) for v in r.x], [float(v) for v in r.lambd], float(r.fun), bool(r.success), int(r.status), int(r.num_iter))


def same_lp_out(a, b):
    return a[2:] == b[2:] and (b[2] == -math.inf or (a[0] == b[0] and a[1] == b[1]))


def lp_hardening(ctx, lps, outs, thorough):
    """classes 1, 3, 4, 5, 6 of the hardening audit for linprog_simplex; canonical result = outs[i] (already compared with the models)."""
    from quantecon.optimize import linprog_simplex
    from quantecon.optimize.linprog_simplex import PivOptions, FEA_TOL, TOL_PIV, TOL_RATIO_DIFF
    rng = ctx.rng
    pool = [i for i, lp in enumerate(lps) if "buf" not in lp and lp["max_iter"] == 1000 and lp["tag"].startswith("random")
            and all(Fraction(v).denominator == 1 for v in lp["c"] + lp["b_ub"] + lp["b_eq"] + [a for r in lp["A_ub"] + lp["A_eq"] for a in r])]
    per = 6 if thorough else 2
    zero_cases = []

    def call(i, what, label, **kw):
        """one dressed call; compares with the canonical result, checks non-mutation and aliasing"""
        lp = lps[i]
        args = lp_arrays(lp)
        args.update(what)
        snap = {k: (np.array(v, copy=True) if isinstance(v, np.ndarray) else v) for k, v in args.items()}
        ctx.count(label)
        ctx.case(("lp-hardening", label, i), nontrivial=False)
        try:
            r = linprog_simplex(args["c"], A_ub=args["A_ub"], b_ub=args["b_ub"], A_eq=args["A_eq"], b_eq=args["b_eq"],
                                **dict(dict(max_iter=1000), **kw))
        except Exception as e:
            if is_typing_rejection(e):
                ctx.count(label + ":rejected(TypingError)")
                return None
            ctx.fail("lp_exception", "linprog_simplex raised %s on a valid input (%s)" % (repr(e)[:200], label), dict(lp_input(lp), dress=label), repr(e)[:200], None)
            return None
        out = lp_out(r)
        for k, v in args.items():
            if isinstance(v, np.ndarray):
                if not (v.dtype == snap[k].dtype and np.array_equal(v, snap[k])):
                    ctx.fail("lp_mutates_argument", "linprog_simplex changed its argument %s (%s)" % (k, label), dict(lp_input(lp), dress=label), out, None)
                if np.shares_memory(r.x, v) or np.shares_memory(r.lambd, v):
                    ctx.fail("lp_result_aliases_argument", "result arrays share memory with argument %s (%s)" % (k, label), dict(lp_input(lp), dress=label), out, None)
        return out, r

    def expect_same(i, res, label, ref=None):
        if res is None:
            return
        out, _ = res
        ref = outs[i] if ref is None else ref
        if not same_lp_out(out, ref):
            ctx.fail("lp_dress_changes_result", "result differs from the canonical float64 call (%s): %r" % (label, ref),
                     dict(lp_input(lps[i]), dress=label), dict(zip(("x", "lambd", "fun", "success", "status", "num_iter"), out)), None)
            return
        for kind, what in lp_oracle(lps[i], out):
            ctx.fail(kind, what + " (%s)" % label, dict(lp_input(lps[i]), dress=label), out, None)

    # 1. dtype / layout / container of every array argument (all together, and one argument at a time)
    # LPs whose canonical answer has a non-integer coordinate (an integer-typed output/work array would truncate it)
    frac_pool = [i for i in pool if outs[i][4] == 0 and any(v != int(v) for v in outs[i][0] + outs[i][1])] or pool
    for kind in ARRAY_DRESS:
        for i in rng.sample(frac_pool, min(per, len(frac_pool))) + rng.sample(pool, per):
            a = lp_arrays(lps[i])
            expect_same(i, call(i, {k: dress_array(v, kind) for k, v in a.items()}, "dress:all-arrays:" + kind), "all arrays " + kind)
        # one argument at a time: every (argument, kind) pair in the thorough tier, two random arguments per kind in the quick
        # tier (each pair is a separate numba specialisation to compile)
        for arg in (("c", "A_ub", "b_ub", "A_eq", "b_eq") if thorough else rng.sample(["c", "A_ub", "b_ub", "A_eq", "b_eq"], 1)):
            i = rng.choice(frac_pool)
            expect_same(i, call(i, {arg: dress_array(lp_arrays(lps[i])[arg], kind)}, "dress:%s:%s" % (arg, kind)), "%s %s" % (arg, kind))
    # 1./4. max_iter forms (canonical: Python int 1000)
    forms = [("python-int", 1000), ("np.int64", np.int64(1000)), ("np.int32", np.int32(1000)), ("np.intp", np.intp(1000))]
    if thorough:
        forms += [("np.uint16", np.uint16(1000)), ("np.int16", np.int16(1000))]
    for name, mi in forms:
        for i in rng.sample(pool, per):
            expect_same(i, call(i, {}, "max_iter:" + name, max_iter=mi), "max_iter " + name)
    # 4. max_iter omitted (default 10**6 >> needed) and the falsy-but-valid 0
    for i in rng.sample(pool, per):
        lp = lps[i]
        a = lp_arrays(lp)
        ctx.count("max_iter:omitted")
        r = linprog_simplex(a["c"], A_ub=a["A_ub"], b_ub=a["b_ub"], A_eq=a["A_eq"], b_eq=a["b_eq"])
        expect_same(i, (lp_out(r), r), "max_iter omitted")
        res = call(i, {}, "max_iter:0(falsy)", max_iter=0)
        if res is not None and not (res[0][4] == 1 and res[0][3] is False and res[0][5] == 0):
            ctx.fail("lp_max_iter_zero", "max_iter=0 must give status 1 without any iteration", dict(lp_input(lp), max_iter=0), res[0], None)
    # 4. piv_options omitted vs explicit default vs explicit values vs exact tolerances 0
    for i in rng.sample(pool, 3 * per):
        expect_same(i, call(i, {}, "piv_options:PivOptions()", piv_options=PivOptions()), "piv_options=PivOptions()")
        expect_same(i, call(i, {}, "piv_options:explicit-values", piv_options=PivOptions(FEA_TOL, TOL_PIV, TOL_RATIO_DIFF)), "explicit tolerances")
        res = call(i, {}, "piv_options:zeros(0.0)", piv_options=PivOptions(0.0, 0.0, 0.0))
        if res is not None:
            zero_cases.append((lps[i], res[0]))
    # 3. successive results without buffers do not alias each other
    i, j = rng.sample(pool, 2)
    r1, r2 = call(i, {}, "alias:successive-results"), call(j, {}, "alias:successive-results")
    if r1 and r2 and (np.shares_memory(r1[1].x, r2[1].x) or np.shares_memory(r1[1].lambd, r2[1].lambd)):
        ctx.fail("lp_results_alias", "results of two successive calls share memory", lp_input(lps[i]), None, None)
    # 4./5. exact tolerances crossed with near-ties of the ratio test at 1e-9 .. 1e-8 (duplicated row, one copy perturbed)
    near = []
    for _ in range(12 if thorough else 4):
        i = rng.choice([p for p in pool if len(lps[p]["A_ub"]) >= 1 and len(lps[p]["A_ub"]) + len(lps[p]["A_eq"]) <= 4])
        lp = dict(lps[i])
        eps = frac(rng.choice([1e-9, 3e-9, 1e-8]))
        lp["A_ub"] = lp["A_ub"] + [list(lp["A_ub"][0])]
        lp["b_ub"] = lp["b_ub"] + [lp["b_ub"][0] + rng.choice([eps, -eps])]
        lp["tag"] = "near-tie(1e-9..1e-8)"
        near.append(lp)
    for lp in near:
        a = lp_arrays(lp)
        for label, po in (("near-tie:default-tolerances", PivOptions()), ("near-tie:zero-tolerances", PivOptions(0.0, 0.0, 0.0))):
            ctx.count(label)
            ctx.case(("lp-hardening", label, tuple(lp["b_ub"])), nontrivial=True)
            try:
                out = lp_out(linprog_simplex(a["c"], A_ub=a["A_ub"], b_ub=a["b_ub"], A_eq=a["A_eq"], b_eq=a["b_eq"], max_iter=1000, piv_options=po))
            except Exception as e:
                ctx.fail("lp_exception", "linprog_simplex raised %s (%s)" % (repr(e)[:200], label), lp_input(lp), repr(e)[:200], None)
                continue
            # a quantity inside (0, tol] (and exact tolerances on inexact data) is outside the quantifier: model correspondence only
            (zero_cases if "zero" in label else near_default).append((lp, out))
    return zero_cases


near_default = []


def lp_scaled_stream(ctx, thorough):
    """oracle-only: the same small-integer LPs with badly (but still well within the quantifier's resolution) scaled data"""
    rng = ctx.rng
    for t in range(120 if thorough else 24):
        lp = gen_lp(rng)
        if any(Fraction(v).denominator != 1 for v in lp["c"]):
            continue
        fam = ["c*1e6", "rows*1e3", "b*1e6", "c/8", "all*1e3"][t % 5]         # exact scalings only
        s6, s3, sm1 = Fraction(10**6), Fraction(10**3), Fraction(1, 8)
        if fam == "c*1e6":
            lp["c"] = [v * s6 for v in lp["c"]]
        elif fam == "c/8":
            lp["c"] = [frac(float(v * sm1)) for v in lp["c"]]
        elif fam == "b*1e6":
            lp["b_ub"] = [v * s6 for v in lp["b_ub"]]
            lp["b_eq"] = [v * s6 for v in lp["b_eq"]]
        else:
            for A, b in ((lp["A_ub"], lp["b_ub"]), (lp["A_eq"], lp["b_eq"])):
                for i in range(len(A)):
                    sc = s3 if fam == "all*1e3" or rng.random() < 0.5 else Fraction(1)
                    A[i] = [v * sc for v in A[i]]
                    b[i] = b[i] * sc
            if fam == "all*1e3":
                lp["c"] = [v * s3 for v in lp["c"]]
        lp["max_iter"] = 1000
        lp["tag"] = "scaled:" + fam
        ctx.count("lp_scaled:" + fam)
        ctx.case(("lp-scaled", fam, tuple(lp["c"]), tuple(map(tuple, lp["A_ub"])), tuple(lp["b_ub"])), nontrivial=True)
        try:
            out = run_lp(lp)
        except Exception as e:
            ctx.fail("lp_exception", "linprog_simplex raised %s on a valid (scaled) input" % repr(e)[:200], lp_input(lp), repr(e)[:200], None)
            continue
        for kind, what in lp_oracle(lp, out):
            ctx.fail(kind, what, lp_input(lp), dict(zip(("x", "lambd", "fun", "success", "status", "num_iter"), out)), None)


def mm_hardening(ctx, games, thorough):
    """dress / optional arguments / non-mutation / scaling for minmax"""
    from quantecon.optimize import minmax
    from quantecon.optimize.linprog_simplex import PivOptions, FEA_TOL, TOL_PIV, TOL_RATIO_DIFF
    rng = ctx.rng
    pool = [A for A, tag in games if tag.startswith("int") and len(A) >= 2 and len(A[0]) >= 2]
    per = 5 if thorough else 2

    def call(A, arg, label, **kw):
        ctx.count(label)
        ctx.case(("mm-hardening", label, tuple(map(tuple, A))), nontrivial=False)
        snap = np.array(arg, copy=True) if isinstance(arg, np.ndarray) else None
        try:
            v, x, y = minmax(arg, **kw)
        except Exception as e:
            if is_typing_rejection(e):
                ctx.count(label + ":rejected(TypingError)")
                return None
            ctx.fail("minmax_exception", "minmax raised %s on a valid payoff matrix (%s)" % (repr(e)[:200], label), {"A": A, "dress": label}, repr(e)[:200], None)
            return None
        if snap is not None and not (arg.dtype == snap.dtype and np.array_equal(arg, snap)):
            ctx.fail("minmax_mutates_argument", "minmax changed its argument (%s)" % label, {"A": A, "dress": label}, None, None)
        if isinstance(arg, np.ndarray) and (np.shares_memory(x, arg) or np.shares_memory(y, arg)):
            ctx.fail("minmax_result_aliases_argument", "x or y share memory with A (%s)" % label, {"A": A, "dress": label}, None, None)
        return float(v), [float(t) for t in x], [float(t) for t in y]

    def expect_same(A, out, label):
        if out is None:
            return
        ref = run_minmax(A, 1000)
        if out != ref:
            ctx.fail("minmax_dress_changes_result", "result differs from the canonical float64 call (%s): %r" % (label, ref), {"A": A, "dress": label},
                     dict(zip(("v", "x", "y"), out)), None)
        for kind, what in minmax_oracle(A, out, TOL):
            ctx.fail(kind, what + " (%s)" % label, {"A": A, "dress": label}, dict(zip(("v", "x", "y"), out)), None)

    for kind in ARRAY_DRESS:
        for A in rng.sample(pool, per):
            expect_same(A, call(A, dress_array(A, kind), "minmax_dress:" + kind, max_iter=1000), kind)
    for name, mi in [("python-int", 1000), ("np.int64", np.int64(1000)), ("np.int32", np.int32(1000)), ("np.intp", np.intp(1000))]:
        for A in rng.sample(pool, per):
            expect_same(A, call(A, np.array(A, dtype=float), "minmax_max_iter:" + name, max_iter=mi), "max_iter " + name)
    for A in rng.sample(pool, per):
        a = np.array(A, dtype=float)
        expect_same(A, call(A, a, "minmax_max_iter:omitted"), "max_iter omitted")
        expect_same(A, call(A, a, "minmax_piv_options:PivOptions()", max_iter=1000, piv_options=PivOptions()), "PivOptions()")
        expect_same(A, call(A, a, "minmax_piv_options:explicit-values", max_iter=1000, piv_options=PivOptions(FEA_TOL, TOL_PIV, TOL_RATIO_DIFF)), "explicit")
        out = call(A, a, "minmax_piv_options:zeros(0.0)", max_iter=1000, piv_options=PivOptions(0.0, 0.0, 0.0))
        if out is not None:             # integer data: exact ties only, tolerance 0 must still give a saddle point
            for kind, what in minmax_oracle(A, out, TOL):
                ctx.fail(kind, what + " (tolerances 0)", {"A": A, "dress": "tolerances 0"}, dict(zip(("v", "x", "y"), out)), None)
        call(A, a, "minmax_max_iter:0(falsy, no exception)", max_iter=0)
    # oracle-only: scaled payoffs
    for t in range(60 if thorough else 15):
        A = rng.choice(pool)
        fam = ["A*1e6", "A*1e3", "A/8"][t % 3]
        sc = {"A*1e6": Fraction(10**6), "A*1e3": Fraction(10**3), "A/8": Fraction(1, 8)}[fam]
        B = [[frac(float(a * sc)) for a in r] for r in A]
        out = call(B, np.array([[float(a) for a in r] for r in B]), "minmax_scaled:" + fam, max_iter=1000)
        if out is not None:
            for kind, what in minmax_oracle(B, out, Fraction(1, 10**6)):
                ctx.fail(kind, what + " (%s)" % fam, {"A": B, "tag": "real:scaled " + fam}, dict(zip(("v", "x", "y"), out)), None)


# ---------------------------------------------------------------- run
def warmup():
    """compile / load the jitted entry points once; the numba cache directory is shared with concurrently running
    checks, so a cache race (OSError) is retried instead of being mistaken for a result"""
    import time
    for attempt in range(6):
        try:
            run_minmax([[Fraction(1), Fraction(2)], [Fraction(3), Fraction(0)]])
            run_lp(dict(c=[Fraction(1)], A_ub=[[Fraction(1)]], b_ub=[Fraction(1)], A_eq=[], b_eq=[], max_iter=10))
            for i, mode in enumerate(("all", "xl", "tb")):
                run_lp_buffers(dict(c=[Fraction(1)], A_ub=[[Fraction(1)]], b_ub=[Fraction(1)], A_eq=[], b_eq=[], max_iter=10,
                                    buf=(i, mode, 0)), {})
            return
        except OSError:
            time.sleep(1.0 + attempt)
    raise RuntimeError("numba cache unusable after retries")


def run(ctx):
    thorough = ctx.tier == "thorough"
    warmup()
    ctx.proofs(["C04/Props.v", "C04/PropsConsts.v", "C04/PropsTie.v"])
    lps = fixed_lps() + [gen_lp(ctx.rng) for _ in range(2000 if thorough else 440)]
    lps += gen_buffer_sequences(ctx.rng, 160 if thorough else 32)
    cases, fcases, outs = [], [], []
    bufstore = {}
    for idx, lp in enumerate(lps):
        if "buf" in lp:
            # the model knows no buffers: the result must be the fresh-buffer result (compared with the model below AND
            # with a fresh-buffer run of the implementation here); the oracle runs on the RETURNED arrays
            out, problems = run_lp_buffers(lp, bufstore)
            fresh = run_lp(lp)
            ctx.count("lp_buffer_sequence:%s:position=%d" % (lp["buf"][1], lp["buf"][2]))
            same = out[3:] == fresh[3:] and (out[2] == fresh[2]) and (fresh[2] == -math.inf or (out[0] == fresh[0] and out[1] == fresh[1]))
            if not same:
                problems.append("result with caller-supplied (reused / garbage-filled) buffers differs from the fresh-buffer result %r" % (fresh,))
            for what in problems:
                ctx.fail("lp_buffers", what, dict(lp_input(lp), buffers=lp["buf"][1], position_in_sequence=lp["buf"][2]),
                         dict(zip(("x", "lambd", "fun", "success", "status", "num_iter"), out)), None)
        else:
            try:
                out = run_lp(lp, pass_empty_shapes=(idx % 2 == 0))
            except OSError:
                raise
            except Exception as e:      # any exception on a valid LP is a violation with that input, never a harness crash
                ctx.fail("lp_exception", "linprog_simplex raised %s on a valid LP" % repr(e)[:200], lp_input(lp), repr(e)[:200], None)
                out = ([], [], -math.inf, False, 1, 0)
        outs.append(out)
        x, lambd, fun, su, st, ni = out
        n, m, k = len(lp["c"]), len(lp["A_ub"]), len(lp["A_eq"])
        ctx.case(("lp", tuple(lp["c"]), tuple(map(tuple, lp["A_ub"])), tuple(lp["b_ub"]), tuple(map(tuple, lp["A_eq"])),
                  tuple(lp["b_eq"]), lp["max_iter"]), nontrivial=(n >= 2 and m + k >= 2),
                 sample={"input": lp_input(lp), "impl": {"x": x, "lambd": lambd, "fun": fun, "status": st, "num_iter": ni}})
        ctx.count("lp_status=%d" % st)
        ctx.count("lp_shape:" + ("A_ub only" if k == 0 else "A_eq only" if m == 0 else "both"))
        ctx.count("lp_rows=%d" % (m + k))
        ctx.count("lp_cols=%d" % n)
        ctx.count("lp_negative_b:" + ("yes" if any(v < 0 for v in lp["b_ub"] + lp["b_eq"]) else "no"))
        ctx.count("lp_tag:" + lp["tag"])
        if st == 0:
            basic_zero = sum(1 for v in x if v == 0)
            ctx.count("lp_degenerate_optimum(>n-L zeros in x):" + ("yes" if basic_zero > max(0, n - (m + k)) else "no"))
        for kind, what in lp_oracle(lp, out):
            ctx.fail(kind, what, lp_input(lp), {"x": x, "lambd": lambd, "fun": fun, "success": su, "status": st, "num_iter": ni}, None)
        cases.append(coq_lp(lp, out))
        fcases.append(coq_lp(lp, out, fl=True))

    def lp_model(i, inst):
        lp = lps[i]
        mi = natlit(lp["max_iter"]) if lp["max_iter"] < 5000 else "(Z.to_nat %d)" % lp["max_iter"]
        args = fcases[i] if inst == "optsF" else cases[i]
        # re-evaluate the model on the inputs (drop the expected outputs: last component of the tuple)
        return ctx.coq_eval(IMPORTS, "let '(cv, m, k, Aub, bub, Aeq, beq, mi, _) := %s in linprog_simplex cv m k Aub bub Aeq beq mi %s"
                            % (args, inst), preamble=PREAMBLE)[:1500]

    # (1) bit-exact: binary64 instance of the model against the jitted implementation
    badF = ctx.coq_check("linprog_simplex_float_bitexact", IMPORTS, "LPF", "lp_okF", fcases, chunk=60, preamble=PREAMBLE)
    for i in badF:
        ctx.mismatch("C04.Model.linprog_simplex (binary64 instance) vs optimize.linprog_simplex: status, num_iter, x, lambd, fun bit-exact",
                     lp_input(lps[i]), dict(zip(("x", "lambd", "fun", "success", "status", "num_iter"), outs[i])), lp_model(i, "optsF"))
    # (1b) hardening streams: dress, optional arguments, aliasing, near-ties with exact tolerances, scaled data
    del near_default[:]
    zero_cases = lp_hardening(ctx, lps, outs, thorough)
    lp_scaled_stream(ctx, thorough)
    for nm, okf, cs in (("linprog_simplex_float_bitexact:tolerances-0(piv_options zeros, near-ties)", "lp_okF0", zero_cases),
                        ("linprog_simplex_float_bitexact:near-ties", "lp_okF", near_default)):
        badz = ctx.coq_check(nm, IMPORTS, "LPF", okf, [coq_lp(lp, out, fl=True) for lp, out in cs], chunk=20, preamble=PREAMBLE)
        for i in badz:
            ctx.mismatch("C04.Model.linprog_simplex (binary64 instance) vs optimize.linprog_simplex: " + nm, lp_input(cs[i][0]),
                         dict(zip(("x", "lambd", "fun", "success", "status", "num_iter"), cs[i][1])), "")
    # (2) exact arithmetic (the instance the theorems are about), source tolerances: same path -> everything within 1e-9;
    #     a different path (a tie of the largest-coefficient rule decided by rounding) must still give the same status and optimum
    bad = ctx.coq_check("linprog_simplex_exactQ", IMPORTS, "LPQ", "lp_ok opts", cases, chunk=40, preamble=PREAMBLE)
    free = [i for i in bad if lps[i]["max_iter"] >= 1000]
    ctx.count("lp_exactQ_path_differs_from_float_path", len(bad))
    ctx.count("lp_exactQ_same_path", len(cases) - len(bad))
    badw = ctx.coq_check("linprog_simplex_exactQ_status_optimum", IMPORTS, "LPQ", "lp_ok_weak opts", [cases[i] for i in free],
                         chunk=40, preamble=PREAMBLE)
    for j in badw:
        i = free[j]
        ctx.mismatch("C04.Model.linprog_simplex (exact Q instance) vs optimize.linprog_simplex: status and optimal value",
                     lp_input(lps[i]), dict(zip(("x", "lambd", "fun", "success", "status", "num_iter"), outs[i])), lp_model(i, "opts"))
    # (2b) sep_ok (C04/Sep.v) evaluated inside Coq per case: where it holds, theorem C04_tolerance_irrelevant makes the
    #      tolerance-0 theorems (status0_certificate, status_iff) statements about the source-tolerance run
    nosep = ctx.coq_check("linprog_sep_ok", IMPORTS, "LPQ",
                          "fun c => let '(cv, m, k, Aub, bub, Aeq, beq, mi, _) := c in linprog_sep cv m k Aub bub Aeq beq mi opts",
                          cases, chunk=40, preamble=PREAMBLE)
    ctx.corr["linprog_sep_ok"]["mismatches"] = 0       # not a correspondence: a measured hypothesis
    ctx.count("lp_sep_ok:true", len(cases) - len(nosep))
    ctx.count("lp_sep_ok:false", len(nosep))
    for j in nosep[:3]:
        ctx.notes.append("sep_ok fails (a compared quantity lies in (0, tol]) on %s" % json.dumps(jsonable(lp_input(lps[j]))))
    # (3) the theorems are stated for tolerance 0: measure how often that run coincides with the source-tolerance run
    bad0 = ctx.coq_check("linprog_simplex_tol0", IMPORTS, "LPQ", "lp_ok opts0", cases, chunk=40, preamble=PREAMBLE)
    only0 = [i for i in bad0 if i not in set(bad)]
    ctx.count("lp_tol0_run_differs_from_source_tolerance_run", len(only0))
    ctx.count("lp_tol0_run_equal", len(cases) - len(bad0))
    free0 = [i for i in bad0 if lps[i]["max_iter"] >= 1000]
    badw0 = ctx.coq_check("linprog_simplex_tol0_status_optimum", IMPORTS, "LPQ", "lp_ok_weak opts0", [cases[i] for i in free0],
                          chunk=40, preamble=PREAMBLE)
    for j in badw0:
        i = free0[j]
        ctx.mismatch("C04.Model.linprog_simplex (exact Q instance, tolerances 0) vs optimize.linprog_simplex: status and optimal value",
                     lp_input(lps[i]), dict(zip(("x", "lambd", "fun", "success", "status", "num_iter"), outs[i])), lp_model(i, "opts0"))

    # ---- minmax
    games = gen_games(ctx.rng, thorough)
    cases, fcases, meta = [], [], []
    fea_tol = Fraction(1, 10**6)
    for A, tag in games:
        mi = 1000
        m, n = len(A), len(A[0])
        try:
            out = run_minmax(A, mi)
            if any(v != v or abs(v) == math.inf for v in [out[0]] + out[1] + out[2]):
                raise ArithmeticError("non-finite output %r" % (out,))
        except OSError:                 # file-system trouble of the shared numba cache: machinery, not the property
            raise
        except Exception as e:          # any exception / non-finite value on a valid payoff matrix violates the property
            ctx.case(("minmax", tuple(map(tuple, A))), nontrivial=(m >= 2 and n >= 2))
            ctx.count("minmax:" + tag)
            ctx.count("minmax_exception")
            ctx.fail("minmax_exception", "minmax raised %s on a valid payoff matrix" % repr(e)[:200], {"A": A, "tag": tag}, repr(e)[:300], None)
            continue
        ctx.case(("minmax", tuple(map(tuple, A))), nontrivial=(m >= 2 and n >= 2),
                 sample={"minmax": A, "impl": {"v": out[0], "x": out[1], "y": out[2]}})
        ctx.count("minmax:" + tag)
        ctx.count("minmax_shape=%dx%d" % (m, n) if not tag.startswith("real") else "minmax_shape=real:%s" % ("<=4x4" if max(m, n) <= 4 else "<=8x8"))
        ctx.count("minmax_strictly_positive_first_column<1:" + ("yes" if all(a > 0 for r in A for a in r) and all(r[0] < 1 for r in A) else "no"))
        for kind, what in minmax_oracle(A, out, TOL if not tag.startswith("real") else fea_tol):
            ctx.fail(kind, what, {"A": A, "tag": tag}, {"v": out[0], "x": out[1], "y": out[2]}, None)
        cases.append(coq_mm(A, mi, out))
        fcases.append(coq_mm(A, mi, out, fl=True))
        meta.append((A, tag, out))
    badF = ctx.coq_check("minmax_float_bitexact", IMPORTS, "MMF", "mm_okF", fcases, chunk=60, preamble=PREAMBLE)
    for i in badF:
        A, tag, out = meta[i]
        model = ctx.coq_eval(IMPORTS, "let '(m, n, A, mi, _) := %s in minmax m n A mi optsF" % fcases[i], preamble=PREAMBLE)
        ctx.mismatch("C04.Model.minmax (binary64 instance) vs optimize.minmax: v, x, y bit-exact", {"A": A, "tag": tag},
                     dict(zip(("v", "x", "y"), out)), model[:1500])
    # exact rationals of 53-bit floats on 8x8 tableaux are expensive: small chunks spread the few heavy cases over the cores
    mm_hardening(ctx, games, thorough)
    # (raw binary64 data above 5x5 is left to the bit-exact binary64 model + oracle: one such game costs ~40 s in exact Q)
    heavy = lambda i: (meta[i][1].startswith("real:") and meta[i][1] not in ("real:dyadic-positive<1",)
                       and any(frac(a).denominator > 1024 for r in meta[i][0] for a in r)
                       and max(len(meta[i][0]), len(meta[i][0][0])) > 5)
    keep = [i for i in range(len(cases)) if not heavy(i)]
    ctx.count("minmax_exactQ_skipped(raw floats, larger than 5x5)", len(cases) - len(keep))
    all_cases, all_meta = cases, meta
    cases, meta = [all_cases[i] for i in keep], [all_meta[i] for i in keep]
    bad = ctx.coq_check("minmax_exactQ", IMPORTS, "MMQ", "mm_ok opts", cases, chunk=5, preamble=PREAMBLE)
    ctx.count("minmax_exactQ_path_differs_from_float_path", len(bad))
    ctx.count("minmax_exactQ_same_strategies", len(cases) - len(bad))
    badw = ctx.coq_check("minmax_exactQ_value", IMPORTS, "MMQ", "mm_ok_weak opts", [cases[i] for i in bad], chunk=5, preamble=PREAMBLE)
    for j in badw:
        A, tag, out = meta[bad[j]]
        model = ctx.coq_eval(IMPORTS, "minmax %s %s %s 1000 opts" % (natlit(len(A)), natlit(len(A[0])), qlist2(A)), preamble=PREAMBLE)
        ctx.mismatch("C04.Model.minmax (exact Q instance) vs optimize.minmax: value v", {"A": A, "tag": tag},
                     dict(zip(("v", "x", "y"), out)), model[:1500])
    # one pass with tolerance 0: sep_ok (hypothesis of C04_minmax_certificate_src), inner status 0 (hypothesis of
    # C04_minmax_certificate) and equality of the tolerance-0 run with the implementation's output; the three
    # measurements are separated only on the (normally empty) set of cases where the conjunction fails
    conj = ("fun c => let '(m, n, A, mi, _) := c in minmax_sep m n A mi opts && Nat.eqb (minmax_inner_status m n A mi) 0 && mm_ok opts0 c")
    badc = ctx.coq_check("minmax_tol0:sep_ok&inner_status0&same_output", IMPORTS, "MMQ", conj, cases, chunk=5, preamble=PREAMBLE)
    ctx.corr["minmax_tol0:sep_ok&inner_status0&same_output"]["mismatches"] = 0      # measured hypotheses, not a correspondence
    sub = [cases[i] for i in badc]
    nosep = ctx.coq_check("minmax_sep_ok", IMPORTS, "MMQ", "fun c => let '(m, n, A, mi, _) := c in minmax_sep m n A mi opts", sub, chunk=5, preamble=PREAMBLE)
    bad_st = ctx.coq_check("minmax_inner_status0_tol0", IMPORTS, "MMQ",
                           "fun c => let '(m, n, A, mi, _) := c in Nat.eqb (minmax_inner_status m n A mi) 0", sub, chunk=5, preamble=PREAMBLE)
    bad_t0 = ctx.coq_check("minmax_tol0", IMPORTS, "MMQ", "mm_ok opts0", sub, chunk=5, preamble=PREAMBLE)
    for nm in ("minmax_sep_ok", "minmax_inner_status0_tol0", "minmax_tol0"):
        ctx.corr[nm]["mismatches"] = 0
    ctx.count("minmax_sep_ok:true", len(cases) - len(nosep))
    ctx.count("minmax_sep_ok:false", len(nosep))
    for j in nosep:
        ctx.count("minmax_sep_ok:false:" + meta[badc[j]][1])
    ctx.count("minmax_inner_status_nonzero(tol0)", len(bad_st))
    ctx.count("minmax_inner_status_zero(tol0)", len(cases) - len(bad_st))
    ctx.count("minmax_tol0_run_differs", len([j for j in bad_t0 if badc[j] not in set(bad)]))


def replay(data):
    first = data.get("first") or (data.get("mismatches") or [{}])[0]
    inp = first.get("input", {})
    print("replay input:", json.dumps(inp)[:1500])
    fr = lambda rows: [[Fraction(x) for x in r] for r in rows]
    if "A" in inp:
        A = fr(inp["A"])
        try:
            out = run_minmax(A)
            print("implementation: v=%r x=%s y=%s" % out)
            fails = minmax_oracle(A, out, TOL if not str(inp.get("tag", "")).startswith("real") else Fraction(1, 10**6))
        except Exception as e:
            fails = [("minmax_exception", "minmax raised %r on a valid payoff matrix" % (e,))]
    else:
        lp = dict(c=[Fraction(x) for x in inp["c"]], A_ub=fr(inp["A_ub"]), b_ub=[Fraction(x) for x in inp["b_ub"]],
                  A_eq=fr(inp["A_eq"]), b_eq=[Fraction(x) for x in inp["b_eq"]], max_iter=inp.get("max_iter", 1000), tag=inp.get("tag", ""))
        if inp.get("buffers"):      # caller-supplied buffers pre-filled with garbage (7.0)
            lp["buf"] = (0, inp["buffers"], 0)
            out, problems = run_lp_buffers(lp, {})
            fresh = run_lp(lp)
            print("with garbage-filled %s buffers: %r ; fresh buffers: %r ; %s" % (inp["buffers"], out, fresh, problems))
            if out[2:] != fresh[2:] or (fresh[2] != -math.inf and out[:2] != fresh[:2]):
                print("ORACLE FAIL lp_buffers: result depends on the contents of the supplied buffers")
        else:
            out = run_lp(lp)
        print("implementation: x=%s lambd=%s fun=%r success=%s status=%s num_iter=%s" % out)
        ex = lp_exact(lp["c"], lp["A_ub"], lp["b_ub"], lp["A_eq"], lp["b_eq"])
        print("exact classification (0 optimal / 2 infeasible / 3 unbounded): %s, optimum %s" % ex)
        fails = lp_oracle(lp, out, ex)
    for kind, what in fails:
        print("ORACLE FAIL %s: %s" % (kind, what))
    if not fails:
        print("oracle: property holds on this input")
    return 0

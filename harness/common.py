"""Shared machinery of the checks: Coq build + Print Assumptions parsing,
in-Coq correspondence evaluation (generated cases files, vm_compute),
known-findings handling, replay files, evidence, verdict lines."""
import os, sys, re, json, time, random, subprocess, fcntl, hashlib, fractions, math, traceback
from concurrent.futures import ThreadPoolExecutor

VERIF = os.path.abspath(os.path.join(os.path.dirname(os.path.abspath(__file__)), ".."))
COQ = os.path.join(VERIF, "coq")
WORK = os.path.join(VERIF, "work")
REPO = os.environ.get("VERIF_REPO", "/repo")
JOBS = int(os.environ.get("VERIF_JOBS", "16"))
Fraction = fractions.Fraction

# axioms of the standard library that a theorem may depend on (each must be
# named in DESIGN.md section 6 and in the evidence); anything else is a broken obligation
ALLOWED_AXIOMS = {
    # none needed so far; PrimFloat/Uint63 primitives are not axioms and are
    # printed by Print Assumptions only when a theorem mentions floats
}
GREP_GATE = re.compile(r"\b(Admitted|admit|Axiom|Axioms|Parameter|Parameters|Conjecture|Hypothesis|Hypotheses|Variable|Variables)\b|Unset\s+Guard|bypass_check|type-in-type|Admit\s+Obligations|native_compute|impredicative-set")


# ---------------------------------------------------------------- Coq literals
def zlit(n):
    n = int(n)
    return "%d" % n if n >= 0 else "(%d)" % n


def qlit(x):
    fr = x if isinstance(x, Fraction) else Fraction(x)
    n, d = fr.numerator, fr.denominator
    return "(%d # %d)" % (n, d) if n >= 0 else "((%d) # %d)" % (n, d)


def flit(x):
    x = float(x)
    if x != x:
        return "nan"
    if x == math.inf:
        return "infinity"
    if x == -math.inf:
        return "neg_infinity"
    h = x.hex()
    return "(%s)" % h if x >= 0 and not h.startswith("-") else "(-%s)" % h[1:]


def blit(b):
    return "true" if b else "false"


def lst(items, f=None):
    items = list(items)
    if f is not None:
        items = [f(i) for i in items]
    return "[" + "; ".join(items) + "]"


def zlist(a):
    return lst(a, zlit) + "%Z" if len(list(a)) else "(@nil Z)"


def zlist2(a):
    return "[" + "; ".join(zlist(r) for r in a) + "]" if len(a) else "(@nil (list Z))"


def qlist(a):
    a = list(a)
    return lst(a, qlit) + "%Q" if a else "(@nil Q)"


def qlist2(a):
    a = list(a)
    return "[" + "; ".join(qlist(r) for r in a) + "]" if a else "(@nil (list Q))"


def flist(a):
    a = list(a)
    return lst(a, flit) + "%float" if a else "(@nil float)"


def flist2(a):
    a = list(a)
    return "[" + "; ".join(flist(r) for r in a) + "]" if a else "(@nil (list float))"


def natlit(n):
    return "%d%%nat" % int(n)


def natlist(a):
    a = list(a)
    return "[" + "; ".join("%d" % int(i) for i in a) + "]%nat" if a else "(@nil nat)"


def tup(*xs):
    return "(" + ", ".join(xs) + ")"


def frac(x):
    """exact Fraction of a python/numpy number (floats: their exact binary value)"""
    if isinstance(x, Fraction):
        return x
    if isinstance(x, (int,)):
        return Fraction(x)
    try:
        import numpy as np
        if isinstance(x, np.integer):
            return Fraction(int(x))
    except Exception:
        pass
    return Fraction(float(x))


def jsonable(x):
    try:
        import numpy as np
        if isinstance(x, np.ndarray):
            return jsonable(x.tolist())
        if isinstance(x, np.generic):
            return jsonable(x.item())
    except Exception:
        pass
    if isinstance(x, Fraction):
        return "%d/%d" % (x.numerator, x.denominator) if x.denominator != 1 else x.numerator
    if isinstance(x, float):
        if x != x or x in (math.inf, -math.inf):
            return repr(x)
        return x
    if isinstance(x, (list, tuple)):
        return [jsonable(i) for i in x]
    if isinstance(x, dict):
        return {str(k): jsonable(v) for k, v in x.items()}
    if isinstance(x, (str, int, bool)) or x is None:
        return x
    return repr(x)


# ---------------------------------------------------------------- running coq
def _run(cmd, cwd=None, timeout=900, env=None):
    try:
        p = subprocess.run(cmd, cwd=cwd, stdout=subprocess.PIPE, stderr=subprocess.STDOUT,
                           timeout=timeout, env=env)
        return p.returncode, p.stdout.decode("utf-8", "replace")
    except subprocess.TimeoutExpired as e:
        return 124, (e.stdout or b"").decode("utf-8", "replace") + "\n[timeout after %ss]" % timeout


class Lock:
    def __init__(self, path):
        self.path = path

    def __enter__(self):
        self.f = open(self.path, "w")
        fcntl.flock(self.f, fcntl.LOCK_EX)

    def __exit__(self, *a):
        fcntl.flock(self.f, fcntl.LOCK_UN)
        self.f.close()


def ensure_project():
    """(re)generate Gen/Consts.v from /repo and make sure the Makefile exists."""
    os.makedirs(WORK, exist_ok=True)
    rc, out = _run(["/venv/bin/python", os.path.join(VERIF, "harness", "gen_consts.py")],
                   env=dict(os.environ, VERIF_REPO=REPO))
    consts_ok = rc == 0
    rc2, out2 = _run(["/venv/bin/python", os.path.join(VERIF, "harness", "py2coq.py")],
                     env=dict(os.environ, VERIF_REPO=REPO))
    out += out2   # a failed kernel translation writes a non-compiling Gen/Kernels.v (fail closed)
    vs = []
    for root, _, files in os.walk(COQ):
        for f in files:
            if f.endswith(".v"):
                vs.append(os.path.relpath(os.path.join(root, f), COQ))
    vs.sort()
    header = ["-Q . QE",
              "-arg -w -arg -deprecated-hint-rewrite-without-locality,-deprecated-instance-without-locality,-notation-overridden,-ambiguous-paths"]
    text = "\n".join(header + vs) + "\n"
    cp = os.path.join(COQ, "_CoqProject")
    if not os.path.exists(cp) or open(cp).read() != text or not os.path.exists(os.path.join(COQ, "Makefile")):
        with open(cp, "w") as f:
            f.write(text)
        _run(["coq_makefile", "-f", "_CoqProject", "-o", "Makefile"], cwd=COQ)
    return consts_ok, out


def parse_assumptions(out):
    """Split coqc output of a Props file into Print Assumptions blocks.
    Returns list of (closed: bool, axioms: [names])."""
    blocks = []
    lines = out.splitlines()
    i = 0
    while i < len(lines):
        ln = lines[i]
        if ln.startswith("Closed under the global context"):
            blocks.append((True, []))
        elif ln.startswith("Axioms:"):
            names = []
            i += 1
            while i < len(lines) and lines[i].strip() and not lines[i].startswith(("Closed under", "Axioms:")):
                m = re.match(r"^([A-Za-z_][\w.']*)\s*:", lines[i])
                if m and not lines[i].startswith(" "):
                    names.append(m.group(1))
                elif re.match(r"^([A-Za-z_][\w.']*)\s*$", lines[i]) and not lines[i].startswith(" "):
                    names.append(lines[i].strip())
                i += 1
            blocks.append((False, names))
            continue
        i += 1
    return blocks


PRIMITIVE_PREFIXES = ("PrimFloat.", "Uint63.", "PrimInt63.", "FloatOps.", "Float64", "Coq.Floats.PrimFloat.",
                      "Coq.Numbers.Cyclic.Int63.", "Coq.Floats.PrimFloat.Leibniz.")


def axiom_allowed(name, extra=()):
    return name in ALLOWED_AXIOMS or name in extra or name.startswith(PRIMITIVE_PREFIXES)


class Ctx:
    def __init__(self, prop, tier="quick", seed=None):
        self.prop = prop
        self.tier = tier
        self.seed = int(seed if seed is not None else os.environ.get("VERIF_SEED", "20260930"))
        self.rng = random.Random(self.seed * 1000003 + int(prop[1:]))
        self.t0 = time.time()
        # per-run scratch directory (concurrent runs of the same check must not share cases files)
        self.work = os.path.join(WORK, "%s_%d" % (prop, os.getpid()))
        os.makedirs(self.work, exist_ok=True)
        self.obligations = []       # [{name, ok, detail}]
        self.mismatches = []        # correspondence disagreements
        self.failures = []          # oracle failures (property violated by the implementation)
        self.known_hits = []
        self.evaluations = 0
        self.nontrivial = set()
        self.samples = []
        self.dist = {}
        self.corr = {}              # name -> {cases, mismatches}
        self.assumptions = []
        self.trusted = []
        self.notes = []
        self.extra_axioms = ()
        self.coq_cases_total = 0
        self.kf = load_known_findings(prop)

    # -------------------------------------------------------- bookkeeping
    def count(self, key, n=1):
        self.dist[key] = self.dist.get(key, 0) + n

    def case(self, desc, nontrivial=True, sample=None):
        """record one explored case; desc must be hashable/serialisable identity of the case"""
        self.evaluations += 1
        if nontrivial:
            self.nontrivial.add(hashlib.sha1(json.dumps(jsonable(desc), sort_keys=True).encode()).hexdigest())
        if sample is not None and len(self.samples) < 6:
            self.samples.append(jsonable(sample))

    def fail(self, kind, what, input, impl=None, expected=None):
        """oracle failure: the implementation violates the property on `input`."""
        rec = {"kind": kind, "what": what, "input": jsonable(input), "impl": jsonable(impl),
               "expected": jsonable(expected)}
        for k in self.kf:
            if k.get("status") == "finding" and k.get("kind") == kind and _kf_match(k, rec):
                if k["id"] not in [h["id"] for h in self.known_hits]:
                    self.known_hits.append({"id": k["id"], "what": k.get("what", what)})
                return
        self.failures.append(rec)

    def mismatch(self, corr, input, impl=None, model=None, note=""):
        self.mismatches.append({"correspondence": corr, "input": jsonable(input), "impl": jsonable(impl),
                                "model": jsonable(model), "note": note})

    # -------------------------------------------------------- proofs
    def proofs(self, props_file=None, extra_axioms=()):
        """Build the dependency cone of coq/<prop>/Props.v (or the given file / list of
        files), recompile them, and count one obligation per Print Assumptions block."""
        self.extra_axioms = tuple(extra_axioms)
        files = props_file or "%s/Props.v" % self.prop
        if isinstance(files, str):
            files = [files]
        ok = True
        for i, f in enumerate(files):
            ok = self._proofs_one(f, gate=(i == 0)) and ok
        return ok

    def _proofs_one(self, props_file, gate=True):
        with Lock(os.path.join(WORK, ".coq.lock")):
            consts_ok, cout = ensure_project()
            if not consts_ok:
                self.obligations.append({"name": "Gen/Consts.v (constants translator)", "ok": False, "detail": cout[-2000:]})
            vo = props_file[:-2] + ".vo"
            try:
                os.remove(os.path.join(COQ, vo))
            except FileNotFoundError:
                pass
            rc, out = _run(["make", "-j%d" % JOBS, vo], cwd=COQ, timeout=3000)
        self.build_log = out
        # grep gate over this property's directory, Base and Gen
        gate_hits = []
        for d in (self.prop, "Base", "Gen") if gate else ():
            dd = os.path.join(COQ, d)
            if not os.path.isdir(dd):
                continue
            for f in sorted(os.listdir(dd)):
                if f.endswith(".v"):
                    txt = strip_coq_comments(open(os.path.join(dd, f)).read())
                    for m in GREP_GATE.finditer(txt):
                        if m.group(0) in ("Hypothesis", "Hypotheses", "Variable", "Variables") and in_section(txt, m.start()):
                            continue
                        gate_hits.append("%s/%s: %s" % (d, f, m.group(0)))
        if gate:
            self.obligations.append({"name": "grep gate (no Admitted/Axiom/Parameter/unsafe flags)", "ok": not gate_hits,
                                     "detail": "; ".join(gate_hits[:10])})
        src = open(os.path.join(COQ, props_file)).read()
        thms = re.findall(r"^\s*(?:Theorem|Lemma|Example|Corollary)\s+([\w']+)", strip_coq_comments(src), re.M)
        prints = re.findall(r"Print Assumptions\s+([\w'.]+)\s*\.", strip_coq_comments(src))
        if rc != 0:
            err = out[-3000:]
            m = re.search(r'File "\./?([^"]+)", line (\d+)', out)
            where = "%s line %s" % (m.group(1), m.group(2)) if m else "?"
            self.obligations.append({"name": "coq build of %s (failed at %s)" % (props_file, where), "ok": False, "detail": err})
            for p in prints:
                self.obligations.append({"name": p, "ok": False, "detail": "not checked: build failed"})
            return False
        blocks = parse_assumptions(out)
        if len(blocks) != len(prints):
            self.obligations.append({"name": "Print Assumptions blocks (%d) match statements (%d) in %s" % (len(blocks), len(prints), props_file),
                                     "ok": False, "detail": out[-2000:]})
        for p, (closed, names) in zip(prints, blocks):
            bad = [n for n in names if not axiom_allowed(n, self.extra_axioms)]
            self.obligations.append({"name": p, "ok": not bad,
                                     "detail": "Closed under the global context" if closed else "depends on: " + ", ".join(names)})
        missing = [t for t in thms if t not in prints and not t.endswith("_example") and not t.startswith("ex_")]
        if missing:
            self.notes.append("theorems in %s without Print Assumptions: %s" % (props_file, missing))
        if self.tier == "thorough":
            self._coqchk(props_file)
        return all(o["ok"] for o in self.obligations)

    def _coqchk(self, props_file):
        """thorough tier: re-check the compiled file and everything it depends on with the
        independent checker coqchk; -o lists the axioms of all loaded libraries."""
        mod = "QE." + props_file[:-2].replace("/", ".")
        rc, out = _run(["coqchk", "-silent", "-o", "-Q", ".", "QE", mod], cwd=COQ, timeout=3000)
        axioms, flags_ok = [], True
        sect = None
        for ln in out.splitlines():
            m = re.match(r"^\* (.*?):\s*(.*)$", ln)
            if m:
                sect = m.group(1)
                if sect.startswith(("Constants/Inductives relying", "Inductives whose positivity")) and m.group(2).strip() != "<none>":
                    flags_ok = False
                continue
            if sect == "Axioms" and ln.strip():
                axioms.append(ln.strip())
        # coqchk -o lists the axioms of EVERY loaded library (e.g. the classical-reals axioms once
        # Reals/nsatz/Flocq are loaded), whether or not a theorem uses them: Print Assumptions per
        # theorem is authoritative for use; here only an axiom declared by this development (QE.*) fails.
        bad = [a for a in axioms if a.startswith("QE.")]
        loaded = [a for a in axioms if not a.startswith(("Coq.Numbers.Cyclic.Int63.", "Coq.Floats."))]
        self.loaded_axioms = sorted(set(getattr(self, "loaded_axioms", []) + loaded))
        self.obligations.append({"name": "coqchk -o %s" % mod, "ok": rc == 0 and flags_ok and not bad,
                                 "detail": ("rc=%s; axioms of loaded libraries (not necessarily used): %s; unsafe flags clean: %s"
                                            % (rc, loaded or "none", flags_ok))
                                           + ("" if rc == 0 else " :: " + out[-600:])})

    # -------------------------------------------------------- correspondence in Coq
    def coq_check(self, name, imports, ctype, ok, cases, chunk=400, preamble="", timeout=900):
        """cases: list of Coq terms of type `ctype`; ok: Coq term of type ctype -> bool.
        Returns sorted list of indices of cases on which ok is false (model and
        implementation disagree). Raises RuntimeError if Coq itself fails."""
        n = len(cases)
        self.coq_cases_total += n
        self.corr.setdefault(name, {"cases": 0, "mismatches": 0})
        self.corr[name]["cases"] += n
        if n == 0:
            return []
        files = []
        for ci, start in enumerate(range(0, n, chunk)):
            part = cases[start:start + chunk]
            base = "%s_%s_%d" % (self.prop, re.sub(r"\W", "_", name), ci)
            path = os.path.join(self.work, base + ".v")
            with open(path, "w") as f:
                f.write(CASES_HEADER)
                f.write(imports + "\n" + preamble + "\n")
                f.write("Definition ok_fn : %s -> bool := %s.\n" % (ctype, ok))
                f.write("Definition the_cases : list (%s) := [\n  " % ctype)
                f.write(";\n  ".join(part))
                f.write("\n].\nEval vm_compute in (failing ok_fn the_cases).\n")
            files.append((start, path))

        def one(sp):
            start, path = sp
            rc, out = _run(["coqc", "-Q", COQ, "QE", "-w", "none", path], cwd=self.work, timeout=timeout)
            return start, path, rc, out
        bad = []
        with ThreadPoolExecutor(max_workers=JOBS) as ex:
            for start, path, rc, out in ex.map(one, files):
                m = re.search(r"=\s*\[([^\]]*)\]\s*:\s*list nat", out, re.S)
                if rc != 0 or not m:
                    raise RuntimeError("coq cases file %s failed (rc=%s):\n%s" % (path, rc, out[-3000:]))
                body = m.group(1).strip()
                if body:
                    bad += [start + int(x) for x in re.split(r"[;\s]+", body.replace("%nat", "")) if x.strip()]
        self.corr[name]["mismatches"] += len(bad)
        return sorted(bad)

    def coq_eval(self, imports, expr, preamble="", timeout=300):
        """Evaluate one expression with vm_compute and return Coq's printed answer (for replay files)."""
        path = os.path.join(self.work, "%s_eval_%d.v" % (self.prop, os.getpid()))
        with open(path, "w") as f:
            f.write(CASES_HEADER + imports + "\n" + preamble + "\nEval vm_compute in (%s).\n" % expr)
        rc, out = _run(["coqc", "-Q", COQ, "QE", "-w", "none", path], cwd=self.work, timeout=timeout)
        return re.sub(r"\s+", " ", out).strip()

    # -------------------------------------------------------- verdict
    def finish(self, level="proof", technique_note="", extra_cov=None):
        wall = time.time() - self.t0
        n_ob = len(self.obligations)
        n_ok = sum(1 for o in self.obligations if o["ok"])
        broken = [o for o in self.obligations if not o["ok"]]
        violations = 0
        lines = []
        os.makedirs(os.path.join(VERIF, "replays"), exist_ok=True)
        for h in self.known_hits:
            lines.append("KNOWN-FINDING: property=%s %s: %s" % (self.prop, h["id"], h["what"]))
        stamp = "%s_%s_%d" % (self.prop, self.tier, self.seed)
        if self.failures:
            violations += len(self.failures)
            path = os.path.join(VERIF, "replays", stamp + "_impl.json")
            json.dump({"property": self.prop, "kind": "impl-violates-property", "seed": self.seed, "tier": self.tier,
                       "first": self.failures[0], "all": self.failures[:50],
                       "broken_obligations": broken[:5], "mismatches": self.mismatches[:5]}, open(path, "w"), indent=1)
            lines.append("VIOLATION property=%s replay=%s" % (self.prop, path))
        elif self.mismatches or broken:
            violations += 1
            kind = "correspondence-broken" if self.mismatches else "proof-obligation-broken"
            path = os.path.join(VERIF, "replays", stamp + "_" + kind + ".json")
            json.dump({"property": self.prop, "kind": kind, "seed": self.seed, "tier": self.tier,
                       "no_longer_checks": ([m["correspondence"] for m in self.mismatches[:1]] or [broken[0]["name"]]),
                       "mismatches": self.mismatches[:50], "broken_obligations": broken[:10],
                       "searched": "independent oracle evaluated on the implementation's output for all %d generated cases of this run; none failed" % self.evaluations},
                      open(path, "w"), indent=1)
            lines.append("VIOLATION property=%s replay=%s no-failing-input-found" % (self.prop, path))
        cov = {
            "obligations": max(n_ob, 1), "discharged": n_ok,
            "checker_cmd": "cd /verif/coq && make %s/Props.vo  (coqc 8.16.1 kernel, full .vo build; Print Assumptions per theorem)" % self.prop,
            "trusted_base": ["Coq 8.16.1 kernel + vm_compute", "harness/gen_consts.py (constants translator)",
                             "correspondence harness harness/%s.py and its independent oracle" % self.prop.lower(),
                             "NumPy/SciPy/Numba as semantics of the implementation"] + self.trusted,
            "obligation_list": [{"name": o["name"], "ok": o["ok"], "detail": o["detail"][:300]} for o in self.obligations],
            "evaluations": self.evaluations, "distinct_nontrivial": len(self.nontrivial),
            "rule": technique_note, "samples": self.samples[:6] or ["(none)"],
            "correspondence": self.corr, "coq_cases_evaluated": self.coq_cases_total,
            "input_distribution": self.dist, "known_findings_hit": self.known_hits,
            "notes": self.notes,
        }
        if extra_cov:
            cov.update(extra_cov)
        ev = {"property_id": self.prop, "tier": self.tier, "seed": self.seed, "level": level, "coverage": cov,
              "assumptions": self.assumptions, "wall_s": round(wall, 2), "violations": violations}
        os.makedirs(os.path.join(VERIF, "evidence"), exist_ok=True)
        with open(os.path.join(VERIF, "evidence", self.prop + ".json"), "w") as f:
            json.dump(ev, f, indent=1, sort_keys=True)
            f.write("\n")
        if not violations:
            import shutil
            shutil.rmtree(self.work, ignore_errors=True)   # keep the cases files only when something failed
        for ln in lines:
            print(ln)
        print("%s %s: obligations %d/%d, coq-cases %d, evaluations %d (distinct non-trivial %d), mismatches %d, oracle failures %d, known findings %d, %.1fs"
              % (self.prop, self.tier, n_ok, n_ob, self.coq_cases_total, self.evaluations, len(self.nontrivial),
                 len(self.mismatches), len(self.failures), len(self.known_hits), wall))
        return 1 if violations else 0


CASES_HEADER = """From Coq Require Import ZArith QArith List Bool PrimFloat.
From QE Require Import Base.Num Base.Cases.
Import ListNotations.
"""


def strip_coq_comments(s):
    out = []
    depth = 0
    i = 0
    while i < len(s):
        if s.startswith("(*", i):
            depth += 1
            i += 2
        elif s.startswith("*)", i) and depth:
            depth -= 1
            i += 2
        else:
            if not depth:
                out.append(s[i])
            i += 1
    return "".join(out)


def in_section(txt, pos):
    """True iff position pos is inside an open Section (Variables/Hypotheses there are not axioms)."""
    depth = 0
    for m in re.finditer(r"^\s*(Section|End)\s+([\w']+)\s*\.", txt[:pos], re.M):
        if m.group(1) == "Section":
            depth += 1
        else:
            depth = max(0, depth - 1)  # also closes Modules; only an approximation upward
    return depth > 0


def load_known_findings(prop):
    p = os.path.join(VERIF, "known_findings.json")
    if not os.path.exists(p):
        return []
    return [k for k in json.load(open(p)).get("findings", []) if k.get("property") == prop]


def _kf_match(k, rec):
    """A known finding suppresses only the failure class it names: same `kind`
    and, when given, every key of k['match'] equal in rec['input']."""
    m = k.get("match") or {}
    inp = rec.get("input") if isinstance(rec.get("input"), dict) else {}
    for key, val in m.items():
        if inp.get(key) != val:
            return False
    return True

"""C08: quadrature rules integrate exactly what their order promises."""
import itertools, math, os, sys, contextlib
import numpy as np
from common import *

IMPORTS = "From QE Require Import C08.Model."
T12 = "(1 # 1000000000000)"
T13 = "(1 # 10000000000000)"
T9 = "(1 # 1000000000)"
T6 = "(1 # 1000000)"
FINISH = dict(level="proof", technique_note=(
    "Coq theorems (coq/C08/Props.v) about the exact-rational model coq/C08/Model.v; closed-form rules, tensor products, "
    "affine maps and quadrect compared directly with the implementation (vm_compute over Q, 1e-12); Gauss kernels tied at "
    "output level: the model's three-term recurrence evaluated exactly at every returned node must vanish (|p|<=tol|p'|) and "
    "the model's weight formula must reproduce the returned weight; independent Fraction oracle: all monomial moments up to "
    "the degree of each rule, support, positivity, mass, tensor order, mean/covariance. non-trivial = rule with >= 2 nodes"))


@contextlib.contextmanager
def quiet_stdout():
    """numba's print() inside _qnwsimp1 writes to the C stdout; keep the verdict stream clean"""
    sys.stdout.flush()
    saved = os.dup(1)
    dn = os.open(os.devnull, os.O_WRONLY)
    os.dup2(dn, 1)
    try:
        yield
    finally:
        os.dup2(saved, 1)
        os.close(dn)
        os.close(saved)


def fl(a):
    return [frac(v) for v in np.atleast_1d(a).tolist()]


def fl2(a):
    return [[frac(v) for v in r] for r in np.atleast_2d(a).tolist()]


# ------------------------------------------------------------------ exact moments (independent of the model)
def mom_lebesgue(a, b, K):
    return [(b ** (k + 1) - a ** (k + 1)) / (k + 1) for k in range(K + 1)]


def mom_uniform(a, b, K):
    return [m / (b - a) for m in mom_lebesgue(a, b, K)]


def mom_normal(mu, s2, K):
    m = [Fraction(1), Fraction(mu)]
    for k in range(2, K + 1):
        m.append(mu * m[k - 1] + (k - 1) * s2 * m[k - 2])
    return m[:K + 1]


def mom_beta(a, b, K):
    m = [Fraction(1)]
    for k in range(K):
        m.append(m[-1] * (a + k) / (a + b + k))
    return m


def mom_gamma(a, scale, K):
    m = [Fraction(1)]
    for k in range(K):
        m.append(m[-1] * (a + k) * scale)
    return m


def check_rule_1d(x, w, lo, hi, moments, tol, open_support=False):
    """property for a one-dimensional rule: returns list of (kind, detail). x, w exact Fractions."""
    bad = []
    if lo is not None and any(v < lo or (open_support and v <= lo) for v in x):
        bad.append(("support", "node below the support"))
    if hi is not None and any(v > hi or (open_support and v >= hi) for v in x):
        bad.append(("support", "node above the support"))
    if any(v <= 0 for v in w):
        bad.append(("positivity", "non-positive weight"))
    for k, mk in enumerate(moments):
        s = sum(wi * xi ** k for xi, wi in zip(x, w))
        scale = max(sum(abs(wi) * abs(xi) ** k for xi, wi in zip(x, w)), abs(mk))
        if abs(s - mk) > tol * scale:
            bad.append(("moment", "degree %d: rule gives %.17g, exact %.17g" % (k, float(s), float(mk))))
            break
    return bad


def tensor_expected(rules):
    """independent definition of the product rule: first dimension fastest, node row r with weight r"""
    ns = [len(r[0]) for r in rules]
    N = int(np.prod(ns))
    nodes = np.empty((N, len(rules)))
    weights = np.ones(N)
    stride = 1
    r = np.arange(N)
    for i, (x, w) in enumerate(rules):
        idx = (r // stride) % ns[i]
        nodes[:, i] = np.asarray(x)[idx]
        weights = weights * np.asarray(w)[idx]
        stride *= ns[i]
    return nodes, weights


def dyadic_interval(rng, n=None, exact=False):
    if exact and n is not None and n >= 2:
        a = Fraction(rng.randrange(-64, 64), 8)
        h = Fraction(rng.choice([1, 2, 3, 5]), rng.choice([1, 2, 4, 8, 16]))
        return a, a + (n - 1) * h
    a = Fraction(rng.randrange(-256, 256), rng.choice([1, 2, 4, 16, 64]))
    return a, a + Fraction(rng.randrange(1, 400), rng.choice([1, 2, 8, 32]))


def pick(rng, n, thorough):
    """indices of the nodes whose kernel evaluation is replayed in Coq (exact rationals with ~53n-bit numerators:
    quick: all nodes for n <= 10, three per rule above; thorough: all for n <= 20, up to twelve per rule above;
    the moment oracle always uses all nodes)"""
    if n <= (20 if thorough else 10):
        return list(range(n))
    if thorough:
        return sorted({0, n - 1} | {rng.randrange(n) for _ in range(10)})
    return sorted({0, n - 1, rng.randrange(n)})


def rule_term(x, w):
    return tup(qlist(x), qlist(w))

class BadOutput(Exception):
    pass


def _finite_ok(o):
    """(kind, detail) if an implementation output is unusable, else None"""
    if isinstance(o, (tuple, list)):
        for v in o:
            r = _finite_ok(v)
            if r:
                return r
        return None
    a = np.asarray(o)
    if a.dtype == object or not (np.issubdtype(a.dtype, np.floating) or np.issubdtype(a.dtype, np.integer)):
        return ("bad_shape", "output of dtype %s" % a.dtype)
    if not np.isfinite(a).all():
        return ("nonfinite_output", "%d non-finite entries (nan/inf)" % int((~np.isfinite(a)).sum()))
    return None


class Guard:
    """proxy of quantecon.quad: every call is recorded (so that any later problem can be attributed to a concrete call) and its
    output validated before the harness converts it to exact rationals: non-finite values / wrong dtypes / inconsistent
    (nodes, weights) shapes become oracle failures with the call as failing input; non-finite entries are replaced by 0 so that
    the remaining checks of the case still run"""

    def __init__(self, ctx, mod):
        self._ctx, self._mod, self.last = ctx, mod, None

    def __getattr__(self, name):
        fn = getattr(self._mod, name)
        if not callable(fn):
            return fn

        def call(*args, **kwargs):
            inp = {"call": name, "args": [a if not callable(a) else "<function>" for a in args], "kwargs": {k: (v if not callable(v) else "<function>") for k, v in kwargs.items()}}
            self.last = inp
            out = fn(*args, **kwargs)
            bad = _finite_ok(out)
            if bad is None and isinstance(out, tuple) and len(out) == 2:
                x, w = np.asarray(out[0]), np.asarray(out[1])
                if w.ndim != 1 or w.size == 0 or x.size == 0 or x.size % w.size != 0:      # nodes are n x d, possibly squeezed
                    bad = ("bad_shape", "nodes of shape %s with weights of shape %s" % (x.shape, w.shape))
            if bad:
                self._ctx.fail(bad[0], "%s returns %s" % (name, bad[1]), inp)
                if bad[0] == "bad_shape":
                    raise BadOutput(bad[1])
                out = tuple(np.nan_to_num(np.asarray(v, dtype=float), nan=0.0, posinf=0.0, neginf=0.0) for v in out) if isinstance(out, tuple) \
                    else np.nan_to_num(np.asarray(out, dtype=float), nan=0.0, posinf=0.0, neginf=0.0)
            return out
        return call


def run(ctx):
    """never let a malformed implementation output crash the harness: it is reported as an oracle failure with the last call"""
    guard = {}
    import random as _random
    for attempt in range(3):
        if attempt:      # start over after an I/O error of the shared numba cache (infrastructure, not the implementation)
            ctx.rng = _random.Random(ctx.seed * 1000003 + int(ctx.prop[1:]))
            ctx.evaluations, ctx.nontrivial, ctx.samples, ctx.dist, ctx.corr, ctx.coq_cases_total = 0, set(), [], {}, {}, 0
            ctx.failures, ctx.mismatches, ctx.known_hits, ctx.obligations = [], [], [], []
            ctx.notes.append('restarted after an I/O error of the shared numba cache')
        try:
            _run(ctx, guard)
            break
        except OSError:
            if attempt == 2:
                raise
            continue
        except BadOutput:
            pass
        except Exception as e:
            g = guard.get("Q")
            import traceback as _tb
            if g is not None and g.last is not None:
                ctx.fail("harness_exception_after_call", "the oracle could not process the output of this call: %r (%s)" % (e, _tb.format_exc().strip().splitlines()[-3].strip()[:120]), g.last)
            else:
                raise
        break


def _run(ctx, guard):
    import quantecon.quad as _Qreal
    Q = Guard(ctx, _Qreal)
    guard["Q"] = Q
    import scipy.linalg as la
    thorough = ctx.tier == "thorough"
    rng = ctx.rng
    ctx.proofs()
    reps = 4 if thorough else 1
    jobs = []     # Coq correspondence checks are queued and evaluated concurrently at the end

    def queue(name, ctype, ok, cases, meta, label, chunk, preamble=""):
        jobs.append((name, ctype, ok, list(cases), list(meta), label, chunk, preamble))

    def fail(kind, what, inp, impl=None, expected=None):
        ctx.fail(kind, what, inp, impl, expected)

    # ================================================================ closed-form 1-d rules
    if os.environ.get("VERIF_DEBUG"): sys.stderr.write("[%6.1fs] closed-form 1-d rules\n" % (__import__("time").time() - ctx.t0))
    cases, meta = [], []
    for name, fn, n0, deg in (("qnwtrap", Q.qnwtrap, 2, 1), ("qnwsimp", Q.qnwsimp, 2, 3)):
        for n in range(n0, 31):
            for rep in range(2 * reps):
                a, b = dyadic_interval(rng, n if (name == "qnwtrap" or n % 2) else n + 1, exact=(rep % 2 == 0))
                with quiet_stdout():
                    x, w = fn(n, float(a), float(b))
                x, w = fl(x), fl(w)
                inp = {"call": name, "n": n, "a": a, "b": b}
                ctx.case((name, n, a, b), nontrivial=True, sample={"call": name, "n": n, "a": a, "b": b, "nodes": [float(v) for v in x[:3]]})
                ctx.count("%s:n%s" % (name, "<=5" if n <= 5 else ">5"))
                nn = n if name == "qnwtrap" or n % 2 else n + 1
                if len(x) != nn or len(w) != nn:
                    fail("closed_form_length", "%s returns %d nodes for n=%d" % (name, len(x), n), inp, len(x), nn)
                for kind, det in check_rule_1d(x, w, a, b, mom_lebesgue(a, b, deg), Fraction(1, 10**12)):
                    fail("closed_form_" + kind, "%s: %s" % (name, det), inp, [[float(v) for v in x], [float(v) for v in w]])
                cases.append(tup(blit(name == "qnwsimp"), natlit(n), qlit(a), qlit(b), qlist(x), qlist(w)))
                meta.append(inp)
    ok = ("fun c => let '(s, n, a, b, xs, ws) := c in match (if s then qnwsimp1 n a b else qnwtrap1 n a b) with "
          "| Some (mx, mw) => Qs_close %s mx xs && Qs_relclose %s mw ws | None => false end" % (T12, T12))
    queue("closed_form_1d", "bool * nat * Q * Q * list Q * list Q", ok, cases, meta, "C08.Model.qnwtrap1/qnwsimp1 vs quad._qnwtrap1/_qnwsimp1", 40, "")

    # ================================================================ closed-form tensor products
    if os.environ.get("VERIF_DEBUG"): sys.stderr.write("[%6.1fs] closed-form tensor products\n" % (__import__("time").time() - ctx.t0))
    cases, meta = [], []
    shapes = [(2, 2), (3, 2), (2, 3), (3, 3), (30, 2), (2, 30), (7, 30), (5, 5), (2, 2, 2), (3, 2, 4), (4, 3, 2), (2, 5, 3),
              (30, 3, 5), (3, 3, 3), (9, 2, 30)]
    for _ in range(12 * reps):
        d = rng.choice([2, 3])
        shapes.append(tuple(rng.randrange(2, 31 if d == 2 else 12) for _ in range(d)))
    big = [(30, 30, 30), (30, 30), (29, 30, 7), (13, 13, 13)] if thorough else [(30, 30, 9), (30, 30)]
    for name, fn in (("qnwtrap", Q.qnwtrap), ("qnwsimp", Q.qnwsimp)):
        for shp in shapes + big:
            d = len(shp)
            ab = [dyadic_interval(rng, n, exact=True) for n in shp]
            a = [float(p[0]) for p in ab]
            b = [float(p[1]) for p in ab]
            with quiet_stdout():
                nodes, weights = fn(list(shp), a, b)
                rules = [fn(n, lo, hi) for n, lo, hi in zip(shp, a, b)]
            inp = {"call": name, "n": list(shp), "a": a, "b": b}
            ctx.case((name, shp, tuple(a), tuple(b)), nontrivial=True)
            ctx.count("tensor:%s:d=%d" % (name, d))
            en, ew = tensor_expected(rules)
            if nodes.shape != en.shape or not np.array_equal(nodes, en):
                fail("tensor_order", "%s nodes are not the product grid with the first dimension fastest" % name, inp)
            elif weights.shape != ew.shape or not np.allclose(weights, ew, rtol=1e-13, atol=0):
                fail("tensor_order", "%s weight r is not the product of the 1-d weights of node row r" % name, inp)
            else:
                # exactness of the product rule on product monomials (degree per dimension: 1 resp. 3)
                deg = 1 if name == "qnwtrap" else 3
                if len(weights) <= 3000:
                    fx, fw = fl2(nodes), fl(weights)
                    for es in {tuple([deg] * d), tuple(rng.randrange(deg + 1) for _ in range(d)), tuple([0] * d)}:
                        s = sum(wv * math.prod(xv ** e for xv, e in zip(row, es)) for row, wv in zip(fx, fw))
                        ex = math.prod(mom_lebesgue(Fraction(lo), Fraction(hi), deg)[e] for (lo, hi), e in zip(ab, es))
                        scale = max(abs(ex), sum(abs(wv) * abs(math.prod(xv ** e for xv, e in zip(row, es))) for row, wv in zip(fx, fw)))
                        if abs(s - ex) > Fraction(1, 10**12) * scale:
                            fail("tensor_moment", "%s product rule not exact on monomial %s" % (name, es), inp, float(s), float(ex))
            if len(weights) <= 600:
                cases.append(tup(blit(name == "qnwsimp"), "[" + "; ".join(tup(natlit(n), qlit(p[0]), qlit(p[1])) for n, p in zip(shp, ab)) + "]",
                                 qlist2(fl2(nodes)), qlist(fl(weights))))
                meta.append(inp)
    ok = ("fun c => let '(s, ps, xs, ws) := c in match (if s then qnwsimp ps else qnwtrap ps) with "
          "| Some (mx, mw) => Qss_close %s mx xs && Qs_relclose %s mw ws | None => false end" % (T12, T12))
    queue("closed_form_tensor", "bool * list (nat * Q * Q) * list (list Q) * list Q", ok, cases, meta, "C08.Model.make_multidim (gridmake / reversed ckron) vs quad._make_multidim_func", 6, "")

    # ================================================================ _ce_util.gridmake / ckron directly (integer data: exact)
    if os.environ.get("VERIF_DEBUG"): sys.stderr.write("[%6.1fs] _ce_util.gridmake / ckron directly (inte\n" % (__import__("time").time() - ctx.t0))
    from quantecon._ce_util import gridmake as ce_gridmake, ckron as ce_ckron
    gcases_, gmeta_ = [], []
    for _ in range(25 * reps):
        d = rng.choice([2, 2, 3])
        arrs = [np.array([float(rng.randrange(-9, 10)) for _ in range(rng.randrange(1, 6))]) for _ in range(d)]
        G = ce_gridmake(*arrs)
        K = ce_ckron(*arrs)
        inp = {"call": "gridmake/ckron", "arrays": [a.tolist() for a in arrs]}
        ctx.case(("gridmake", tuple(tuple(a.tolist()) for a in arrs)), nontrivial=True)
        ctx.count("ce_util:d=%d" % d)
        eg = np.array([list(t[::-1]) for t in itertools.product(*arrs[::-1])]).reshape(-1, d)
        ek = np.array([math.prod(t) for t in itertools.product(*arrs)])
        if not (np.array_equal(G, eg) and np.array_equal(K, ek)):
            fail("ce_util", "gridmake is not the product grid (first array fastest) or ckron not the Kronecker product", inp, G.tolist())
        gcases_.append(tup(qlist2(fl2(a.reshape(1, -1))[0:1] if False else [fl(a) for a in arrs]), qlist2(fl2(G)), qlist(fl(K))))
        gmeta_.append(inp)
    ok = ("fun c => let '(arrs, G, K) := c in match gridmake arrs with Some M => Qss_eqb M G | None => false end "
          "&& Qs_eqb (ckron arrs) K")
    queue("ce_util", "list (list Q) * list (list Q) * list Q", ok, gcases_, gmeta_, "C08.Model.gridmake/ckron vs _ce_util.gridmake/ckron", 30)

    # ================================================================ Gauss-Legendre: kernel, affine map, qnwunif, tensor
    if os.environ.get("VERIF_DEBUG"): sys.stderr.write("[%6.1fs] Gauss-Legendre: kernel, affine map, qnwu\n" % (__import__("time").time() - ctx.t0))
    kcases, kmeta, acases, ameta, tcases, tmeta, ucases, umeta, rcases, rmeta = [], [], [], [], [], [], [], [], [], []
    std = {}
    for n in range(1, 31):
        x, w = Q.qnwlege(n, -1.0, 1.0)
        x, w = fl(x), fl(w)
        std[n] = (x, w)
        inp = {"call": "qnwlege", "n": n, "a": -1, "b": 1}
        ctx.case(("qnwlege", n, -1, 1), nontrivial=n >= 2, sample={"call": "qnwlege", "n": n, "nodes": [float(v) for v in x[:3]]})
        ctx.count("qnwlege:std")
        for kind, det in check_rule_1d(x, w, -1, 1, mom_lebesgue(Fraction(-1), Fraction(1), 2 * n - 1), Fraction(1, 10**10), True):
            fail("lege_" + kind, "qnwlege: %s" % det, inp, [[float(v) for v in x], [float(v) for v in w]])
        for i in pick(rng, n, thorough):
            kcases.append(tup(natlit(n), qlit(x[i]), qlit(w[i])))
            kmeta.append(dict(inp, node=i))
        m = (n + 1) // 2
        zs = [-x[i] for i in range(m)]
        if n % 2:
            zs[m - 1] = x[m - 1]
        for rep in range(reps):
            a, b = dyadic_interval(rng)
            xa, wa = Q.qnwlege(n, float(a), float(b))
            xa, wa = fl(xa), fl(wa)
            inp = {"call": "qnwlege", "n": n, "a": a, "b": b}
            ctx.case(("qnwlege", n, a, b), nontrivial=n >= 2)
            ctx.count("qnwlege:affine")
            for kind, det in check_rule_1d(xa, wa, a, b, mom_lebesgue(a, b, 2 * n - 1), Fraction(1, 10**10), True):
                fail("lege_" + kind, "qnwlege: %s" % det, inp, [[float(v) for v in xa], [float(v) for v in wa]])
            acases.append(tup(qlit(a), qlit(b), rule_term(x, w), qlist(xa), qlist(wa)))
            ameta.append(inp)
            if n <= 8:
                rcases.append(tup(natlit(n), qlit(a), qlit(b), qlist(zs), qlist(xa), qlist(wa)))
                rmeta.append(inp)
            xu, wu = Q.qnwunif(n, float(a), float(b))
            xu, wu = fl(xu), fl(wu)
            inp = {"call": "qnwunif", "n": n, "a": a, "b": b}
            ctx.case(("qnwunif", n, a, b), nontrivial=n >= 2)
            for kind, det in check_rule_1d(xu, wu, a, b, mom_uniform(a, b, 2 * n - 1), Fraction(1, 10**10), True):
                fail("unif_" + kind, "qnwunif: %s" % det, inp, [[float(v) for v in xu], [float(v) for v in wu]])
            ucases.append(tup(qlist(wa), qlist([a]), qlist([b]), qlist(wu)))
            umeta.append(inp)
    ok = "fun c => let '(n, x, w) := c in node_ok %s %s (lege_node n 1 x) w" % (T13, T12)
    queue("lege_kernel", "nat * Q * Q", ok, kcases, kmeta, "C08.Model.lege_eval/lege_weight (Legendre recurrence and weight formula) vs quad._qnwlege1 output", 12, "")
    ok = ("fun c => let '(a, b, r, xs, ws) := c in let '(mx, mw) := affine_rule a b r in "
          "Qs_close %s mx xs && Qs_relclose %s mw ws" % (T12, T12))
    queue("lege_affine", "Q * Q * (list Q * list Q) * list Q * list Q", ok, acases, ameta, "C08.Model.affine_rule (xm + xl t, xl w) vs quad._qnwlege1 on [a,b]", 10, "")
    ok = ("fun c => let '(n, a, b, zs, xs, ws) := c in let '(mx, mw) := qnwlege1_from_roots n a b zs in "
          "Qs_close %s mx xs && Qs_relclose %s mw ws" % (T12, T12))
    queue("lege_from_roots", "nat * Q * Q * list Q * list Q * list Q", ok, rcases, rmeta, "C08.Model.qnwlege1_from_roots (mirrored placement of roots, weights) vs quad._qnwlege1", 4, "")
    # multi-dimensional Legendre / uniform
    lshapes = [(1, 1), (1, 2), (2, 1), (2, 2), (3, 3), (30, 2), (2, 30), (1, 30), (5, 7), (2, 2, 2), (1, 2, 3), (3, 1, 2), (4, 4, 4), (30, 3, 4), (2, 3, 30)]
    for _ in range(10 * reps):
        d = rng.choice([2, 3])
        lshapes.append(tuple(rng.randrange(1, 31 if d == 2 else 10) for _ in range(d)))
    for shp in lshapes + (big if thorough else [(30, 30)]):
        d = len(shp)
        ab = [dyadic_interval(rng) for _ in shp]
        a = [float(p[0]) for p in ab]
        b = [float(p[1]) for p in ab]
        for name, fn in (("qnwlege", Q.qnwlege), ("qnwunif", Q.qnwunif)):
            nodes, weights = fn(list(shp), a, b)
            rules = [Q.qnwlege(n, lo, hi) for n, lo, hi in zip(shp, a, b)]
            inp = {"call": name, "n": list(shp), "a": a, "b": b}
            ctx.case((name, shp, tuple(a), tuple(b)), nontrivial=max(shp) >= 2)
            ctx.count("tensor:%s:d=%d" % (name, d))
            en, ew = tensor_expected(rules)
            if name == "qnwunif":
                ew = ew / float(np.prod(np.array(b) - np.array(a)))
            if nodes.shape != en.shape or not np.array_equal(nodes, en):
                fail("tensor_order", "%s nodes are not the product grid with the first dimension fastest" % name, inp)
            elif weights.shape != ew.shape or not np.allclose(weights, ew, rtol=1e-13, atol=0):
                fail("tensor_order", "%s weight r is not the product of the 1-d weights of node row r" % name, inp)
            elif len(weights) <= 1200:
                fx, fw = fl2(nodes), fl(weights)
                mfun = mom_lebesgue if name == "qnwlege" else mom_uniform
                for es in {tuple(2 * n - 1 for n in shp), tuple(rng.randrange(2 * n) for n in shp), tuple([0] * d)}:
                    terms = [wv * math.prod(xv ** e for xv, e in zip(row, es)) for row, wv in zip(fx, fw)]
                    s = sum(terms)
                    ex = math.prod(mfun(p[0], p[1], 2 * n - 1)[e] for p, n, e in zip(ab, shp, es))
                    scale = max(abs(ex), sum(abs(t) for t in terms))
                    if abs(s - ex) > Fraction(1, 10**10) * scale:
                        fail("tensor_moment", "%s product rule not exact on monomial %s" % (name, es), inp, float(s), float(ex))
            if name == "qnwlege" and len(weights) <= 500:
                tcases.append(tup("[" + "; ".join(rule_term(fl(x), fl(w)) for x, w in rules) + "]", qlist2(fl2(nodes)), qlist(fl(weights))))
                tmeta.append(inp)
            if name == "qnwunif" and len(weights) <= 150:
                lw = Q.qnwlege(list(shp), a, b)[1]
                ucases.append(tup(qlist(fl(lw)), qlist([p[0] for p in ab]), qlist([p[1] for p in ab]), qlist(fl(weights))))
                umeta.append(inp)
    ok = ("fun c => let '(rules, xs, ws) := c in match tensor_rule rules with "
          "| Some (mx, mw) => Qss_eqb mx xs && Qs_relclose %s mw ws | None => false end" % T12)
    queue("gauss_tensor", "list (list Q * list Q) * list (list Q) * list Q", ok, tcases, tmeta, "C08.Model.tensor_rule (gridmake / reversed ckron) vs quad._make_multidim_func(_qnwlege1)", 4, "")
    ok = "fun c => let '(lw, a, b, uw) := c in Qs_relclose %s (unif_weights lw a b) uw" % T12
    queue("qnwunif_weights", "list Q * list Q * list Q * list Q", ok, ucases, umeta, "C08.Model.unif_weights vs quad.qnwunif", 30, "")

    # ================================================================ qnwnorm / qnwlogn
    if os.environ.get("VERIF_DEBUG"): sys.stderr.write("[%6.1fs] qnwnorm / qnwlogn\n" % (__import__("time").time() - ctx.t0))
    hcases, hmeta, ncases, nmeta, mcases, mmeta = [], [], [], [], [], []
    for n in range(1, 31):
        x, w = Q.qnwnorm(n)
        x, w = fl(x), fl(w)
        inp = {"call": "qnwnorm", "n": n}
        ctx.case(("qnwnorm", n), nontrivial=n >= 2, sample={"call": "qnwnorm", "n": n, "nodes": [float(v) for v in x[:3]]})
        ctx.count("qnwnorm:std")
        for kind, det in check_rule_1d(x, w, None, None, mom_normal(0, 1, 2 * n - 1), Fraction(1, 10**10)):
            fail("norm_" + kind, "qnwnorm: %s" % det, inp, [[float(v) for v in x], [float(v) for v in w]])
        for i in pick(rng, n, thorough):
            hcases.append(tup(natlit(n), qlit(x[i]), qlit(w[i])))
            hmeta.append(dict(inp, node=i))
        for rep in range(reps):
            s = Fraction(rng.randrange(1, 40), rng.choice([1, 2, 4, 8]))
            mu = Fraction(rng.randrange(-80, 80), 8)
            xs, ws = Q.qnwnorm(n, float(mu), float(s * s))
            xs, ws = fl(xs), fl(ws)
            inp = {"call": "qnwnorm", "n": n, "mu": mu, "sig2": s * s}
            ctx.case(("qnwnorm", n, mu, s), nontrivial=n >= 2)
            ctx.count("qnwnorm:1d-affine")
            for kind, det in check_rule_1d(xs, ws, None, None, mom_normal(mu, s * s, 2 * n - 1), Fraction(1, 10**10)):
                fail("norm_" + kind, "qnwnorm: %s" % det, inp, [[float(v) for v in xs], [float(v) for v in ws]])
            ncases.append(tup(qlist(x), qlit(s), qlit(mu), qlist(xs)))
            nmeta.append(inp)
            xl, wl = Q.qnwlogn(n, float(mu) / 16, float(s * s) / 64)
            xn, wn = Q.qnwnorm(n, float(mu) / 16, float(s * s) / 64)
            ctx.case(("qnwlogn", n, mu, s), nontrivial=n >= 2)
            if not (np.array_equal(np.atleast_1d(xl), np.exp(np.atleast_1d(xn))) and np.array_equal(wl, wn)):
                fail("logn_image", "qnwlogn is not the exponential image of qnwnorm", {"call": "qnwlogn", "n": n, "mu": mu / 16, "sig2": s * s / 64})
    ok = "fun c => let '(n, x, w) := c in node_ok %s %s (herm_node n x) w" % (T13, T12)
    queue("hermite_kernel", "nat * Q * Q", ok, hcases, hmeta, "C08.Model.herm_eval/herm_weight (Hermite recurrence, weight formula) vs quad._qnwnorm1 output", 12, "")
    ok = "fun c => let '(xs, s, mu, ys) := c in Qs_close %s (norm_map1 xs s mu) ys" % T12
    queue("qnwnorm_map_1d", "list Q * Q * Q * list Q", ok, ncases, nmeta, "C08.Model.norm_map1 vs quad.qnwnorm (d=1 affine map)", 30, "")
    nshapes = [(1, 1), (2, 2), (1, 3), (3, 2), (5, 4), (30, 2), (2, 30), (2, 2, 2), (3, 1, 2), (4, 3, 5), (2, 3, 30), (7, 7)]
    for _ in range(8 * reps):
        d = rng.choice([2, 3])
        nshapes.append(tuple(rng.randrange(1, 31 if d == 2 else 9) for _ in range(d)))
    for shp in nshapes + ([(30, 30, 30)] if thorough else [(30, 30)]):
        d = len(shp)
        # identity covariance: the untransformed product grid is observable
        nodes0, weights0 = Q.qnwnorm(list(shp), np.zeros(d), np.eye(d))
        rules = [Q.qnwnorm(n) for n in shp]
        rules = [(np.atleast_1d(x), w) for x, w in rules]
        inp0 = {"call": "qnwnorm", "n": list(shp), "mu": [0] * d, "sig2": "identity"}
        ctx.case(("qnwnorm-id", shp), nontrivial=max(shp) >= 2)
        ctx.count("tensor:qnwnorm:d=%d" % d)
        en, ew = tensor_expected(rules)
        nodes0 = np.atleast_2d(nodes0) if nodes0.ndim == 2 else nodes0.reshape(len(ew), d)
        if nodes0.shape != en.shape or not np.array_equal(nodes0 + 0.0, en + 0.0):
            fail("tensor_order", "qnwnorm nodes (identity covariance) are not the product grid with the first dimension fastest", inp0)
            continue
        if weights0.shape != ew.shape or not np.allclose(weights0, ew, rtol=1e-13, atol=0):
            fail("tensor_order", "qnwnorm weight r is not the product of the 1-d weights of node row r", inp0)
            continue
        for usesqrtm in (False, True):
            U = np.triu(np.array([[rng.randrange(-8, 9) / 4.0 for _ in range(d)] for _ in range(d)]))
            for i in range(d):
                U[i, i] = rng.randrange(1, 9) / 4.0
            mu = np.array([rng.randrange(-40, 40) / 8.0 for _ in range(d)])
            sig2 = U.T @ U
            nodes, weights = Q.qnwnorm(list(shp), mu, sig2, usesqrtm=usesqrtm)
            nodes = nodes.reshape(len(weights), d)
            inp = {"call": "qnwnorm", "n": list(shp), "mu": mu.tolist(), "sig2": sig2.tolist(), "usesqrtm": usesqrtm}
            ctx.case(("qnwnorm", shp, tuple(mu), tuple(sig2.ravel()), usesqrtm), nontrivial=max(shp) >= 2)
            ctx.count("qnwnorm:%s" % ("sqrtm" if usesqrtm else "cholesky"))
            if not np.array_equal(weights, weights0):
                fail("norm_weights", "qnwnorm weights depend on mu/sig2", inp)
            fx, fw = fl2(nodes), fl(weights)
            fmu, fs = fl(mu), fl2(sig2)
            mass = sum(fw)
            mean = [sum(wv * row[i] for row, wv in zip(fx, fw)) for i in range(d)]
            tol = Fraction(1, 10**10)
            okm = abs(mass - 1) <= tol and all(abs(mean[i] - fmu[i]) <= tol * (1 + abs(fmu[i])) for i in range(d))
            if not okm:
                fail("norm_mean", "qnwnorm does not reproduce mass 1 / the mean vector", inp, [float(mass)] + [float(v) for v in mean], mu.tolist())
            # covariance is reproduced when every dimension has at least 2 nodes (degree-2 exactness)
            if min(shp) >= 2:
                for i in range(d):
                    for j in range(d):
                        cij = sum(wv * (row[i] - fmu[i]) * (row[j] - fmu[j]) for row, wv in zip(fx, fw))
                        if abs(cij - fs[i][j]) > tol * (1 + abs(fs[i][j])):
                            fail("norm_cov", "qnwnorm does not reproduce the covariance matrix (entry %d,%d)" % (i, j), inp, float(cij), float(fs[i][j]))
            if len(weights) <= 200:
                R = la.sqrtm(sig2) if usesqrtm else la.cholesky(sig2)
                mcases.append(tup(qlist2(fl2(nodes0)), qlist2(fl2(np.real(R))), qlist(fmu), qlist2(fx)))
                mmeta.append(inp)
    ok = "fun c => let '(xs, R, mu, ys) := c in Qss_close %s (norm_map xs R mu) ys" % T12
    queue("qnwnorm_map", "list (list Q) * list (list Q) * list Q * list (list Q)", ok, mcases, mmeta, "C08.Model.norm_map (nodes.R + mu) vs quad.qnwnorm", 6, "")

    # ================================================================ qnwbeta / qnwgamma
    if os.environ.get("VERIF_DEBUG"): sys.stderr.write("[%6.1fs] qnwbeta / qnwgamma\n" % (__import__("time").time() - ctx.t0))
    bcases, bmeta, gcases, gmeta = [], [], [], []
    for n in range(1, 31):
        for rep in range(2 * reps):
            a = Fraction(rng.randrange(13, 512), 64)
            b = Fraction(rng.randrange(13, 512), 64)
            if rep == 0 and n % 3 == 0:
                a, b = b, Fraction(rng.choice([16, 19, 24, 64, 128]), 64)   # endpoint exponents near 0.3 / integers
            inp = {"call": "qnwbeta", "n": n, "a": a, "b": b}
            try:
                x, w = Q.qnwbeta(n, float(a), float(b))
            except ValueError as e:
                fail("beta_no_convergence", "qnwbeta raises for admissible parameters: %s" % e, inp)
                continue
            x, w = fl(x), fl(w)
            ctx.case(("qnwbeta", n, a, b), nontrivial=n >= 2, sample={"call": "qnwbeta", "n": n, "a": a, "b": b, "nodes": [float(v) for v in x[:3]]})
            ctx.count("qnwbeta")
            for kind, det in check_rule_1d(x, w, 0, 1, mom_beta(a, b, 2 * n - 1), Fraction(1, 10**6), True):
                fail("beta_" + kind, "qnwbeta: %s" % det, inp, [[float(v) for v in x], [float(v) for v in w]])
            for i in (pick(rng, n, thorough) if (rep == 0 or n <= 12) else []):
                bcases.append(tup(natlit(n), qlit(a - 1), qlit(b - 1), qlit(1 - 2 * x[i]), qlit(w[i])))
                bmeta.append(dict(inp, node=i))
            a = Fraction(rng.randrange(13, 512), 64)
            sc = Fraction(2) ** rng.randrange(-3, 4)
            inp = {"call": "qnwgamma", "n": n, "a": a, "b": sc}
            try:
                x, w = Q.qnwgamma(n, float(a), float(sc))
            except ValueError as e:
                fail("gamma_no_convergence", "qnwgamma raises for admissible parameters: %s" % e, inp)
                continue
            x, w = fl(x), fl(w)
            ctx.case(("qnwgamma", n, a, sc), nontrivial=n >= 2)
            ctx.count("qnwgamma")
            for kind, det in check_rule_1d(x, w, 0, None, mom_gamma(a, sc, 2 * n - 1), Fraction(1, 10**6), True):
                fail("gamma_" + kind, "qnwgamma: %s" % det, inp, [[float(v) for v in x], [float(v) for v in w]])
            for i in (pick(rng, n, thorough) if (rep == 0 or n <= 12 or (thorough and rep < 2)) else []):
                gcases.append(tup(natlit(n), qlit(a - 1), qlit(x[i] / sc), qlit(w[i])))
                gmeta.append(dict(inp, node=i))
    ok = "fun c => let '(n, a, b, z, w) := c in node_ok %s %s (jac_node n a b z) w" % (T13, T6)
    queue("jacobi_kernel", "nat * Q * Q * Q * Q", ok, bcases, bmeta, "C08.Model.jac_eval/jac_weight (Jacobi recurrence, weight formula, gamma factors) vs quad._qnwbeta1 output", 10, "")
    ok = "fun c => let '(n, a, z, w) := c in node_ok %s %s (lag_node n a z) w" % (T12, T9)
    queue("laguerre_kernel", "nat * Q * Q * Q", ok, gcases, gmeta, "C08.Model.lag_eval/lag_weight (Laguerre recurrence, weight formula, gamma factor) vs quad._qnwgamma1 output", 10, "")
    # multi-dimensional beta / gamma: tensor order
    for shp in [(2, 3), (3, 2), (1, 4), (5, 5), (2, 2, 2), (3, 2, 4), (30, 2), (2, 3, 9)]:
        d = len(shp)
        a = [rng.randrange(13, 512) / 64 for _ in shp]
        b = [rng.randrange(13, 512) / 64 for _ in shp]
        for name, fn in (("qnwbeta", Q.qnwbeta), ("qnwgamma", Q.qnwgamma)):
            nodes, weights = fn(list(shp), a, b)
            rules = [fn(n, lo, hi) for n, lo, hi in zip(shp, a, b)]
            rules = [(np.atleast_1d(x), np.atleast_1d(w)) for x, w in rules]
            inp = {"call": name, "n": list(shp), "a": a, "b": b}
            ctx.case((name, shp, tuple(a), tuple(b)), nontrivial=True)
            ctx.count("tensor:%s:d=%d" % (name, d))
            en, ew = tensor_expected(rules)
            if nodes.shape != en.shape or not np.array_equal(nodes, en):
                fail("tensor_order", "%s nodes are not the product grid with the first dimension fastest" % name, inp)
            elif weights.shape != ew.shape or not np.allclose(weights, ew, rtol=1e-13, atol=0):
                fail("tensor_order", "%s weight r is not the product of the 1-d weights of node row r" % name, inp)

    # ================================================================ qnwequi, qnwcheb, quadrect
    if os.environ.get("VERIF_DEBUG"): sys.stderr.write("[%6.1fs] qnwequi, qnwcheb, quadrect\n" % (__import__("time").time() - ctx.t0))
    ecases, emeta, qcases, qmeta = [], [], [], []
    for _ in range(40 * reps):
        d = rng.choice([1, 1, 2, 3])
        n = [rng.randrange(1, 31 if d == 1 else 8) for _ in range(d)]
        ab = [dyadic_interval(rng) for _ in range(d)]
        a = [float(p[0]) for p in ab]
        b = [float(p[1]) for p in ab]
        kind = rng.choice("NWHR")
        nodes, weights = Q.qnwequi(n if d > 1 else n[0], a if d > 1 else a[0], b if d > 1 else b[0], kind, random_state=rng.randrange(10**6))
        N = int(np.prod(n))
        inp = {"call": "qnwequi", "n": n, "a": a, "b": b, "kind": kind}
        ctx.case(("qnwequi", tuple(n), tuple(a), tuple(b), kind), nontrivial=N >= 2)
        ctx.count("qnwequi:%s:d=%d" % (kind, d))
        vol = math.prod(p[1] - p[0] for p in ab)
        fw = fl(weights)
        if len(fw) != N or any(abs(wv - vol / N) > Fraction(1, 10**12) * vol / N for wv in fw):
            fail("equi_weights", "qnwequi weights are not volume/n", inp, [float(v) for v in fw[:4]], float(vol / N))
        nd = np.asarray(nodes, dtype=float).reshape(N, d)
        if not all(((nd[:, i] >= a[i]) & (nd[:, i] <= b[i])).all() for i in range(d)):
            fail("equi_support", "qnwequi node outside the box", inp)
        ecases.append(tup(natlit(N), qlist([p[0] for p in ab]), qlist([p[1] for p in ab]), qlist(fw)))
        emeta.append(inp)
    ok = "fun c => let '(n, a, b, ws) := c in Qs_relclose %s (equi_weights n a b) ws" % T12
    queue("qnwequi_weights", "nat * list Q * list Q * list Q", ok, ecases, emeta, "C08.Model.equi_weights vs quad.qnwequi", 30, "")
    for n in list(range(1, 31)):
        a, b = dyadic_interval(rng)
        x, w = Q.qnwcheb(n, float(a), float(b))
        x, w = fl(x), fl(w)
        ctx.case(("qnwcheb", n, a, b), nontrivial=n >= 2)
        ctx.count("qnwcheb")
        # Fejer's first rule: interpolatory on n Chebyshev points, exact to degree n-1
        for kind, det in check_rule_1d(x, w, a, b, mom_lebesgue(a, b, n - 1), Fraction(1, 10**10), True):
            fail("cheb_" + kind, "qnwcheb: %s" % det, {"call": "qnwcheb", "n": n, "a": a, "b": b})
    kinds = ["lege", "cheb", "trap", "simp", "N", "W", "H", "R"]
    for _ in range(60 * reps):
        d = rng.choice([1, 1, 2, 3])
        kind = rng.choice(kinds)
        lo = 3 if kind in ("trap", "simp") else 2
        n = [rng.randrange(lo, 13 if d == 1 else 7) for _ in range(d)]
        ab = [(Fraction(rng.randrange(-16, 16), 8), None) for _ in range(d)]
        ab = [(p[0], p[0] + Fraction(rng.randrange(1, 24), 8)) for p in ab]
        a = [float(p[0]) for p in ab]
        b = [float(p[1]) for p in ab]
        es = [rng.randrange(0, 4) for _ in range(d)]
        cs = rng.randrange(-3, 4)
        seed = rng.randrange(10**6)
        if d == 1:
            f = lambda x, es=es, cs=cs: cs + x ** es[0]
            args = (n[0], a[0], b[0])
        else:
            f = lambda x, es=es, cs=cs: cs + np.prod(x ** np.array(es), axis=1)
            args = (n, a, b)
        with quiet_stdout():
            out = Q.quadrect(f, *args, kind=kind, random_state=seed)
            fn = {"lege": Q.qnwlege, "cheb": Q.qnwcheb, "trap": Q.qnwtrap, "simp": Q.qnwsimp}.get(kind)
            nodes, weights = fn(*args) if fn else Q.qnwequi(*args, kind, random_state=seed)
        out = float(np.asarray(out).reshape(-1)[0])
        inp = {"call": "quadrect", "kind": kind, "n": n, "a": a, "b": b, "exponents": es, "const": cs, "seed": seed}
        ctx.case(("quadrect", kind, tuple(n), tuple(a), tuple(b), tuple(es), cs), nontrivial=True,
                 sample={"call": "quadrect", "kind": kind, "n": n, "a": a, "b": b, "out": float(out)})
        ctx.count("quadrect:%s:d=%d" % (kind, d))
        fx = fl2(np.asarray(nodes, dtype=float).reshape(len(weights), d))
        fw = fl(weights)
        terms = [wv * (cs + math.prod(xv ** e for xv, e in zip(row, es))) for row, wv in zip(fx, fw)]
        ex = sum(terms)
        scale = max(1, sum(abs(t) for t in terms))
        if abs(frac(out) - ex) > Fraction(1, 10**12) * scale:
            fail("quadrect_dot", "quadrect is not weights.f(nodes)", inp, float(out), float(ex))
        if len(fw) <= 200:
            qcases.append(tup(natlist(es), qlit(cs), qlist2(fx), qlist(fw), qlit(frac(out)), qlit(scale)))
            qmeta.append(inp)
    ok = ("fun c => let '(es, cs, xs, ws, out, scale) := c in "
          "Qle_bool (Qabs (quadrect (fun row => cs + monomial es row) xs ws - out)) (%s * scale)" % T12)
    queue("quadrect", "list nat * Q * list (list Q) * list Q * Q * Q", ok, qcases, qmeta, "C08.Model.quadrect vs quad.quadrect", 20, "From Coq Require Import Qabs.")

    # all Coq cases are queued by now: evaluate them in the background while the Python-only oracles below run
    from concurrent.futures import ThreadPoolExecutor as _TPE

    def _one(job):
        name, ctype, ok, cases, meta, label, chunk, preamble = job
        return job, ctx.coq_check(name, IMPORTS, ctype, ok, cases, chunk=chunk, preamble=preamble)
    _ex = _TPE(max_workers=4)
    futures = [_ex.submit(_one, job) for job in jobs]

    # ================================================================ argument forms of the multi-dimensional rules
    if os.environ.get("VERIF_DEBUG"): sys.stderr.write("[%6.1fs] argument forms of the multi-dimensional \n" % (__import__("time").time() - ctx.t0))
    # the docs promise that scalar endpoints / parameters are repeated d times: n per dimension as list / tuple / array,
    # a and b scalar / vector / mixed must all give the rule obtained with fully vectorised arguments, whose mass is
    # checked against the exact volume (or 1) and, for the product rules, against the tensor product of the 1-d rules
    def forms(n, a0, b0, scal_a, scal_b):
        """(label, n, a, b) variants equivalent to n per dimension, a = [a0]*d or scal_a, b likewise"""
        d = len(n)
        av = [scal_a] * d if scal_a is not None else list(a0)
        bv = [scal_b] * d if scal_b is not None else list(b0)
        out = [("list/list/list", list(n), av, bv), ("array/array/array", np.array(n), np.array(av), np.array(bv)),
               ("tuple/list/array", tuple(n), av, np.array(bv))]
        if scal_a is not None:
            out.append(("list/scalar/vector", list(n), scal_a, bv))
        if scal_b is not None:
            out.append(("list/vector/scalar", list(n), av, scal_b))
        if scal_a is not None and scal_b is not None:
            out += [("list/scalar/scalar", list(n), scal_a, scal_b), ("array/scalar/scalar", np.array(n), scal_a, scal_b)]
        return av, bv, out
    one = lambda x: np.ones(np.atleast_2d(x).shape[0]) if np.ndim(x) > 1 else np.ones(np.shape(x))
    for _ in range(6 * reps):
        d = rng.choice([2, 3])
        n = [rng.randrange(2, 7) for _ in range(d)]
        nodd = [v if v % 2 else v + 1 for v in n]
        sa = rng.randrange(-8, 8) / 4.0
        sb = sa + rng.choice([0.5, 2.0, 3.0, 0.25])           # b - a != 1, so (b-a) and (b-a)^d differ
        vec_a = [rng.randrange(-8, 8) / 4.0 for _ in range(d)]
        vec_b = [x + rng.choice([0.5, 2.0, 3.0]) for x in vec_a]
        for scal_a, scal_b in ((sa, sb), (sa, None), (None, sb)):
            if scal_a is None and scal_b is not None:
                a_for, b_for = [min(x, sb - 0.5) for x in vec_a], None
            elif scal_b is None:
                a_for, b_for = None, [max(x, sa + 0.5) for x in vec_b]
            else:
                a_for, b_for = None, None
            av, bv, variants = forms(n, a_for, b_for, scal_a, scal_b)
            vol = math.prod(Fraction(y) - Fraction(x) for x, y in zip(av, bv))
            for name, fn, mass in (("qnwlege", Q.qnwlege, vol), ("qnwtrap", Q.qnwtrap, vol), ("qnwsimp", Q.qnwsimp, vol),
                                   ("qnwcheb", Q.qnwcheb, vol), ("qnwunif", Q.qnwunif, Fraction(1))):
                nn = nodd if name == "qnwsimp" else n
                with quiet_stdout():
                    rules = [getattr(Q, "qnwlege" if name == "qnwunif" else name)(ni, x, y) for ni, x, y in zip(nn, av, bv)]
                en, ew = tensor_expected(rules)
                if name == "qnwunif":
                    ew = ew / float(vol)
                for label, nf, af, bf in variants:
                    if name == "qnwsimp":
                        nf = type(nf)(nodd) if not isinstance(nf, np.ndarray) else np.array(nodd)
                    inp = {"call": name, "n": list(nn), "a": af, "b": bf, "form": label}
                    ctx.case((name, "form", label, tuple(nn), tuple(av), tuple(bv)), nontrivial=True)
                    ctx.count("argform:%s" % name)
                    try:
                        with quiet_stdout():
                            x, w = fn(nf, af, bf)
                    except Exception as e:
                        fail("argument_form", "%s raises %r for a documented argument form" % (name, e), inp)
                        continue
                    okf = x.shape == en.shape and np.array_equal(x, en) and np.allclose(w, ew, rtol=1e-13, atol=0)
                    okf = okf and abs(sum(fl(w)) - mass) <= Fraction(1, 10**10) * mass
                    if not okf:
                        both_scalar = np.ndim(af) == 0 and np.ndim(bf) == 0
                        if (name == "qnwunif" and both_scalar and x.shape == en.shape and np.array_equal(x, en)
                                and np.allclose(w, ew * float(vol) / (float(bf) - float(af)), rtol=1e-12, atol=0)):
                            # weights divided by (b-a) instead of (b-a)^d: np.prod(b - a) of two scalars
                            fail("qnwunif_scalar_endpoints", "qnwunif with d=%d dimensions and scalar endpoints divides the Legendre weights by (b-a), not "
                                 "(b-a)^d: total mass %.6g instead of 1" % (d, float(np.sum(w))), dict(inp, scalar_endpoints=True, d=d), float(np.sum(w)), 1.0)
                        else:
                            fail("argument_form", "%s(%s): not the tensor product of the 1-d rules with scalars repeated d times / wrong total mass" % (name, label),
                                 inp, float(np.sum(w)), float(mass))
            # qnwequi (all kinds) and quadrect (all kinds): weights volume/N, nodes in the box, quadrect(1) = volume
            N = int(np.prod(n))
            for kind in "NWHR":
                for label, nf, af, bf in variants + ([("scalar-n/vector/vector", N, av, bv)] if scal_a is None or scal_b is None else []):
                    inp = {"call": "qnwequi", "n": list(n), "a": af, "b": bf, "kind": kind, "form": label}
                    ctx.case(("qnwequi", "form", label, kind, tuple(n), tuple(av), tuple(bv)), nontrivial=True)
                    ctx.count("argform:qnwequi")
                    try:
                        x, w = Q.qnwequi(nf, af, bf, kind, random_state=rng.randrange(10**6))
                    except Exception as e:
                        fail("argument_form", "qnwequi raises %r for a documented argument form" % (e,), inp)
                        continue
                    x = np.asarray(x, dtype=float).reshape(N, d)
                    fw = fl(w)
                    okf = len(fw) == N and all(abs(wv - vol / N) <= Fraction(1, 10**12) * vol / N for wv in fw)
                    okf = okf and all(((x[:, i] >= av[i]) & (x[:, i] <= bv[i])).all() for i in range(d))
                    if not okf:
                        fail("equi_weights", "qnwequi(%s): weights are not volume/n with volume = prod(b_i - a_i) over the d dimensions, or a node leaves the box" % label,
                             inp, float(sum(fw)), float(vol))
            for kind in ("lege", "cheb", "trap", "simp", "N", "W", "H", "R"):
                for label, nf, af, bf in variants:
                    if kind == "simp":
                        nf = type(nf)(nodd) if not isinstance(nf, np.ndarray) else np.array(nodd)
                    inp = {"call": "quadrect", "kind": kind, "n": list(n), "a": af, "b": bf, "form": label}
                    ctx.case(("quadrect", "form", label, kind, tuple(n), tuple(av), tuple(bv)), nontrivial=True)
                    ctx.count("argform:quadrect")
                    try:
                        with quiet_stdout():
                            out = Q.quadrect(one, nf, af, bf, kind=kind, random_state=rng.randrange(10**6))
                    except Exception as e:
                        fail("argument_form", "quadrect raises %r for a documented argument form" % (e,), inp)
                        continue
                    out = float(np.asarray(out).reshape(-1)[0])
                    if abs(frac(out) - vol) > Fraction(1, 10**10) * vol:
                        fail("quadrect_dot", "quadrect(1) is not the volume of the box (%s)" % label, inp, out, float(vol))
        # qnwbeta / qnwgamma: scalar parameters repeated
        pa, pb = rng.randrange(13, 512) / 64, rng.randrange(13, 512) / 64
        for name, fn in (("qnwbeta", Q.qnwbeta), ("qnwgamma", Q.qnwgamma)):
            rules = [fn(ni, pa, pb) for ni in n]
            en, ew = tensor_expected([(np.atleast_1d(x), np.atleast_1d(w)) for x, w in rules])
            for label, nf, af, bf in forms(n, None, None, pa, pb)[2]:
                inp = {"call": name, "n": list(n), "a": af, "b": bf, "form": label}
                ctx.case((name, "form", label, tuple(n), pa, pb), nontrivial=True)
                ctx.count("argform:%s" % name)
                try:
                    x, w = fn(nf, af, bf)
                except Exception as e:
                    fail("argument_form", "%s raises %r for a documented argument form" % (name, e), inp)
                    continue
                if not (x.shape == en.shape and np.array_equal(x, en) and np.allclose(w, ew, rtol=1e-13, atol=0) and abs(float(np.sum(w)) - 1) < 1e-6):
                    fail("argument_form", "%s(%s): not the tensor product of the 1-d rules with scalar parameters repeated" % (name, label), inp, float(np.sum(w)), 1.0)
        # qnwnorm / qnwlogn: mu None / scalar / vector, sig2 None / matrix
        U = np.triu(np.array([[rng.randrange(-4, 5) / 4.0 for _ in range(d)] for _ in range(d)]))
        for i in range(d):
            U[i, i] = rng.randrange(1, 5) / 4.0
        sig = U.T @ U
        ms = rng.randrange(-8, 8) / 4.0
        for label, nf, mu, s2, emu, es2 in (("list/None/None", list(n), None, None, [0.0] * d, np.eye(d)),
                                            ("array/scalar-mu/None", np.array(n), ms, None, [ms] * d, np.eye(d)),
                                            ("tuple/vector-mu/matrix", tuple(n), [ms] * d, sig, [ms] * d, sig),
                                            ("list/scalar-mu/matrix", list(n), ms, sig, [ms] * d, sig),
                                            ("list/array-mu/nested-list", list(n), np.array([ms] * d), sig.tolist(), [ms] * d, sig)):
            inp = {"call": "qnwnorm", "n": list(n), "mu": mu, "sig2": None if s2 is None else np.asarray(s2).tolist(), "form": label}
            ctx.case(("qnwnorm", "form", label, tuple(n), ms, tuple(sig.ravel())), nontrivial=True)
            ctx.count("argform:qnwnorm")
            try:
                x, w = Q.qnwnorm(nf, mu, s2)
                xl_, wl_ = Q.qnwlogn(nf, mu, s2)
            except Exception as e:
                fail("argument_form", "qnwnorm/qnwlogn raises %r for a documented argument form" % (e,), inp)
                continue
            x = np.asarray(x, dtype=float).reshape(len(w), d)
            fx, fw = fl2(x), fl(w)
            tol = Fraction(1, 10**10)
            mean = [sum(wv * row[i] for row, wv in zip(fx, fw)) for i in range(d)]
            okf = len(fw) == int(np.prod(n)) and abs(sum(fw) - 1) <= tol and all(abs(mean[i] - frac(emu[i])) <= tol * (1 + abs(frac(emu[i]))) for i in range(d))
            for i in range(d):
                for j in range(d):
                    cij = sum(wv * (row[i] - frac(emu[i])) * (row[j] - frac(emu[j])) for row, wv in zip(fx, fw))
                    okf = okf and abs(cij - frac(es2[i][j])) <= tol * (1 + abs(frac(es2[i][j])))
            okf = okf and np.array_equal(np.asarray(xl_).reshape(len(w), d), np.exp(x)) and np.array_equal(wl_, w)
            if not okf:
                fail("argument_form", "qnwnorm/qnwlogn(%s): mass / mean / covariance not reproduced or qnwlogn not the exponential image" % label, inp)

    # ================================================================ hardening: dress / sequences / non-mutation / optional arguments / edges
    if os.environ.get("VERIF_DEBUG"): sys.stderr.write("[%6.1fs] hardening: dress / sequences / non-mutat\n" % (__import__("time").time() - ctx.t0))
    import copy
    i32, i64, ip, u8, f32, f64 = np.int32, np.int64, np.intp, np.uint8, np.float32, np.float64

    def tup_of(r):
        return r if isinstance(r, tuple) else (r,)

    def same_result(r1, r2, rtol=0.0):
        r1, r2 = tup_of(r1), tup_of(r2)
        if len(r1) != len(r2):
            return False
        for u, v in zip(r1, r2):
            u, v = np.asarray(u), np.asarray(v)
            if u.shape != v.shape or u.dtype != v.dtype:
                return False
            if not (np.array_equal(u, v) if rtol == 0 else np.allclose(u, v, rtol=rtol, atol=rtol)):
                return False
        return True

    def harden(cls, name, desc, canon, variant, rtol=0.0, snapshot=()):
        """variant() must return exactly what canon() returns; any exception is an oracle failure; objects in
        `snapshot` (the variant's argument containers) must be unchanged afterwards"""
        inp = {"call": name, "variant": desc, "class": cls}
        ctx.case(("harden", cls, name, desc), nontrivial=True)
        ctx.count("%s:%s" % (cls, name))
        before = copy.deepcopy(list(snapshot))
        try:
            with quiet_stdout():
                r1 = canon()
                r2 = variant()
        except Exception as e:
            fail("hardening_exception", "%s (%s): raises %r on a valid input" % (name, desc, e), inp)
            return None
        if not same_result(r1, r2, rtol):
            fail("hardening_" + cls.split(":")[0], "%s: %s differs from the canonical float64/int call" % (name, desc), inp,
                 [np.asarray(v).ravel()[:4].tolist() for v in tup_of(r2)], [np.asarray(v).ravel()[:4].tolist() for v in tup_of(r1)])
        for b_, a_ in zip(before, snapshot):
            if not (np.array_equal(np.asarray(b_), np.asarray(a_)) and type(b_) is type(a_)):
                fail("hardening_mutation", "%s (%s): an argument was modified by the call" % (name, desc), inp)
        return r2
    rules_ab = ["qnwlege", "qnwcheb", "qnwtrap", "qnwsimp", "qnwunif"]
    for rep in range(reps):
        n1 = rng.randrange(3, 9)
        a1 = rng.randrange(-8, 8) / 4.0
        b1 = a1 + rng.choice([0.25, 0.5, 1.0, 3.0])
        nd = [rng.randrange(2, 6) for _ in range(rng.choice([2, 3]))]
        d = len(nd)
        ad = [rng.choice([0.0, rng.randrange(-8, 8) / 4.0]) for _ in range(d)]       # zero endpoints: falsy but valid
        bd = [x + rng.choice([0.5, 1.0, 2.0]) for x in ad]
        big = np.arange(40, dtype=float).reshape(4, 10)
        for nm in rules_ab:
            fn = getattr(Q, nm)
            # ---- class 1: integer / float dress of scalars
            # np.int64 / np.intp / np.float64 share the compiled signature of the canonical call; each of the other
            # dresses costs one numba specialisation, so the quick tier draws one of them per rule and run (all in thorough)
            ai, bi = int(math.floor(a1)), int(math.floor(a1)) + rng.choice([1, 2, 3])
            cheap = [("n np.int64", i64(n1), a1, b1), ("n np.intp, a,b np.float64", ip(n1), f64(a1), f64(b1))]
            costly = [("n np.int32, a np.float32, b float", i32(n1), f32(a1), b1), ("n np.uint8", u8(n1), a1, b1),
                      ("int endpoints", n1, ai, bi), ("np.int64 endpoints incl. 0", n1, i64(0), i64(bi - ai))]
            for lab, nn, aa, bb in cheap + (costly if thorough else [rng.choice(costly)]):
                harden("dress:scalar", nm, lab, lambda nn=nn, aa=aa, bb=bb: fn(int(nn), float(aa), float(bb)), lambda nn=nn, aa=aa, bb=bb: fn(nn, aa, bb))
            # ---- class 1: array dress (lists, tuples, dtypes, views, F-order) in d dimensions
            col = np.zeros((d, 3))
            col[:, 1] = ad
            fb = np.asfortranarray(np.vstack([bd, bd]).T)
            for lab, nn, aa, bb in (("tuple / list / tuple", tuple(nd), list(ad), tuple(bd)),
                                    ("int32 array n, float32 a, float64 b", np.array(nd, dtype=i32), np.array(ad, dtype=f32), np.array(bd, dtype=f64)),
                                    ("int64 n, non-contiguous views", np.repeat(np.array(nd, dtype=i64), 2)[::2], col[:, 1], fb[:, 0]),
                                    ("uint8 n, list of np.float32", np.array(nd, dtype=u8), [f32(v) for v in ad], [f64(v) for v in bd])):
                snap = [nn, aa, bb]
                harden("dress:array", nm, lab, lambda: fn(list(nd), list(ad), list(bd)), lambda nn=nn, aa=aa, bb=bb: fn(nn, aa, bb), snapshot=snap)
            # ---- class 2: repeated calls with other parameters in between (jit specialisations, module-level state)
            r0 = fn(n1, a1, b1) if nm != "qnwsimp" else None
            def seq(fn=fn):
                first = fn(n1, a1, b1)
                fn(n1 + 2, a1 - 1, b1 + 1)
                fn(list(nd), list(ad), list(bd))
                fn(i64(n1 + 1), f64(a1), b1)
                return fn(n1, a1, b1)
            out = harden("seq:interleaved", nm, "same call after three other calls", lambda: fn(n1, a1, b1), seq)
            # ---- class 3: results of successive calls do not alias each other
            with quiet_stdout():
                x1, w1 = fn(n1, a1, b1)
                keep = (x1.copy(), w1.copy())
                x2, w2 = fn(n1, a1, b1)
                x2[...] = -77.0
                w2[...] = -77.0
                x3, w3 = fn(n1, a1, b1)
            ctx.case(("harden", "alias", nm, n1, a1, b1), nontrivial=True)
            ctx.count("alias:%s" % nm)
            if np.shares_memory(x1, x3) or np.shares_memory(w1, w3) or not (np.array_equal(x1, keep[0]) and np.array_equal(w1, keep[1])
                                                                             and np.array_equal(x3, keep[0]) and np.array_equal(w3, keep[1])):
                fail("hardening_mutation", "%s: results of successive calls alias each other (overwriting one changes another)" % nm, {"call": nm, "n": n1, "a": a1, "b": b1})
            # ---- class 5: tiny interval, interval touching 0
            for lab, aa, bb in (("width 2^-20", a1, a1 + 2.0 ** -20), ("[0, b]", 0.0, b1 - a1), ("[a, 0]", a1 - b1, 0.0)):
                ctx.case(("harden", "edge", nm, lab, n1), nontrivial=True)
                ctx.count("edge:%s" % nm)
                try:
                    with quiet_stdout():
                        x, w = fn(n1, aa, bb)
                    mass = Fraction(1) if nm == "qnwunif" else Fraction(bb) - Fraction(aa)
                    # 1e-8: with width 2^-20 the spacing nodes[1]-nodes[0] carries the cancellation error of the endpoints
                    if not (all(Fraction(aa) <= v <= Fraction(bb) for v in fl(x)) and abs(sum(fl(w)) - mass) <= Fraction(1, 10**8) * mass and all(v > 0 for v in fl(w))):
                        fail("hardening_edge", "%s on %s: nodes outside the interval / wrong mass / non-positive weight" % (nm, lab), {"call": nm, "n": n1, "a": aa, "b": bb})
                except Exception as e:
                    fail("hardening_exception", "%s on %s raises %r" % (nm, lab, e), {"call": nm, "n": n1, "a": aa, "b": bb})
        # ---- qnwcheb / qnwbeta / qnwgamma defaults (class 4), integer and float32 parameters (class 1)
        harden("opt:default", "qnwcheb", "a, b omitted vs a=1, b=1", lambda: Q.qnwcheb(n1, 1, 1), lambda: Q.qnwcheb(n1))
        harden("opt:default", "qnwbeta", "a, b omitted vs 1.0, 1.0", lambda: Q.qnwbeta(n1, 1.0, 1.0), lambda: Q.qnwbeta(n1))
        harden("opt:default", "qnwgamma", "a, b, tol omitted vs 1.0, 1.0, 3e-14", lambda: Q.qnwgamma(n1, 1.0, 1.0, 3e-14), lambda: Q.qnwgamma(n1))
        pa, pb = rng.choice([1, 2, 3, 5]), rng.choice([1, 2, 4])
        for nm in ("qnwbeta", "qnwgamma"):
            fn = getattr(Q, nm)
            costly = [("int parameters", n1, pa, pb), ("np.int64 n, np.int32 parameters", i64(n1), i32(pa), i32(pb)), ("np.uint8 n, np.float32 parameters", u8(n1), f32(pa), f32(pb))]
            for lab, nn, aa, bb in [("np.intp n, np.float64 parameters", ip(n1), f64(pa), f64(pb)), ("keywords", n1, float(pa), float(pb))] + (costly if thorough else [rng.choice(costly)]):
                if lab == "keywords":
                    harden("opt:keyword", nm, lab, lambda: fn(n1, float(pa), float(pb)), lambda: fn(n=n1, a=float(pa), b=float(pb)))
                else:
                    harden("dress:scalar", nm, lab, lambda: fn(n1, float(pa), float(pb)), lambda nn=nn, aa=aa, bb=bb: fn(nn, aa, bb))
            pav, pbv = [rng.choice([1.0, 0.5, 2.5]) for _ in nd], [rng.choice([1.0, 2.0, 0.75]) for _ in nd]
            snap = [np.array(nd, dtype=i32), np.array(pav, dtype=f32), tuple(pbv)]
            harden("dress:array", nm, "int32 n, float32 a, tuple b", lambda: fn(list(nd), pav, pbv), lambda: fn(snap[0], snap[1], snap[2]), snapshot=snap)
            harden("seq:interleaved", nm, "same call after other parameters", lambda: fn(n1, 2.5, 0.75),
                   lambda: (fn(n1, 2.5, 0.75), fn(n1 + 3, 0.5, 4.0), fn(list(nd), pav, pbv), fn(n1, 2.5, 0.75))[3])
            # parameters next to the special value 1 (uniform / exponential)
            for eps in (1e-6, -1e-6):
                ctx.case(("harden", "edge", nm, eps, n1), nontrivial=True)
                ctx.count("edge:%s" % nm)
                try:
                    x, w = fn(n1, 1.0 + eps, 1.0)
                    x0, w0 = fn(n1, 1.0, 1.0)
                    if not (np.allclose(x, x0, atol=1e-4) and np.allclose(w, w0, atol=1e-4) and abs(w.sum() - 1) < 1e-6):
                        fail("hardening_edge", "%s with a = 1%+g is not close to a = 1" % (nm, eps), {"call": nm, "n": n1, "a": 1.0 + eps, "b": 1.0})
                except Exception as e:
                    fail("hardening_exception", "%s(a=1%+g) raises %r" % (nm, eps, e), {"call": nm, "n": n1, "a": 1.0 + eps, "b": 1.0})
        # ---- qnwnorm / qnwlogn: mu, sig2 as ints / float32 / nested lists / views, defaults, falsy mu = 0, non-mutation of sig2
        mu1, s1 = rng.randrange(-3, 4), rng.choice([1, 4, 9])
        for nm in ("qnwnorm", "qnwlogn"):
            fn = getattr(Q, nm)
            sc = 1.0 if nm == "qnwnorm" else 1.0 / 16
            costly = [("np.int32 n, np.int64 mu, np.int32 sig2", i32(n1), i64(mu1), i32(s1)), ("np.uint8 n, np.float32 mu, sig2", u8(n1), f32(mu1), f32(s1))]
            for lab, nn, mm, ss in [("int mu, int sig2", n1, mu1, s1), ("1-element lists", [n1], [mu1], [[s1]])] + (costly if thorough else [rng.choice(costly)]):
                harden("dress:scalar", nm, lab, lambda: fn(n1, float(mu1), float(s1)), lambda nn=nn, mm=mm, ss=ss: fn(nn, mm, ss))
            harden("opt:default", nm, "mu, sig2 omitted vs None, None", lambda: fn(n1, None, None), lambda: fn(n1))
            harden("opt:falsy", nm, "mu = 0, sig2 = 1 vs omitted", lambda: fn(n1), lambda: fn(n1, 0, 1))
            harden("opt:falsy", nm, "mu = 0.0 vector vs None (d dims)", lambda: fn(list(nd)), lambda: fn(list(nd), [0.0] * d, np.eye(d)))
            Ui = np.triu(np.array([[rng.randrange(-2, 3) for _ in range(d)] for _ in range(d)]))
            for i in range(d):
                Ui[i, i] = rng.randrange(1, 3)
            Si = (Ui.T @ Ui)
            mui = [rng.randrange(-2, 3) for _ in range(d)]
            canon = lambda: fn(list(nd), [float(v) for v in mui], Si.astype(float))
            bigS = np.zeros((2 * d, 2 * d))
            bigS[::2, ::2] = Si
            for lab, nn, mm, ss in (("int mu list, nested int list sig2", list(nd), list(mui), Si.tolist()), ("int32 n, int64 mu array, int64 sig2 array", np.array(nd, dtype=i32), np.array(mui), Si.copy()),
                                    ("float32 mu, F-ordered sig2", tuple(nd), np.array(mui, dtype=f32), np.asfortranarray(Si.astype(float))),
                                    ("non-contiguous sig2 view", list(nd), tuple(mui), bigS[::2, ::2])):
                harden("dress:array", nm, lab, canon, lambda nn=nn, mm=mm, ss=ss: fn(nn, mm, ss), snapshot=[nn, mm, ss])
            if nm == "qnwnorm":
                harden("opt:default", nm, "usesqrtm omitted vs False", lambda: fn(list(nd), mui, Si, False), lambda: fn(list(nd), mui, Si))
                harden("opt:keyword", nm, "usesqrtm=True by keyword vs position", lambda: fn(list(nd), mui, Si, True), lambda: fn(list(nd), mu=mui, sig2=Si, usesqrtm=True))
            harden("seq:interleaved", nm, "same call after other parameters", canon, lambda: (fn(n1, 1.0, 4.0), fn(list(nd)), canon())[2])
        # ---- qnwequi: dress, kind case, equidist_pp given, seed forms, reuse of one RandomState
        import sympy as _sym
        pp = np.sqrt(np.array(list(_sym.primerange(0, 7920))))
        for kind in "NWHR":
            canon = lambda: Q.qnwequi(n1, a1, b1, kind, random_state=5)
            for lab, var in (("np.int32 n, int/float32 endpoints, np.int64 seed", lambda: Q.qnwequi(i32(n1), f64(a1), f32(b1), kind, random_state=i64(5))),
                             ("lower-case kind", lambda: Q.qnwequi(n1, a1, b1, kind.lower(), random_state=5)),
                             ("equidist_pp supplied explicitly", lambda: Q.qnwequi(n1, a1, b1, kind, pp, 5)),
                             ("RandomState(5) instead of 5", lambda: Q.qnwequi(n1, a1, b1, kind, random_state=np.random.RandomState(5)))):
                harden("dress:scalar" if "np." in lab else "opt:explicit", "qnwequi", "%s, kind %s" % (lab, kind), canon, var)
            snap = [np.array(nd, dtype=i32), tuple(ad), np.array(bd, dtype=f32)]
            harden("dress:array", "qnwequi", "int32 n, tuple a, float32 b, kind %s" % kind, lambda: Q.qnwequi(list(nd), list(ad), list(bd), kind, random_state=7),
                   lambda: Q.qnwequi(snap[0], snap[1], snap[2], kind, random_state=7), snapshot=snap)
            harden("seq:interleaved", "qnwequi", "same call after other kinds / sizes, kind %s" % kind, canon,
                   lambda: (Q.qnwequi(n1 + 1, a1, b1, "N"), Q.qnwequi(list(nd), ad, bd, "H"), Q.qnwequi(3, 0, 1, "R", random_state=1), canon())[3])
        # ---- quadrect: dress, kind case, default kind, args / kwargs forwarded to f
        def poly(x):
            return x ** 2 + 1.0

        def poly_args(x, c, p=1, shift=0.0):
            return c * x ** p + shift
        harden("opt:default", "quadrect", "kind omitted vs 'lege'", lambda: Q.quadrect(poly, n1, a1, b1, "lege"), lambda: Q.quadrect(poly, n1, a1, b1))
        for kind in ("lege", "cheb", "trap", "simp", "N", "W", "H", "R"):
            nq = n1 if kind != "simp" or n1 % 2 else n1 + 1
            canon = lambda: Q.quadrect(poly, nq, a1, b1, kind, random_state=3)
            harden("dress:scalar", "quadrect", "np.int32 n, float32 / np.float64 endpoints, np.int64 seed, kind %s" % kind, canon,
                   lambda: Q.quadrect(poly, i32(nq), f32(a1), f64(b1), kind, i64(3)) if (thorough or kind in "NWHR") else Q.quadrect(poly, i64(nq), f64(a1), f64(b1), kind, i64(3)))
            harden("opt:explicit", "quadrect", "kind in other letter case (%s)" % kind, canon,
                   lambda: Q.quadrect(poly, nq, a1, b1, kind.upper() if len(kind) > 1 else kind.lower(), 3))
            harden("opt:args", "quadrect", "extra positional and keyword arguments reach f, kind %s" % kind,
                   lambda: 2.0 * Q.quadrect(poly, nq, a1, b1, kind, 3) + 0.0, lambda: Q.quadrect(poly_args, nq, a1, b1, kind, 3, 2.0, p=2, shift=2.0),
                   rtol=1e-12)
            harden("opt:falsy", "quadrect", "falsy extra arguments (c=1.0, p=2, shift=0.0) reach f, kind %s" % kind,
                   lambda: Q.quadrect(lambda x: x ** 2, nq, a1, b1, kind, 3), lambda: Q.quadrect(poly_args, nq, a1, b1, kind, 3, 1.0, p=2, shift=0.0), rtol=1e-12)
        harden("dress:array", "quadrect", "d dimensions: int32 n, tuple a, float32 b",
               lambda: Q.quadrect(lambda x: x.sum(axis=1), list(nd), list(ad), list(bd), "lege"),
               lambda: Q.quadrect(lambda x: x.sum(axis=1), np.array(nd, dtype=i32), tuple(ad), np.array(bd, dtype=f32), "lege"))

    results = [f_.result() for f_ in futures]       # Coq correspondence checks started before the Python-only sections
    _ex.shutdown()
    for (name, ctype, ok, cases, meta, label, chunk, preamble), bad in results:
        for i in bad:
            ctx.mismatch(label, meta[i])


def replay(data):
    """Re-run the first recorded failing input against the current implementation and re-evaluate the oracle."""
    import quantecon.quad as Q
    first = data.get("first") or (data.get("mismatches") or [{}])[0]
    print("replay:", json.dumps(first)[:1500])
    inp = first.get("input", {})
    call = inp.get("call")

    def num(v):
        if isinstance(v, list):
            return [num(i) for i in v]
        return float(Fraction(v)) if isinstance(v, str) and v != "identity" else v
    try:
        if "args" in inp and call and hasattr(Q, call):
            args = [np.array(a) if isinstance(a, list) else a for a in inp["args"]]
            if any(a == "<function>" for a in inp["args"] if isinstance(a, str)):
                print("call takes a function argument; not replayed")
                return 0
            with quiet_stdout():
                out = getattr(Q, call)(*args, **inp.get("kwargs", {}))
            out = out if isinstance(out, tuple) else (out,)
            print("output shapes", [np.shape(o) for o in out], "all finite:", all(np.isfinite(np.asarray(o, dtype=float)).all() for o in out),
                  "mass", float(np.sum(out[-1])))
        elif call in ("qnwtrap", "qnwsimp", "qnwlege", "qnwunif", "qnwbeta", "qnwgamma", "qnwcheb"):
            with quiet_stdout():
                x, w = getattr(Q, call)(num(inp["n"]), num(inp["a"]), num(inp["b"]))
            print("nodes", np.asarray(x)[:8].tolist(), "weights", np.asarray(w)[:8].tolist(), "mass", float(np.sum(w)))
            if not isinstance(inp["n"], list):
                a, b, n = Fraction(inp["a"]), Fraction(inp["b"]), inp["n"]
                mom, deg, lo, hi, tol = {
                    "qnwtrap": (mom_lebesgue, 1, a, b, 12), "qnwsimp": (mom_lebesgue, 3, a, b, 12),
                    "qnwlege": (mom_lebesgue, 2 * n - 1, a, b, 10), "qnwunif": (mom_uniform, 2 * n - 1, a, b, 10),
                    "qnwcheb": (mom_lebesgue, n - 1, a, b, 10),
                    "qnwbeta": (mom_beta, 2 * n - 1, 0, 1, 6), "qnwgamma": (mom_gamma, 2 * n - 1, 0, None, 6)}[call]
                print("oracle:", check_rule_1d(fl(x), fl(w), lo, hi, mom(a, b, deg), Fraction(1, 10**tol)) or "property holds")
        elif call == "qnwnorm":
            sig2 = inp.get("sig2")
            x, w = Q.qnwnorm(inp["n"], num(inp.get("mu")), None if sig2 in (None, "identity") else np.array(num(sig2)),
                             usesqrtm=inp.get("usesqrtm", False))
            x = np.asarray(x, dtype=float).reshape(len(w), -1)
            mean = w @ x
            print("mass", float(w.sum()), "mean", mean.tolist(), "cov", ((x - mean).T @ (w[:, None] * (x - mean))).tolist())
        else:
            print("no dedicated replay for", call)
    except Exception as e:
        print("implementation raised", repr(e))
    return 0

#!/usr/bin/env python3
"""Collect confirmed seeded changes from /tmp/seed_Cxx_out/m* into /verif/seeded/Cxx_m*/
(patch.diff, demo.py, meta.json). A change is kept only if confirmed.json (written by
harness/seedconfirm.sh) shows: patch applies, demo exits 0 without and 1 with the change,
and the full pinned suite (533 tests) passes with the change. The outcome of our own check
against the change (harness/seedtest.sh) is recorded under "check_result" when given."""
import json, os, sys, glob, shutil, re
VERIF = os.path.abspath(os.path.join(os.path.dirname(os.path.abspath(__file__)), ".."))
results = {}
if len(sys.argv) > 1 and os.path.exists(sys.argv[1]):
    cur = None
    for ln in open(sys.argv[1]):
        m = re.match(r"SEEDTEST (C\d+) (\S+): demo_exit=(\S+) check_exit=(\d+) (\d+) violation-lines", ln)
        if m:
            cur = m.group(2).rstrip("/")
            results[cur] = {"check_exit": int(m.group(4)), "violation_lines": int(m.group(5)), "lines": []}
        elif cur and (ln.startswith("VIOLATION") or re.match(r"C\d\d ", ln)):
            results[cur]["lines"].append(ln.strip())
kept = 0
for d in sorted(glob.glob("/tmp/seed_C*_out/m*") + glob.glob("/tmp/seed2_C*_out/m*") + glob.glob("/tmp/seed3_C*_out/m*") + glob.glob("/tmp/seed4_C*_out/m*")):
    cf = os.path.join(d, "confirmed.json")
    if not os.path.exists(cf):
        continue
    c = json.load(open(cf))
    ok = c["patch_applies"] == 1 and c["demo_exit_clean"] == 0 and c["demo_exit_with_change"] == 1 and c["suite_with_change"].startswith("533 passed")
    pid = re.search(r"seed[234]?_(C\d+)_out", d).group(1)
    name = "%s_%s%s" % (pid, "r2_" if "/seed2_" in d else ("r3_" if "/seed3_" in d else ("r4_" if "/seed4_" in d else "")), os.path.basename(d))
    dest = os.path.join(VERIF, "seeded", name)
    if not ok:
        print("NOT KEPT", d, c)
        continue
    os.makedirs(dest, exist_ok=True)
    shutil.copy(os.path.join(d, "patch.diff"), dest)
    shutil.copy(os.path.join(d, "demo.py"), dest)
    meta = {}
    try:
        meta = json.load(open(os.path.join(d, "meta.json")))
    except Exception as e:
        meta = {"agent_meta_unreadable": repr(e)}
    old = {}
    if os.path.exists(os.path.join(dest, "meta.json")):
        old = json.load(open(os.path.join(dest, "meta.json")))
    out = {"property": pid, "author_meta": meta,
           "confirmed_by_coordinator": dict(c, commands=["harness/seedconfirm.sh %s" % d]),
           "check_result": results.get(d, old.get("check_result"))}
    json.dump(out, open(os.path.join(dest, "meta.json"), "w"), indent=1)
    kept += 1
print("kept", kept)

#!/venv/bin/python
"""Kernel translator: regenerates coq/Gen/Kernels.v from the *current* source of
leaf Numba kernels in /repo (python ast -> Gallina). Together with the tie lemmas
in coq/Cxx/Tie*.v (generated kernel = hand-written model / satisfies the
specification, for all inputs) this re-checks theorems against what the code says
now: an edit of one of these kernels changes the generated definition and the tie
lemma stops checking.

Supported subset (fail-closed: anything else makes Kernels.v non-compiling):
  types  Z (int scalar), B (bool), T (element scalar with a `Num T` instance),
         LZ / LT (1-d arrays of ints / elements -> list)
  statements: assignment, augmented assignment, 1-d array stores `a[i] = e`, `a[i] op= e`,
         if/elif/else, `for v in range(..)`, `while`, `return`, `break`, `continue`
  expressions: + - * // %, comparisons, and/or/not (short-circuit), min/max, len(a), a[i],
         True/False, np.iinfo(np.intp).max, calls to previously translated kernels.
Loops become Fixpoints on explicit fuel: for-loops get their own trip count;
while-loops get the fuel expression given in KERNELS (its adequacy is part of the tie
lemma). A loop function returns `inl r` when the body executed `return` and
`inr (carried variables)` when it ended normally.
A kernel without `return` value yields the tuple of the arrays it stores into.
checked=True threads a ghost flag `ok__`: it becomes false as soon as an array read or
store uses an index outside [0, len) (reads guarded by short-circuit `and`/`or` are
only counted when evaluated); the kernel then returns (result, ok__).

Second output file coq/Gen/Kernels2.v (KERNELS2, always bounds-checked; Kernels.v stays byte-identical):
  types  MT (2-d array of elements -> list (list T), row major), LB (read-only 1-d bool array), PO (the namedtuple
         PivOptions, flattened into three element parameters p_fea_tol p_tol_piv p_tol_ratio_diff; `p.field` reads;
         its definition and defaults in linprog_simplex.py are checked), tuples of scalars as return type
  a[i, j] reads / stores / `a[i, j] op= e` (get2 / set2: an index i < 0 denotes i + size, as in NumPy/Numba;
         bounds flag inb2: the wrapped index must lie in [0, size)), `nr, nc = a.shape`, `a.shape[0|1]`, `a.size`,
         `a[:-1, :]` as a read-only call argument,
  slice stores `a[:] = v`, `a[lo:hi, lo:hi] = v`, `a[i, lo:] = v` (fill1 / fill2; bounds clipped as in NumPy),
  np.inf (the generated function takes an extra leading parameter `inf_ : T`; module-level float constants
         used as omitted default arguments become extra parameters in the same way),
  int literals 0 / 1 / -1 in element context (nzero / none_ / nsub nzero none_), `!=` on elements, unary minus on
         elements (0 - x), `(a >= 0).all()`, chained comparisons a <= b < c,
  np.empty(n, dtype=np.int_) for a local work array (zeros; consumers are tied for ANY contents),
  tuple returns, tuple assignment (also with subscript targets: right-hand sides first, then the targets left to
         right), default arguments, keyword arguments, python names that are Gallina keywords get a trailing `_`,
  `if p is None: p = np.empty(..)|np.ones(..)` for an array parameter p=None declared as an array in KERNELS2: dropped
         (the kernel is translated for the call path where p is supplied; listed in the header comment),
  `return NT(arr, scalars..)` of the result namedtuple named in KERNELS2 (arr must be a stored array parameter),
  calls (as statements `f(..)`, `x = f(..)`, `x, y = f(..)`) to previously generated KERNELS2 kernels of the same file
         or imported by `from .mod import f`: the callee returns (value, arrays it stores into ..., ok__); the caller
         rebinds the arrays it passed and conjoins the flag.  `return a` / `return (a, b)` of stored array parameters in
         a procedure = end of procedure.

Third output file coq/Gen/Kernels3.v (KERNELS3; same mode; Kernels.v and Kernels2.v stay byte-identical; may call the
bounds-checked kernels of Kernels.v, e.g. searchsorted, and the kernels of Kernels2.v).  Additional constructs:
  MZ (2-d integer array), `for i in range(a, b, -1)`, np.sum(a) / np.sum(a[i, lo:hi]) / np.sum(a[lo:hi]) (nsum1),
  a[-c] on 1-d arrays (wraparound), read-only views bound to a local name `row = M[i]`, `seg = a[lo:hi]` (slice1),
  `x[i, j] = f(..)` with f a generated kernel (via a temporary), `A = np.asarray(A)` (no-op), local `np.empty((n, m))`,
  `a[:, j] = v` (setcol2), np.arange(n), imports followed through package __init__ files, and two library operations
  that are not Python text and become extra (function) parameters of the generated kernel:
  `r.sort()` -> sort_ : list T -> list T,  `np.intp(np.floor(x * k))` -> floor_mul_ : T -> Z -> Z.

Fourth output file coq/Gen/Kernels4.v (KERNELS4; scalar solvers; the three files above stay byte-identical):
  function-typed parameters called as f(x, *args) (parameter type F: a Gallina argument f : T -> T, the ARGS tuple folded
  in), floating-point literals (0.0 / 1.0 = nzero / none_, any other value v an extra parameter c_<v>; an int literal k
  in a floating-point operation is k.0), abs / np.abs / np.sign / unary minus / np.isfinite / np.sqrt(<literal>) as extra
  parameters abs_ sign_ neg_ isfinite_ sqrt_<v>, min / max / np.maximum / np.minimum (Python's comparisons), conditional
  expressions, `a = b = e`, module-level int and str constants, `raise E(msg)` (the kernel then returns
  (inl "E: msg" | inr value, ok__) and calls of raising kernels propagate inl), `return _results((x, fc, it, flag))`
  (= (x, fc, it, flag == 0); the definition of _results is checked), loop variables that exist before the loop are
  carried (Python keeps the last index; spec key `unbound` lists variables that Python leaves unbound until first
  assigned: they start with a default), variables assigned in both branches of an if, np.zeros(n, dtype=np.int_),
  np.empty((a, b), dtype=np.int_), `if k:` on an integer, x + (comparison), tuple-valued locals.
"""
import ast, os, sys

REPO = os.environ.get("VERIF_REPO", "/repo")
OUT = os.path.join(os.path.dirname(os.path.abspath(__file__)), "..", "coq", "Gen", "Kernels.v")
OUT2 = os.path.join(os.path.dirname(os.path.abspath(__file__)), "..", "coq", "Gen", "Kernels2.v")
OUT3 = os.path.join(os.path.dirname(os.path.abspath(__file__)), "..", "coq", "Gen", "Kernels3.v")
OUT4 = os.path.join(os.path.dirname(os.path.abspath(__file__)), "..", "coq", "Gen", "Kernels4.v")

# (coq name, file, python function, parameter types, return type or None for procedures,
#  {while-loop ordinal: fuel expr in Coq}, checked)
KERNELS = [
    ("comb_jit", "quantecon/util/numba.py", "comb_jit", [("N", "Z"), ("k", "Z")], "Z", {}, False),
    ("searchsorted", "quantecon/util/array.py", "searchsorted", [("a", "LT"), ("v", "T")], "Z",
     {0: "S (length a)"}, True),
    ("cartesian_index", "quantecon/_gridtools.py", "_cartesian_index",
     [("indices", "LZ"), ("nums_grids", "LZ")], "Z", {}, False),
    ("k_array_rank_jit", "quantecon/util/combinatorics.py", "k_array_rank_jit", [("a", "LZ")], "Z", {}, False),
    ("next_k_array", "quantecon/util/combinatorics.py", "next_k_array", [("a", "LZ")], "LZ",
     {0: "length a"}, False),
    ("generate_a_indptr", "quantecon/markov/utilities.py", "_generate_a_indptr",
     [("num_states", "Z"), ("s_indices", "LZ"), ("out", "LZ")], None, {0: "S (length s_indices)"}, True),
    ("has_sorted_sa_indices", "quantecon/markov/utilities.py", "_has_sorted_sa_indices",
     [("s_indices", "LZ"), ("a_indices", "LZ")], "B", {}, True),
    ("s_wise_max_argmax", "quantecon/markov/utilities.py", "_s_wise_max_argmax",
     [("a_indices", "LZ"), ("a_indptr", "LZ"), ("vals", "LT"), ("out_max", "LT"), ("out_argmax", "LZ")],
     None, {}, True),
    ("s_wise_max", "quantecon/markov/utilities.py", "_s_wise_max",
     [("a_indices", "LZ"), ("a_indptr", "LZ"), ("vals", "LT"), ("out_max", "LT")], None, {}, True),
    ("find_indices", "quantecon/markov/utilities.py", "_find_indices",
     [("a_indices", "LZ"), ("a_indptr", "LZ"), ("sigma", "LZ"), ("out", "LZ")], None, {}, True),
]
# Kernels2.v: dict(cname, file, py, params, rtype (None | type | tuple of types), fuels)
PIV = "quantecon/optimize/pivoting.py"
KERNELS2 = [
    dict(cname="pivoting", file=PIV, py="_pivoting",
         params=[("tableau", "MT"), ("pivot_col", "Z"), ("pivot_row", "Z")], rtype=None, fuels={}),
    dict(cname="min_ratio_test_no_tie_breaking", file=PIV, py="_min_ratio_test_no_tie_breaking",
         params=[("tableau", "MT"), ("pivot", "Z"), ("test_col", "Z"), ("argmins", "LZ"), ("num_candidates", "Z"),
                 ("tol_piv", "T"), ("tol_ratio_diff", "T")], rtype="Z", fuels={}),
    dict(cname="lex_min_ratio_test", file=PIV, py="_lex_min_ratio_test",
         params=[("tableau", "MT"), ("pivot", "Z"), ("slack_start", "Z"), ("argmins", "LZ"),
                 ("tol_piv", "T"), ("tol_ratio_diff", "T")], rtype=("B", "Z"), fuels={}),
]
LPS = "quantecon/optimize/linprog_simplex.py"
KERNELS2 += [
    dict(cname="pivot_col", file=LPS, py="_pivot_col",
         params=[("tableau", "MT"), ("skip_aux", "B"), ("piv_options", "PO")], rtype=("B", "Z"), fuels={}),
    dict(cname="solve_tableau", file=LPS, py="solve_tableau",
         params=[("tableau", "MT"), ("basis", "LZ"), ("max_iter", "Z"), ("skip_aux", "B"), ("piv_options", "PO")],
         rtype=("B", "Z", "Z"), fuels={0: "Z.to_nat max_iter"}),
]
KERNELS2 += [
    dict(cname="initialize_tableau", file=LPS, py="_initialize_tableau",
         params=[("A_ub", "MT"), ("b_ub", "LT"), ("A_eq", "MT"), ("b_eq", "LT"), ("tableau", "MT"), ("basis", "LZ")],
         rtype=None, fuels={}),
    dict(cname="set_criterion_row", file=LPS, py="_set_criterion_row",
         params=[("c", "LT"), ("basis", "LZ"), ("tableau", "MT")], rtype=None, fuels={}),
    dict(cname="get_solution", file=LPS, py="get_solution",
         params=[("tableau", "MT"), ("basis", "LZ"), ("x", "LT"), ("lambd", "LT"), ("b_signs", "LB")], rtype="T", fuels={}),
]
LEM = "quantecon/optimize/lcp_lemke.py"
KERNELS2 += [
    dict(cname="lemke_initialize_tableau", file=LEM, py="_initialize_tableau",
         params=[("M", "MT"), ("q", "LT"), ("d", "LT"), ("tableau", "MT"), ("basis", "LZ")], rtype=None, fuels={}),
    dict(cname="lemke_get_solution", file=LEM, py="_get_solution",
         params=[("tableau", "MT"), ("basis", "LZ"), ("z", "LT")], rtype=None, fuels={}),
    # d, tableau, basis, z (default None in the source) are translated as supplied arrays
    dict(cname="lcp_lemke", file=LEM, py="lcp_lemke",
         params=[("M", "MT"), ("q", "LT"), ("d", "LT"), ("max_iter", "Z"), ("piv_options", "PO"),
                 ("tableau", "MT"), ("basis", "LZ"), ("z", "LT")],
         rtype=("B", "Z", "Z"), fuels={0: "Z.to_nat (max_iter - 1)"}, result_nt="LCPResult"),
]
# Kernels3.v (same translator mode as Kernels2.v; may call kernels of Kernels.v and Kernels2.v)
KERNELS3 = [
    dict(cname="gth_solve_jit", file="quantecon/markov/gth_solve.py", py="_gth_solve_jit",
         params=[("A", "MT"), ("out", "LT")], rtype=None, fuels={}),
    dict(cname="solve_phase_1", file=LPS, py="solve_phase_1",
         params=[("tableau", "MT"), ("basis", "LZ"), ("max_iter", "Z"), ("piv_options", "PO")], rtype=("B", "Z", "Z"), fuels={}),
    dict(cname="probvec", file="quantecon/random/utilities.py", py="_probvec",
         params=[("r", "LT"), ("out", "LT")], rtype=None, fuels={}),
    dict(cname="sample_without_replacement", file="quantecon/random/utilities.py", py="_sample_without_replacement",
         params=[("n", "Z"), ("r", "LT"), ("out", "LZ")], rtype=None, fuels={}),
    dict(cname="simulate_linear_model", file="quantecon/_lss.py", py="simulate_linear_model",
         params=[("A", "MT"), ("x0", "LT"), ("v", "MT"), ("ts_length", "Z")], rtype="MT", fuels={}),
    dict(cname="generate_sample_paths", file="quantecon/markov/core.py", py="_generate_sample_paths",
         params=[("P_cdfs", "MT"), ("init_states", "LZ"), ("random_values", "MT"), ("out", "MZ")], rtype=None, fuels={}),
    dict(cname="generate_sample_paths_sparse", file="quantecon/markov/core.py", py="_generate_sample_paths_sparse",
         params=[("P_cdfs1d", "LT"), ("indices", "LZ"), ("indptr", "LZ"), ("init_states", "LZ"), ("random_values", "MT"),
                 ("out", "MZ")], rtype=None, fuels={}),
]
# Kernels4.v: scalar solvers with function arguments (spec keys as above + v4=True, unbound=[(name, type)..])
RF = "quantecon/optimize/root_finding.py"
SOLVER_RT = ("T", "Z", "Z", "B")       # results(root, function_calls, iterations, converged)
KERNELS4 = [
    dict(cname="bisect_interval", file=RF, py="_bisect_interval",
         params=[("a", "T"), ("b", "T"), ("fa", "T"), ("fb", "T")], rtype=("T", "Z"), fuels={}),
    dict(cname="newton", file=RF, py="newton",
         params=[("func", "F"), ("x0", "T"), ("fprime", "F"), ("args", "ARGS"), ("tol", "T"), ("maxiter", "Z"), ("disp", "B")],
         rtype=SOLVER_RT, fuels={}, unbound=[("p", "T"), ("itr", "Z")]),
    dict(cname="newton_halley", file=RF, py="newton_halley",
         params=[("func", "F"), ("x0", "T"), ("fprime", "F"), ("fprime2", "F"), ("args", "ARGS"), ("tol", "T"), ("maxiter", "Z"),
                 ("disp", "B")], rtype=SOLVER_RT, fuels={}, unbound=[("p", "T"), ("itr", "Z")]),
    dict(cname="newton_secant", file=RF, py="newton_secant",
         params=[("func", "F"), ("x0", "T"), ("args", "ARGS"), ("tol", "T"), ("maxiter", "Z"), ("disp", "B")],
         rtype=SOLVER_RT, fuels={}, unbound=[("p", "T"), ("itr", "Z")]),
    dict(cname="bisect", file=RF, py="bisect",
         params=[("f", "F"), ("a", "T"), ("b", "T"), ("args", "ARGS"), ("xtol", "T"), ("rtol", "T"), ("maxiter", "Z"), ("disp", "B")],
         rtype=SOLVER_RT, fuels={}, unbound=[("itr", "Z")]),
    dict(cname="brentq", file=RF, py="brentq",
         params=[("f", "F"), ("a", "T"), ("b", "T"), ("args", "ARGS"), ("xtol", "T"), ("rtol", "T"), ("maxiter", "Z"), ("disp", "B")],
         rtype=SOLVER_RT, fuels={},
         unbound=[("itr", "Z"), ("xblk", "T"), ("fblk", "T"), ("spre", "T"), ("scur", "T")]),
]
# brent_max (scalar_maximization.py) translates with these features (np.isfinite, integer flags as conditions, x + (c),
# tuple-valued locals) but has no tie lemma yet, so it is not generated.
GT = "quantecon/_gridtools.py"
KERNELS4 += [
    dict(cname="num_compositions_jit", file=GT, py="num_compositions_jit", params=[("m", "Z"), ("n", "Z")], rtype="Z", fuels={}),
    dict(cname="simplex_grid", file=GT, py="simplex_grid", params=[("m", "Z"), ("n", "Z")], rtype="MZ", fuels={}),
]
KERNELS4 += [      # appended after the kernels above: their generated text stays byte-identical
    dict(cname="brent_max", file="quantecon/optimize/scalar_maximization.py", py="brent_max",
         params=[("func", "F"), ("a", "T"), ("b", "T"), ("args", "ARGS"), ("xtol", "T"), ("maxiter", "Z")],
         rtype=("T", "T", ("Z", "Z")), fuels={0: "S (Z.to_nat maxiter)"}),
]
# PO: the namedtuple PivOptions(fea_tol, tol_piv, tol_ratio_diff), flattened into three element parameters
PO_FIELDS = ["fea_tol", "tol_piv", "tol_ratio_diff"]
PO_DEFAULTS = ["FEA_TOL", "TOL_PIV", "TOL_RATIO_DIFF"]     # PivOptions.__new__.__defaults__ (checked in generate2)
CALLABLE = {}
CALL2 = {}    # python name -> dict(coq, params, rtype, outs, amb, defaults, modconsts)
COQTY = {"Z": "Z", "T": "T", "B": "bool", "LT": "list T", "LZ": "list Z", "MT": "list (list T)", "LB": "list bool", "MZ": "list (list Z)",
         "F": "T -> T", "S": "string"}
ELT = {"LT": "T", "LZ": "Z"}


def coqty(t):
    if isinstance(t, tuple):
        return "(" + " * ".join(coqty(x) for x in t) + ")"
    return COQTY[t]


PRELUDE = """(* helpers used by the generated code *)
Fixpoint upd_nth {A} (l : list A) (i : nat) (v : A) : list A :=
  match l, i with
  | [], _ => []
  | _ :: r, O => v :: r
  | x :: r, S i' => x :: upd_nth r i' v
  end.
Definition inb {A} (i : Z) (l : list A) : bool := (0 <=? i) && (i <? Z.of_nat (length l)).
"""

PRELUDE2 = """(* helpers for 2-d arrays (row-major list of rows).  An index i < 0 denotes i + size (NumPy/Numba
   wraparound); inb2 is the bounds flag of one 2-d access: both wrapped indices inside the array. *)
Definition widx (i : Z) (n : nat) : Z := if i <? 0 then i + Z.of_nat n else i.
Definition row2 {A} (a : list (list A)) (i : Z) : list A := nth (Z.to_nat (widx i (length a))) a [].
Definition get2 {T : Type} `{Num T} (a : list (list T)) (i j : Z) : T :=
  nth (Z.to_nat (widx j (length (row2 a i)))) (row2 a i) nzero.
Definition set2 {A} (a : list (list A)) (i j : Z) (v : A) : list (list A) :=
  upd_nth a (Z.to_nat (widx i (length a))) (upd_nth (row2 a i) (Z.to_nat (widx j (length (row2 a i)))) v).
Definition inb2 {A} (i j : Z) (a : list (list A)) : bool :=
  inb (widx i (length a)) a && inb (widx j (length (row2 a i))) (row2 a i).
Definition nrows2 {A} (a : list (list A)) : Z := Z.of_nat (length a).
Definition ncols2 {A} (a : list (list A)) : Z := Z.of_nat (length (nth 0%nat a [])).
(* a[:-1, :] *)
Definition droplast2 {A} (a : list (list A)) : list (list A) := firstn (length a - 1) a.
(* slice stores a[sel] = v, a[sel, sel] = v.  A dimension is selected by an index (Ix i, wrapped) or by lo:hi
   (Sl; bounds clipped to [0, size] after wraparound as in NumPy; BndEnd = omitted upper bound) *)
Inductive bnd := Bnd (i : Z) | BndEnd.
Inductive dimsel := Sl (lo hi : bnd) | Ix (i : Z).
Definition bnd_val (b : bnd) (n : nat) : Z :=
  match b with Bnd i => Z.min (Z.of_nat n) (Z.max 0 (widx i n)) | BndEnd => Z.of_nat n end.
Definition sel_lo (s : dimsel) (n : nat) : Z := match s with Sl lo _ => bnd_val lo n | Ix i => widx i n end.
Definition sel_hi (s : dimsel) (n : nat) : Z := match s with Sl _ hi => bnd_val hi n | Ix i => widx i n + 1 end.
Fixpoint mapz_from {A} (f : Z -> A -> A) (i : Z) (l : list A) : list A :=
  match l with [] => [] | x :: r => f i x :: mapz_from f (i + 1) r end.
Definition fill1 {A} (r : list A) (s : dimsel) (v : A) : list A :=
  mapz_from (fun j x => if (sel_lo s (length r) <=? j) && (j <? sel_hi s (length r)) then v else x) 0 r.
Definition fill2 {A} (a : list (list A)) (rs cs : dimsel) (v : A) : list (list A) :=
  mapz_from (fun i row => if (sel_lo rs (length a) <=? i) && (i <? sel_hi rs (length a)) then fill1 row cs v else row) 0 a.
"""

PRELUDE4 = """(* Kernels of this file return (exception text + value, ok__) when the Python function can raise.
   Function arguments f(x, *args) are Gallina parameters f : T -> T; abs / unary minus / np.sign / floating-point
   literals other than 0.0 and 1.0 are extra parameters abs_ neg_ sign_ c_<value> (an integer literal k in a
   floating-point operation is the literal k.0). *)
"""
PRELUDE3 = """(* np.sum of a 1-d array (numba: acc = 0; for v in a: acc += v) and the 1-d view r[lo:hi] *)
Definition nsum1 {T : Type} `{Num T} (l : list T) : T := fold_left nadd l nzero.
Definition slice1 {A} (r : list A) (s : dimsel) : list A :=
  firstn (Z.to_nat (sel_hi s (length r) - sel_lo s (length r))) (skipn (Z.to_nat (sel_lo s (length r))) r).
(* a[:, j] = v : one entry of v per row (NumPy requires len(v) = number of rows; column j wrapped as usual) *)
Definition setcol2 {T : Type} `{Num T} (a : list (list T)) (j : Z) (v : list T) : list (list T) :=
  mapz_from (fun i row => upd_nth row (Z.to_nat (widx j (length row))) (nth (Z.to_nat i) v nzero)) 0 a.
Definition setcol2_ok {A} (a : list (list A)) (j : Z) (v : list A) : bool :=
  (length v =? length a)%nat && forallb (fun row => inb (widx j (length row)) row) a.
(* entry of a 2-d integer array *)
Definition get2z (a : list (list Z)) (i j : Z) : Z :=
  nth (Z.to_nat (widx j (length (row2 a i)))) (row2 a i) 0.
"""


AMB_TYPES = {"floor_mul_": "T -> Z -> Z", "sort_": "list T -> list T", "abs_": "T -> T", "neg_": "T -> T", "sign_": "T -> T",
             "isfinite_": "T -> bool"}     # ambient parameters that are not elements


def amb_type(a):
    return AMB_TYPES.get(a, "T")


class Unsupported(Exception):
    pass


COQ_KEYWORDS = {"fun", "match", "end", "let", "in", "if", "then", "else", "fix", "cofix", "forall", "exists", "with", "as",
                "at", "return", "using", "where", "struct", "Type", "Set", "Prop", "SProp", "for", "IF", "exists2", "by"}


def find_func(tree, name):
    for n in tree.body:
        if isinstance(n, ast.FunctionDef) and n.name == name:
            return n
    raise Unsupported("function %s not found" % name)


def strip_doc(body):
    if body and isinstance(body[0], ast.Expr) and isinstance(body[0].value, ast.Constant) and isinstance(body[0].value.value, str):
        return body[1:]
    return body


def is_cond(e):
    return isinstance(e, (ast.BoolOp, ast.Compare)) or (isinstance(e, ast.UnaryOp) and isinstance(e.op, ast.Not)) \
        or (isinstance(e, ast.Constant) and isinstance(e.value, bool)) \
        or (isinstance(e, ast.Call) and ast.unparse(e.func) == "np.isfinite" and len(e.args) == 1 and not e.keywords)


class Tr:
    def __init__(self, cname, fn, ptypes, rtype, fuels, checked, v2=False, modconsts=None, file=None, imports=None,
                 result_nt=None, v4=False, unbound=None):
        self.cname, self.fn, self.rtype, self.fuels, self.checked = cname, fn, rtype, fuels, checked
        self.types = dict(ptypes)
        self.params = [p for p, _ in ptypes]
        self.aux = []
        self.nloops = 0
        self.nwhile = 0
        self.generic = any(t in ("T", "LT", "MT") for _, t in ptypes)
        self.v2 = v2                    # Kernels2 mode: results carry the stored arrays, 2-d arrays, calls with effects
        self.amb = []                   # extra leading element parameters (inf_, module constants), in order of first use
        self.amb_stack = []
        self.modconsts = modconsts or {}
        self.file, self.imports = file, imports or {}
        self.result_nt = result_nt      # (namedtuple name, index of the array field) of the `return NT(arr, scalars..)` form
        self.ntmp = 0
        self.optional_supplied = []
        self.v4 = v4                    # Kernels4 mode: scalar solvers with function arguments, float literals, raise
        self.unbound = unbound or []    # variables that Python leaves unbound until their first assignment: (name, type)
        self.raises = False
        self.binders = []               # (name, type) with PO parameters flattened
        for pn, t in ptypes:
            if t == "ARGS":
                continue                 # the *args tuple: folded into the function parameters
            if t == "F":
                self.generic = True
            if t == "PO":
                if not v2:
                    raise Unsupported("PivOptions parameter")
                for f in PO_FIELDS:
                    self.types["%s_%s" % (pn, f)] = "T"
                    self.binders.append(("%s_%s" % (pn, f), "T"))
                self.generic = True
            else:
                self.binders.append((pn, t))
        if checked:
            self.types["ok__"] = "B"

    # ---------------- expressions
    def ty(self, e):
        if is_cond(e):
            return "B"
        if self.v4 and isinstance(e, ast.Name) and e.id not in self.types and type(self.modconsts.get(e.id)) is int:
            return "Z"
        if self.v4 and isinstance(e, ast.Name) and e.id not in self.types and type(self.modconsts.get(e.id)) is str:
            return "S"
        if self.v4 and self.np_int_alloc(e) is not None:
            return self.np_int_alloc(e)[0]
        if isinstance(e, ast.Name):
            if e.id not in self.types:
                raise Unsupported("unknown variable %s" % e.id)
            return self.types[e.id]
        if self.v4 and isinstance(e, ast.Constant) and type(e.value) is float:
            return "T"
        if self.v4 and isinstance(e, ast.Constant) and type(e.value) is str:
            return "S"
        if self.v4 and isinstance(e, ast.IfExp):
            a, b = self.ty(e.body), self.ty(e.orelse)
            if a != b or a not in ("T", "Z") or self.ty(e.test) != "B":
                raise Unsupported("conditional expression %s" % ast.unparse(e))
            return a
        if self.v4 and self.fcall(e) is not None:
            return "T"
        if self.v4 and self.lib1(e) is not None:
            return "T"
        if self.v4 and self.sqrt_const(e) is not None:
            return "T"
        if self.v4 and isinstance(e, ast.Call) and self.callname(e) in ("min", "max", "np.maximum", "np.minimum") \
                and len(e.args) == 2 and self.ty(e.args[0]) == "T" and self.ty(e.args[1]) == "T":
            return "T"
        if isinstance(e, ast.Subscript):
            if self.v2 and self.shape_of(e.value):
                arr = self.shape_of(e.value)
                if isinstance(e.slice, ast.Constant) and e.slice.value in ((0, 1) if self.types[arr] in ("MT", "MZ") else (0,)):
                    return "Z"
                raise Unsupported("shape component %s" % ast.unparse(e))
            t = self.ty(e.value)
            if self.v2 and t in ("MT", "MZ"):
                if isinstance(e.slice, ast.Tuple) and len(e.slice.elts) == 2 and all(self.ty(x) == "Z" for x in e.slice.elts):
                    return "T" if t == "MT" else "Z"
                raise Unsupported("2-d subscript %s" % ast.unparse(e))
            if self.v2 and t == "LB" and self.ty(e.slice) == "Z":
                return "B"
            if t not in ("LT", "LZ"):
                raise Unsupported("subscript of non-array")
            return {"LT": "T", "LZ": "Z"}[t]
        if isinstance(e, ast.Constant):
            if not isinstance(e.value, int):
                raise Unsupported("constant %r" % (e.value,))
            return "Z"
        if isinstance(e, ast.BinOp):
            a, b = self.ty(e.left), self.ty(e.right)
            if self.v2 and (a, b) == ("T", "Z") and self.intlit(e.right) is not None:
                return "T"
            if self.v2 and (a, b) == ("Z", "T") and self.intlit(e.left) is not None:
                return "T"
            if self.v4 and (a, b) == ("T", "B") and isinstance(e.op, ast.Add) and isinstance(e.right, ast.Compare):
                return "T"                  # x + (c): a comparison counts as 1.0 / 0.0
            if self.v4 and (a, b) == ("T", "Z") and self.anyint(e.right) is not None:
                return "T"
            if self.v4 and (a, b) == ("Z", "T") and self.anyint(e.left) is not None:
                return "T"
            if a != b or a not in ("Z", "T"):
                raise Unsupported("mixed arithmetic in %s" % ast.unparse(e))
            return a
        if self.v2 and isinstance(e, ast.Tuple):
            ts = tuple(self.ty(x) for x in e.elts)
            if len(ts) < 2 or any(t not in ("Z", "T", "B") and not (self.v4 and isinstance(t, tuple) and isinstance(x, ast.Name))
                                  for t, x in zip(ts, e.elts)):
                raise Unsupported("tuple %s" % ast.unparse(e))
            return ts
        if self.v2 and isinstance(e, ast.Attribute) and ast.unparse(e) == "np.inf":
            return "T"
        if self.v2 and self.po_field(e):
            return "T"
        if self.v2 and self.np_empty_int(e) is not None:
            return "LZ"
        if self.v2 and self.np_empty2(e) is not None:
            return "MT"
        if self.v2 and self.np_arange(e) is not None:
            return "LZ"
        if self.v2 and self.floor_mul(e) is not None:
            return "Z"
        if self.v2 and isinstance(e, ast.Attribute) and e.attr == "size" and isinstance(e.value, ast.Name) \
                and self.types.get(e.value.id) in ("LT", "LZ"):
            return "Z"
        if self.v2 and self.all_nonneg(e):
            return "B"
        if self.v2 and self.np_sum(e) is not None:
            return "T"
        if isinstance(e, ast.UnaryOp) and isinstance(e.op, ast.USub):
            return self.ty(e.operand)
        if isinstance(e, ast.Call):
            f = self.callname(e)
            if f in ("min", "max"):
                return self.ty(e.args[0])
            if f == "len":
                return "Z"
            if f in CALLABLE:
                return CALLABLE[f][1]
        if isinstance(e, ast.Attribute) and ast.unparse(e) == "np.iinfo(np.intp).max":
            return "Z"
        raise Unsupported("expression %s" % ast.unparse(e)[:80])

    def callname(self, e):
        return e.func.id if isinstance(e.func, ast.Name) else ast.unparse(e.func)

    # ---------------- Kernels2 helpers
    def callee(self, call):
        """the Kernels2 kernel a call refers to: a function of this file, or one imported by `from .mod import f`"""
        f = self.callname(call)
        if (self.file, f) in CALL2:
            return CALL2[(self.file, f)]
        if f in self.imports and (self.imports[f], f) in CALL2:
            return CALL2[(self.imports[f], f)]
        return None

    def shape_of(self, e):
        """e is `a.shape` of an array variable: its name, else None"""
        if isinstance(e, ast.Attribute) and e.attr == "shape" and isinstance(e.value, ast.Name) \
                and self.types.get(e.value.id) in ("MT", "MZ", "LT", "LZ"):
            return e.value.id
        return None

    def all_nonneg(self, e):
        """e is `(a >= 0).all()` for a 1-d element array a: its name, else None"""
        if isinstance(e, ast.Call) and not e.args and not e.keywords and isinstance(e.func, ast.Attribute) and e.func.attr == "all":
            c = e.func.value
            if isinstance(c, ast.Compare) and len(c.ops) == 1 and isinstance(c.ops[0], ast.GtE) and isinstance(c.left, ast.Name) \
                    and self.types.get(c.left.id) == "LT" and self.intlit(c.comparators[0]) == 0:
                return c.left.id
        return None

    def np_sum(self, e):
        """e is np.sum(a) / np.sum(a[i, lo:hi]) / np.sum(a[lo:hi]) over elements: (Coq list expression, bounds flag or None)"""
        if not (isinstance(e, ast.Call) and ast.unparse(e.func) == "np.sum" and len(e.args) == 1 and not e.keywords):
            return None
        a = e.args[0]
        if isinstance(a, ast.Name) and self.types.get(a.id) == "LT":
            return a.id, None
        if isinstance(a, ast.Subscript) and isinstance(a.value, ast.Name):
            t = self.types.get(a.value.id)
            if t == "LT" and isinstance(a.slice, ast.Slice):
                return "(slice1 %s %s)" % (a.value.id, self.dimsel(a.slice)), None
            if t == "MT" and isinstance(a.slice, ast.Tuple) and len(a.slice.elts) == 2 \
                    and not isinstance(a.slice.elts[0], ast.Slice) and isinstance(a.slice.elts[1], ast.Slice):
                i = a.slice.elts[0]
                if self.ty(i) != "Z" or self.reads_ok(i):
                    raise Unsupported("row index in %s" % ast.unparse(e))
                return ("(slice1 (row2 %s %s) %s)" % (a.value.id, self.ex(i), self.dimsel(a.slice.elts[1])),
                        "inb (widx %s (length %s)) %s" % (self.ex(i), a.value.id, a.value.id))
        return None

    def po_field(self, e):
        """e is `p.field` of a PivOptions parameter: the flattened variable name, else None"""
        if isinstance(e, ast.Attribute) and isinstance(e.value, ast.Name) and self.types.get(e.value.id) == "PO" \
                and e.attr in PO_FIELDS:
            return "%s_%s" % (e.value.id, e.attr)
        return None

    def np_empty_int(self, e):
        """e is `np.empty(n, dtype=np.int_)`: the size expression, else None"""
        if isinstance(e, ast.Call) and ast.unparse(e.func) == "np.empty" and len(e.args) == 1 and len(e.keywords) == 1 \
                and e.keywords[0].arg == "dtype" and ast.unparse(e.keywords[0].value) == "np.int_" \
                and not isinstance(e.args[0], ast.Tuple) and self.ty(e.args[0]) == "Z":
            return e.args[0]
        return None

    def sort_call(self, e):
        if isinstance(e, ast.Call) and not e.args and not e.keywords and isinstance(e.func, ast.Attribute) and e.func.attr == "sort" \
                and isinstance(e.func.value, ast.Name) and self.types.get(e.func.value.id) == "LT":
            return e.func.value.id
        return None

    def np_arange(self, e):
        if isinstance(e, ast.Call) and ast.unparse(e.func) == "np.arange" and len(e.args) == 1 and not e.keywords \
                and self.ty(e.args[0]) == "Z":
            return e.args[0]
        return None

    def floor_mul(self, e):
        """np.intp(np.floor(a * b)) with a an element and b an integer: (a, b).  The integer-valued floor of the
        mixed product is the extra parameter floor_mul_ : T -> Z -> Z of the generated kernel"""
        if isinstance(e, ast.Call) and ast.unparse(e.func) == "np.intp" and len(e.args) == 1 and not e.keywords:
            f = e.args[0]
            if isinstance(f, ast.Call) and ast.unparse(f.func) == "np.floor" and len(f.args) == 1 and not f.keywords \
                    and isinstance(f.args[0], ast.BinOp) and isinstance(f.args[0].op, ast.Mult):
                a, b = f.args[0].left, f.args[0].right
                try:
                    if self.ty(a) == "T" and self.ty(b) == "Z":
                        return a, b
                except Unsupported:
                    return None
        return None

    def np_empty2(self, e):
        """e is `np.empty((n, m))` (float64): the two size expressions, else None"""
        if isinstance(e, ast.Call) and ast.unparse(e.func) == "np.empty" and len(e.args) == 1 and not e.keywords \
                and isinstance(e.args[0], ast.Tuple) and len(e.args[0].elts) == 2 and all(self.ty(x) == "Z" for x in e.args[0].elts):
            return e.args[0].elts
        return None

    def shape_ex(self, arr, k):
        if self.types[arr] in ("MT", "MZ"):
            return "(%s %s)" % ("nrows2" if k == 0 else "ncols2", arr)
        return "(Z.of_nat (length %s))" % arr

    def np_int_alloc(self, e):
        """np.zeros(n, dtype=np.int_) / np.empty((a, b), dtype=np.int_): (type, Coq text); uninitialised memory as zeros"""
        if isinstance(e, ast.Call) and ast.unparse(e.func) in ("np.zeros", "np.empty") and len(e.args) == 1 and len(e.keywords) == 1 \
                and e.keywords[0].arg == "dtype" and ast.unparse(e.keywords[0].value) == "np.int_":
            a = e.args[0]
            if isinstance(a, ast.Tuple) and len(a.elts) == 2 and all(self.ty(x) == "Z" for x in a.elts):
                return "MZ", "(repeat (repeat 0 (Z.to_nat %s)) (Z.to_nat %s))" % (self.ex(a.elts[1]), self.ex(a.elts[0]))
            if not isinstance(a, ast.Tuple) and self.ty(a) == "Z" and ast.unparse(e.func) == "np.zeros":
                return "LZ", "(repeat 0 (Z.to_nat %s))" % self.ex(a)
        return None

    def anyint(self, e):
        """an int literal (possibly negated) in element context: its value"""
        if isinstance(e, ast.Constant) and type(e.value) is int:
            return e.value
        if isinstance(e, ast.UnaryOp) and isinstance(e.op, ast.USub) and isinstance(e.operand, ast.Constant) and type(e.operand.value) is int:
            return -e.operand.value
        return None

    def fconst(self, v):
        """a floating-point literal: 0.0 / 1.0 are nzero / none_, any other value is an extra parameter c_<value>"""
        v = float(v)
        if v == 0.0:
            return "nzero"
        if v == 1.0:
            return "none_"
        name = "c_" + repr(abs(v)).replace(".", "_").replace("-", "m").replace("+", "")
        return self.use_amb(name) if v > 0 else "(%s %s)" % (self.use_amb("neg_"), self.use_amb(name))

    def fcall(self, e):
        """f(x, *args) with f a function parameter: (f, x)"""
        if isinstance(e, ast.Call) and isinstance(e.func, ast.Name) and self.types.get(e.func.id) == "F" and not e.keywords \
                and len(e.args) == 2 and isinstance(e.args[1], ast.Starred) and isinstance(e.args[1].value, ast.Name) \
                and self.types.get(e.args[1].value.id) == "ARGS" and self.ty(e.args[0]) == "T":
            return e.func.id, e.args[0]
        return None

    def lib1(self, e):
        """abs / np.abs / np.sign of an element: (extra function parameter, argument)"""
        if isinstance(e, ast.Call) and not e.keywords and len(e.args) == 1:
            f = self.callname(e)
            nm = {"abs": "abs_", "np.abs": "abs_", "np.sign": "sign_"}.get(f)
            if nm and self.ty(e.args[0]) == "T":
                return nm, e.args[0]
        return None

    def sqrt_const(self, e):
        if isinstance(e, ast.Call) and self.callname(e) == "np.sqrt" and len(e.args) == 1 and not e.keywords \
                and isinstance(e.args[0], ast.Constant) and type(e.args[0].value) is float:
            return "sqrt_" + repr(e.args[0].value).replace(".", "_").replace("-", "m").replace("+", "")
        return None

    def negconst(self, e):
        return isinstance(e, ast.UnaryOp) and isinstance(e.op, ast.USub) and isinstance(e.operand, ast.Constant) \
            and type(e.operand.value) is int and e.operand.value > 0

    def view(self, e):
        """read-only views bound to a local name: M[i] (row of a 2-d array) and a[lo:hi] (1-d slice):
        (Coq text, type, expressions whose reads must be guarded, extra bounds flags) or None"""
        if not (isinstance(e, ast.Subscript) and isinstance(e.value, ast.Name)):
            return None
        t = self.types.get(e.value.id)
        if t in ("MT", "MZ") and not isinstance(e.slice, (ast.Tuple, ast.Slice)) and self.ty(e.slice) == "Z":
            i = self.ex(e.slice)
            return ("(row2 %s %s)" % (e.value.id, i), "LT" if t == "MT" else "LZ", [e.slice],
                    ["inb (widx %s (length %s)) %s" % (i, e.value.id, e.value.id)])
        if t in ("LT", "LZ") and isinstance(e.slice, ast.Slice):
            return ("(slice1 %s %s)" % (e.value.id, self.dimsel(e.slice, allow_reads=True)), t,
                    [b for b in (e.slice.lower, e.slice.upper) if b is not None], [])
        return None

    def intlit(self, e):
        """int literal 0 / 1 / -1 (element context): its value, else None"""
        if isinstance(e, ast.Constant) and type(e.value) is int and e.value in (0, 1):
            return e.value
        if isinstance(e, ast.UnaryOp) and isinstance(e.op, ast.USub) and isinstance(e.operand, ast.Constant) \
                and type(e.operand.value) is int and e.operand.value == 1:
            return -1
        return None

    def exT(self, e, want):
        """expression of type `want`; int literals 0/1/-1 are accepted where an element is wanted"""
        if self.v4 and want == "T" and self.anyint(e) is not None and self.ty(e) == "Z":
            return self.fconst(self.anyint(e))
        if self.v2 and want == "T" and self.intlit(e) is not None and self.ty(e) == "Z":
            return {0: "nzero", 1: "none_", -1: "(nsub nzero none_)"}[self.intlit(e)]
        if self.ty(e) != want:
            raise Unsupported("type of %s: expected %s" % (ast.unparse(e), want))
        return self.ex(e)

    def use_amb(self, name):
        if name not in self.amb:
            self.amb.append(name)
        for st in self.amb_stack:
            st.add(name)
        return name

    def ex(self, e):
        if is_cond(e):
            return self.cond(e)
        if self.v4 and isinstance(e, ast.Name) and e.id not in self.types and type(self.modconsts.get(e.id)) is int:
            v = self.modconsts[e.id]
            return "%d" % v if v >= 0 else "(%d)" % v
        if self.v4 and isinstance(e, ast.Name) and e.id not in self.types and type(self.modconsts.get(e.id)) is str:
            return '"%s"%%string' % self.modconsts[e.id].replace('"', '""')
        if self.v4 and self.np_int_alloc(e) is not None:
            return self.np_int_alloc(e)[1]
        if isinstance(e, ast.Name):
            self.ty(e)
            return e.id
        if self.v4 and isinstance(e, ast.Constant) and type(e.value) is float:
            return self.fconst(e.value)
        if self.v4 and isinstance(e, ast.Constant) and type(e.value) is str:
            return '"%s"%%string' % e.value.replace('"', '""')
        if self.v4 and isinstance(e, ast.IfExp):
            t = self.ty(e)
            return "(if %s then %s else %s)" % (self.cond(e.test), self.exT(e.body, t), self.exT(e.orelse, t))
        if self.v4 and self.fcall(e) is not None:
            f, x = self.fcall(e)
            return "(%s %s)" % (f, self.ex(x))
        if self.v4 and self.lib1(e) is not None:
            nm, x = self.lib1(e)
            return "(%s %s)" % (self.use_amb(nm), self.ex(x))
        if self.v4 and self.sqrt_const(e) is not None:
            return self.use_amb(self.sqrt_const(e))
        if self.v4 and isinstance(e, ast.Call) and self.callname(e) in ("min", "max", "np.maximum", "np.minimum") and self.ty(e) == "T":
            a, b = self.ex(e.args[0]), self.ex(e.args[1])       # Python: min(a, b) = b if b < a else a; max(a, b) = b if a < b else a
            return "(if nltb %s %s then %s else %s)" % ((b, a, b, a) if self.callname(e) in ("min", "np.minimum") else (a, b, b, a))
        if isinstance(e, ast.Constant):
            self.ty(e)
            return "%d" % e.value if e.value >= 0 else "(%d)" % e.value
        if isinstance(e, ast.Attribute) and ast.unparse(e) == "np.iinfo(np.intp).max":
            return "9223372036854775807"
        if isinstance(e, ast.UnaryOp) and isinstance(e.op, ast.USub):
            if self.v4 and self.ty(e.operand) == "T":
                return "(%s %s)" % (self.use_amb("neg_"), self.ex(e.operand))
            if self.v2 and self.ty(e.operand) == "T":
                return "(nsub nzero %s)" % self.ex(e.operand)   # -x as 0 - x (differs from IEEE negation only in the sign of zero)
            if self.ty(e.operand) != "Z":
                raise Unsupported("element negation")
            return "(- %s)" % self.ex(e.operand)
        if self.v2 and isinstance(e, ast.Attribute) and ast.unparse(e) == "np.inf":
            return self.use_amb("inf_")
        if self.v2 and self.po_field(e):
            return self.po_field(e)
        if self.v2 and isinstance(e, ast.Attribute) and e.attr == "size":
            self.ty(e)
            return "(Z.of_nat (length %s))" % e.value.id
        if self.v2 and self.all_nonneg(e):
            return "(forallb (fun x__ => nleb nzero x__) %s)" % self.all_nonneg(e)
        if self.v2 and self.np_sum(e) is not None:
            return "(nsum1 %s)" % self.np_sum(e)[0]
        if self.v2 and self.np_arange(e) is not None:
            return "(map Z.of_nat (seq 0 (Z.to_nat %s)))" % self.ex(self.np_arange(e))
        if self.v2 and self.floor_mul(e) is not None:
            a, b = self.floor_mul(e)
            return "(%s %s %s)" % (self.use_amb("floor_mul_"), self.ex(a), self.ex(b))
        if self.v2 and self.np_empty2(e) is not None:
            a, b = self.np_empty2(e)    # uninitialised memory: modelled as zeros
            return "(repeat (repeat nzero (Z.to_nat %s)) (Z.to_nat %s))" % (self.ex(b), self.ex(a))
        if self.v2 and self.np_empty_int(e) is not None:
            # uninitialised memory: modelled as zeros; consumers' tie lemmas hold for ANY contents of that length
            return "(repeat 0 (Z.to_nat %s))" % self.ex(self.np_empty_int(e))
        if self.v2 and isinstance(e, ast.Tuple):
            self.ty(e)
            return "(" + ", ".join(self.ex(x) for x in e.elts) + ")"
        if self.v2 and isinstance(e, ast.Subscript) and self.shape_of(e.value):
            self.ty(e)
            return self.shape_ex(self.shape_of(e.value), e.slice.value)
        if self.v2 and isinstance(e, ast.Subscript) and self.ty(e.value) in ("MT", "MZ"):
            self.ty(e)
            return "(%s %s %s %s)" % ("get2" if self.ty(e.value) == "MT" else "get2z", self.ex(e.value),
                                      self.ex(e.slice.elts[0]), self.ex(e.slice.elts[1]))
        if isinstance(e, ast.Subscript):
            t = self.ty(e.value)
            idx = e.slice
            if self.ty(idx) != "Z":
                raise Unsupported("index type in %s" % ast.unparse(e))
            d = "nzero" if t == "LT" else "0"
            if self.v2 and self.negconst(idx):
                # a[-c]: counted from the end (NumPy/Numba wraparound)
                return "(nth (Z.to_nat (widx %s (length %s))) %s %s)" % (self.ex(idx), self.ex(e.value), self.ex(e.value), d)
            if isinstance(idx, ast.UnaryOp) or (isinstance(idx, ast.Constant) and idx.value < 0):
                raise Unsupported("negative index")
            return "(nth (Z.to_nat %s) %s %s)" % (self.ex(idx), self.ex(e.value), d)
        if self.v4 and isinstance(e, ast.BinOp) and isinstance(e.op, ast.Add) and isinstance(e.right, ast.Compare) \
                and self.ty(e.left) == "T":
            return "(nadd %s (if %s then none_ else nzero))" % (self.ex(e.left), self.cond(e.right))
        if isinstance(e, ast.BinOp):
            t = self.ty(e)
            a, b = (self.exT(e.left, t), self.exT(e.right, t)) if self.v2 else (self.ex(e.left), self.ex(e.right))
            if t == "Z":
                op = {ast.Add: "+", ast.Sub: "-", ast.Mult: "*", ast.FloorDiv: "/", ast.Mod: "mod"}.get(type(e.op))
                if op is None:
                    raise Unsupported("int operator %s" % type(e.op).__name__)
                return "(%s %s %s)" % (a, op, b)
            op = {ast.Add: "nadd", ast.Sub: "nsub", ast.Mult: "nmul", ast.Div: "ndiv"}.get(type(e.op))
            if op is None:
                raise Unsupported("element operator")
            return "(%s %s %s)" % (op, a, b)
        if isinstance(e, ast.Call):
            f = self.callname(e)
            if f in ("min", "max") and len(e.args) == 2 and self.ty(e.args[0]) == "Z" and self.ty(e.args[1]) == "Z":
                return "(Z.%s %s %s)" % (f, self.ex(e.args[0]), self.ex(e.args[1]))
            if f == "len" and len(e.args) == 1 and self.ty(e.args[0]) in ("LT", "LZ"):
                return "(Z.of_nat (length %s))" % self.ex(e.args[0])
            if f in CALLABLE:
                return "(%s %s)" % (CALLABLE[f][0], " ".join(self.ex(a) for a in e.args))
        raise Unsupported("expression %s" % ast.unparse(e))

    def cond(self, e):
        if isinstance(e, ast.Constant) and isinstance(e.value, bool):
            return "true" if e.value else "false"
        if self.v2 and self.all_nonneg(e):
            return self.ex(e)
        if self.v4 and isinstance(e, ast.Call) and ast.unparse(e.func) == "np.isfinite":
            if self.ty(e.args[0]) != "T":
                raise Unsupported("np.isfinite of %s" % ast.unparse(e.args[0]))
            return "(%s %s)" % (self.use_amb("isfinite_"), self.ex(e.args[0]))
        if self.v4 and isinstance(e, ast.Name) and self.ty(e) == "Z":
            return "(negb (%s =? 0))" % e.id          # `if k:` on an integer
        if self.v2 and isinstance(e, ast.Compare) and len(e.ops) == 2:
            # a op b op c: the operands are pure, so this is (a op b) and (b op c)
            return "(%s && %s)" % (self.cond(ast.Compare(left=e.left, ops=[e.ops[0]], comparators=[e.comparators[0]])),
                                   self.cond(ast.Compare(left=e.comparators[0], ops=[e.ops[1]], comparators=[e.comparators[1]])))
        if isinstance(e, ast.BoolOp):
            op = "||" if isinstance(e.op, ast.Or) else "&&"
            return "(" + (" %s " % op).join(self.cond(v) for v in e.values) + ")"
        if isinstance(e, ast.UnaryOp) and isinstance(e.op, ast.Not):
            return "(negb %s)" % self.cond(e.operand)
        if isinstance(e, ast.Name) and self.ty(e) == "B":
            return e.id
        if self.v2 and isinstance(e, ast.Subscript) and isinstance(e.value, ast.Name) and self.types.get(e.value.id) == "LB" \
                and self.ty(e) == "B":
            return "(nth (Z.to_nat %s) %s false)" % (self.ex(e.slice), e.value.id)
        if isinstance(e, ast.Compare) and len(e.ops) == 1:
            a, b = e.left, e.comparators[0]
            ta, tb = self.ty(a), self.ty(b)
            if self.v4 and (ta, tb) == ("T", "Z") and self.anyint(b) is not None:
                sa, sb, tb = self.ex(a), self.exT(b, "T"), "T"
            elif self.v4 and (ta, tb) == ("Z", "T") and self.anyint(a) is not None:
                sa, sb, ta = self.exT(a, "T"), self.ex(b), "T"
            elif self.v2 and (ta, tb) == ("T", "Z") and self.intlit(b) is not None:
                sa, sb, tb = self.ex(a), self.exT(b, "T"), "T"
            elif self.v2 and (ta, tb) == ("Z", "T") and self.intlit(a) is not None:
                sa, sb, ta = self.exT(a, "T"), self.ex(b), "T"
            elif ta != tb:
                raise Unsupported("mixed comparison %s" % ast.unparse(e))
            else:
                sa, sb = self.ex(a), self.ex(b)
            o = type(e.ops[0])
            if ta == "Z":
                m = {ast.Lt: "(%s <? %s)", ast.LtE: "(%s <=? %s)", ast.Gt: "(%s >? %s)", ast.GtE: "(%s >=? %s)",
                     ast.Eq: "(%s =? %s)", ast.NotEq: "(negb (%s =? %s))"}
                return m[o] % (sa, sb)
            if ta == "T":
                m = {ast.Lt: "(nltb %s %s)", ast.LtE: "(nleb %s %s)", ast.Gt: "(nltb %s %s)", ast.GtE: "(nleb %s %s)",
                     ast.Eq: "(neqb %s %s)"}
                if self.v2:
                    m[ast.NotEq] = "(negb (neqb %s %s))"
                if o not in m:
                    raise Unsupported("element comparison %s" % ast.unparse(e))
                if o in (ast.Gt, ast.GtE):
                    sa, sb = sb, sa
                return m[o] % (sa, sb)
        raise Unsupported("condition %s" % ast.unparse(e))

    def reads_ok(self, e):
        """Coq bool: every array read performed when evaluating e is in bounds (short-circuit aware).
        Returns None when e performs no read."""
        if isinstance(e, ast.BoolOp):
            parts = [(self.reads_ok(v), self.cond(v)) for v in e.values]
            acc = None
            for okv, cv in reversed(parts):
                if acc is None:
                    acc = okv
                else:
                    guard = ("if %s then %s else true" if isinstance(e.op, ast.And) else "if %s then true else %s") % (cv, acc)
                    acc = "(%s && (%s))" % (okv, guard) if okv else "(%s)" % guard
            return acc
        oks = []
        if self.v2 and self.np_sum(e) is not None:
            return self.np_sum(e)[1] and "(%s)" % self.np_sum(e)[1]
        if self.v2 and isinstance(e, ast.Subscript) and self.shape_of(e.value):
            return None
        if self.v2 and isinstance(e, ast.Subscript) and isinstance(e.slice, ast.Tuple):
            self.ty(e)
            oks.append("inb2 %s %s %s" % (self.ex(e.slice.elts[0]), self.ex(e.slice.elts[1]), self.ex(e.value)))
        elif self.v2 and isinstance(e, ast.Subscript) and self.negconst(e.slice):
            oks.append("inb (widx %s (length %s)) %s" % (self.ex(e.slice), self.ex(e.value), self.ex(e.value)))
        elif isinstance(e, ast.Subscript):
            oks.append("inb %s %s" % (self.ex(e.slice), self.ex(e.value)))
        for ch in ast.iter_child_nodes(e):
            if isinstance(ch, ast.expr):
                r = self.reads_ok(ch)
                if r:
                    oks.append(r)
        if not oks:
            return None
        return "(" + " && ".join(oks) + ")"

    def guard(self, exprs, body_txt):
        """prefix body_txt with the ok__ update for the reads in exprs (checked mode)"""
        if not self.checked:
            return body_txt
        oks = [r for r in (self.reads_ok(x) for x in exprs) if r]
        if not oks:
            return body_txt
        return "let ok__ := ok__ && %s in\n%s" % (" && ".join(oks), body_txt)

    # ---------------- statements
    def assigned(self, stmts):
        out = []

        def add(v):
            if v not in out:
                out.append(v)
        for s in stmts:
            for n in ast.walk(s):
                if self.v2 and isinstance(n, ast.Call) and self.callee(n):
                    info = self.callee(n)
                    for pname, a in self.bind_args(n, info).items():
                        if pname in info["outs"]:
                            if not isinstance(a, ast.Name):
                                raise Unsupported("stored array argument %s" % ast.unparse(a))
                            add(a.id)
                if self.v2 and isinstance(n, ast.Assign) and isinstance(n.value, ast.Call) and ast.unparse(n.value.func) == "np.asarray":
                    continue
                if self.v2 and isinstance(n, ast.Expr) and self.sort_call(n.value):
                    add(self.sort_call(n.value))
                if isinstance(n, (ast.Assign, ast.AugAssign)):
                    tgts = n.targets if isinstance(n, ast.Assign) else [n.target]
                    if self.v2:
                        tgts = [x for t in tgts for x in (t.elts if isinstance(t, ast.Tuple) else [t])]
                    for t in tgts:
                        if isinstance(t, ast.Name):
                            add(t.id)
                        elif isinstance(t, ast.Subscript) and isinstance(t.value, ast.Name):
                            add(t.value.id)
                        else:
                            raise Unsupported("assignment target %s" % ast.unparse(t))
                if isinstance(n, ast.For) and isinstance(n.target, ast.Name):
                    add(n.target.id)
        if self.checked:
            add("ok__")
        return out

    def terminates(self, stmts):
        if not stmts:
            return False
        s = stmts[-1]
        if isinstance(s, (ast.Return, ast.Break, ast.Continue, ast.Raise)):
            return True
        if isinstance(s, ast.If):
            return self.terminates(s.body) and self.terminates(s.orelse)
        return False

    def has_exit(self, stmts, in_loop=False):
        for s in stmts:
            if isinstance(s, (ast.Return, ast.Raise)) or (isinstance(s, (ast.Break, ast.Continue)) and not in_loop):
                return True
            if isinstance(s, ast.If) and (self.has_exit(s.body, in_loop) or self.has_exit(s.orelse, in_loop)):
                return True
            if isinstance(s, (ast.For, ast.While)) and (self.has_exit(s.body, True) or self.has_exit(s.orelse, in_loop)):
                return True
        return False

    def tuple_of(self, names):
        return names[0] if len(names) == 1 else "(" + ", ".join(names) + ")"

    def pat_of(self, names):
        return names[0] if len(names) == 1 else "'(" + ", ".join(names) + ")"

    def stmts(self, body, k):
        if not body:
            if k["end"] is None:
                raise Unsupported("control reaches end of function without return")
            return k["end"]()
        s, rest = body[0], body[1:]
        if isinstance(s, ast.Return):
            if s.value is None:
                if k["end_proc"] is None:
                    raise Unsupported("bare return")
                return k["end_proc"]()
            if self.v2 and self.rtype is not None and self.result_nt and isinstance(s.value, ast.Call) \
                    and self.callname(s.value) == self.result_nt and not s.value.keywords and len(s.value.args) >= 3 \
                    and isinstance(s.value.args[0], ast.Name) and s.value.args[0].id in self.outs:
                tup = ast.Tuple(elts=list(s.value.args[1:]), ctx=ast.Load())   # the array field is among the stored arrays
                return self.stmts([ast.Return(value=tup)] + rest, k)
            if self.v2 and self.rtype is None and isinstance(s.value, ast.Tuple) and s.value.elts \
                    and all(isinstance(x, ast.Name) and x.id in self.outs for x in s.value.elts):
                if k["end_proc"] is None:
                    raise Unsupported("return inside a loop of a procedure")
                return k["end_proc"]()
            if self.v2 and self.rtype is None and isinstance(s.value, ast.Name) and s.value.id in self.outs:
                if k["end_proc"] is None:
                    raise Unsupported("return inside a loop of a procedure")
                return k["end_proc"]()     # `return a` of a stored array parameter: the caller already holds it
            if self.v4 and isinstance(s.value, ast.Call) and self.callname(s.value) == "_results" and len(s.value.args) == 1 \
                    and isinstance(s.value.args[0], ast.Tuple) and len(s.value.args[0].elts) == 4 and self.results_ok:
                x, fc, it, flag = s.value.args[0].elts     # _results(r): results(x, funcalls, iterations, flag == 0)
                tup = ast.Tuple(elts=[x, fc, it, ast.Compare(left=flag, ops=[ast.Eq()], comparators=[ast.Constant(value=0)])], ctx=ast.Load())
                return self.stmts([ast.Return(value=tup)] + rest, k)
            if self.rtype is None or self.ty(s.value) != self.rtype:
                raise Unsupported("return type of %s" % ast.unparse(s))
            return self.guard([s.value], k["ret"](self.retval(self.ex(s.value))))
        if self.v4 and isinstance(s, ast.Raise) and s.cause is None and isinstance(s.exc, ast.Call) and isinstance(s.exc.func, ast.Name) \
                and len(s.exc.args) == 1 and not s.exc.keywords and self.ty(s.exc.args[0]) == "S":
            if self.rtype is None:
                raise Unsupported("raise in a procedure")
            msg = self.ex(s.exc.args[0])
            return k["ret"]('(inl (String.append "%s: " %s))' % (s.exc.func.id, msg))
        if isinstance(s, ast.Break):
            return k["brk"]()
        if isinstance(s, ast.Continue):
            return k["cont"]()
        if isinstance(s, (ast.Assign, ast.AugAssign)):
            tgt = s.targets[0] if isinstance(s, ast.Assign) else s.target
            if self.v4 and isinstance(s, ast.Assign) and len(s.targets) > 1 and all(isinstance(t, ast.Name) for t in s.targets):
                tmp = "tmp%d__" % self.ntmp       # a = b = e: e once, then the targets left to right
                self.ntmp += 1
                new = [ast.Assign(targets=[ast.Name(id=tmp, ctx=ast.Store())], value=s.value)]
                new += [ast.Assign(targets=[t], value=ast.Name(id=tmp, ctx=ast.Load())) for t in s.targets]
                return self.stmts(new + rest, k)
            if isinstance(s, ast.Assign) and len(s.targets) != 1:
                raise Unsupported("multiple assignment")
            if isinstance(s, ast.AugAssign):
                value = ast.BinOp(left=tgt, op=s.op, right=s.value)
            else:
                value = s.value
            if self.v2 and isinstance(s, ast.Assign) and isinstance(tgt, ast.Name) and isinstance(value, ast.Call) \
                    and ast.unparse(value.func) == "np.asarray" and len(value.args) == 1 and not value.keywords \
                    and isinstance(value.args[0], ast.Name) and value.args[0].id == tgt.id \
                    and self.types.get(tgt.id) in ("MT", "LT", "LZ", "MZ"):
                return self.stmts(rest, k)
            if self.v2 and isinstance(s, ast.Assign) and isinstance(tgt, ast.Subscript) and isinstance(tgt.value, ast.Name) \
                    and self.types.get(tgt.value.id) == "MT" and isinstance(tgt.slice, ast.Tuple) and len(tgt.slice.elts) == 2 \
                    and isinstance(tgt.slice.elts[0], ast.Slice) and ast.unparse(tgt.slice.elts[0]) == ":" \
                    and not isinstance(tgt.slice.elts[1], ast.Slice) and isinstance(value, ast.Name) and self.types.get(value.id) == "LT":
                # a[:, j] = v  (v a vector with one entry per row)
                arr, j_ = tgt.value.id, tgt.slice.elts[1]
                if self.ty(j_) != "Z" or self.reads_ok(j_):
                    raise Unsupported("column store %s" % ast.unparse(s))
                return "let ok__ := ok__ && setcol2_ok %s %s %s in\nlet %s := setcol2 %s %s %s in\n%s" % (
                    arr, self.ex(j_), value.id, arr, arr, self.ex(j_), value.id, self.stmts(rest, k))
            if self.v2 and isinstance(value, ast.Call) and self.callee(value) and isinstance(tgt, ast.Subscript):
                tmp = "tmp%d__" % self.ntmp
                self.ntmp += 1
                new = [ast.Assign(targets=[ast.Name(id=tmp, ctx=ast.Store())], value=value),
                       ast.Assign(targets=[tgt], value=ast.Name(id=tmp, ctx=ast.Load()))]
                return self.stmts(new + rest, k)
            if self.v2 and isinstance(value, ast.Call) and self.callee(value):
                return self.call_stmt(tgt, value, rest, k)
            if self.v2 and isinstance(s, ast.Assign) and isinstance(tgt, ast.Name) and self.view(value):
                txt, vt, rexprs, oks = self.view(value)
                if tgt.id in self.params or (tgt.id in self.types and self.types[tgt.id] != vt):
                    raise Unsupported("view target %s" % tgt.id)
                self.types[tgt.id] = vt
                body_txt = "let %s := %s in\n%s" % (tgt.id, txt, self.stmts(rest, k))
                if oks:
                    body_txt = "let ok__ := ok__ && %s in\n%s" % (" && ".join(oks), body_txt)
                return self.guard(rexprs, body_txt)
            if self.v2 and isinstance(tgt, ast.Tuple) and isinstance(value, ast.Tuple) and len(tgt.elts) == len(value.elts) \
                    and not all(isinstance(x, ast.Name) for x in tgt.elts):
                tmps = []
                for v in value.elts:
                    tmps.append("tmp%d__" % self.ntmp)
                    self.ntmp += 1
                new = [ast.Assign(targets=[ast.Name(id=t, ctx=ast.Store())], value=v) for t, v in zip(tmps, value.elts)]
                new += [ast.Assign(targets=[x], value=ast.Name(id=t, ctx=ast.Load())) for t, x in zip(tmps, tgt.elts)]
                return self.stmts(new + rest, k)
            if self.v2 and isinstance(tgt, ast.Tuple) and all(isinstance(x, ast.Name) for x in tgt.elts):
                names = [x.id for x in tgt.elts]
                if self.shape_of(value) and self.types[self.shape_of(value)] in ("MT", "MZ") and len(names) == 2:
                    vals = [self.shape_ex(self.shape_of(value), 0), self.shape_ex(self.shape_of(value), 1)]
                    tys = ["Z", "Z"]
                elif isinstance(value, ast.Tuple) and len(value.elts) == len(names):
                    # parallel assignment = sequential lets when no target is read by a later component
                    for i, v in enumerate(value.elts):
                        if any(isinstance(n, ast.Name) and n.id in names[:i] for n in ast.walk(v)):
                            raise Unsupported("parallel assignment %s" % ast.unparse(s))
                    vals = [self.ex(v) for v in value.elts]
                    tys = [self.ty(v) for v in value.elts]
                else:
                    raise Unsupported("tuple assignment %s" % ast.unparse(s))
                for nme, t in zip(names, tys):
                    if (nme in self.types and self.types[nme] != t) or nme in self.params or len(set(names)) != len(names):
                        raise Unsupported("tuple assignment target %s" % nme)
                for nme, t in zip(names, tys):
                    self.types[nme] = t
                body_txt = self.stmts(rest, k)
                for nme, v in reversed(list(zip(names, vals))):
                    body_txt = "let %s := %s in\n%s" % (nme, v, body_txt)
                return self.guard([value], body_txt)
            if self.v2 and isinstance(s, ast.Assign) and isinstance(tgt, ast.Subscript) and isinstance(tgt.value, ast.Name) \
                    and self.types.get(tgt.value.id) in ("MT", "LT") and self.has_slice(tgt.slice):
                arr = tgt.value.id
                val = self.exT(value, "T")
                dims = tgt.slice.elts if isinstance(tgt.slice, ast.Tuple) else [tgt.slice]
                if len(dims) != (2 if self.types[arr] == "MT" else 1) or self.reads_ok(value):
                    raise Unsupported("slice store %s" % ast.unparse(s))
                sels = [self.dimsel(d) for d in dims]
                oks = [r for d in dims if not isinstance(d, ast.Slice) for r in [self.reads_ok(d)] if r]
                if self.types[arr] == "MT":
                    if not isinstance(dims[0], ast.Slice):
                        oks.append("inb (widx %s (length %s)) %s" % (self.ex(dims[0]), arr, arr))
                    if not isinstance(dims[1], ast.Slice):
                        raise Unsupported("column index with row slice in %s" % ast.unparse(s))
                    txt = "let %s := fill2 %s %s %s %s in\n%s" % (arr, arr, sels[0], sels[1], val, self.stmts(rest, k))
                else:
                    txt = "let %s := fill1 %s %s %s in\n%s" % (arr, arr, sels[0], val, self.stmts(rest, k))
                return "let ok__ := ok__ && %s in\n%s" % (" && ".join(oks), txt) if oks else txt
            if self.v2 and isinstance(tgt, ast.Subscript) and isinstance(tgt.value, ast.Name) \
                    and self.types.get(tgt.value.id) in ("MT", "MZ"):
                arr = tgt.value.id
                self.ty(tgt)
                i_, j_ = self.ex(tgt.slice.elts[0]), self.ex(tgt.slice.elts[1])
                val = self.exT(value, "T" if self.types[arr] == "MT" else "Z")
                oks = [r for r in (self.reads_ok(value), self.reads_ok(tgt.slice)) if r] + ["inb2 %s %s %s" % (i_, j_, arr)]
                return "let ok__ := ok__ && %s in\nlet %s := set2 %s %s %s %s in\n%s" % (
                    " && ".join(oks), arr, arr, i_, j_, val, self.stmts(rest, k))
            if isinstance(tgt, ast.Name):
                t = self.ty(value)
                if self.v2 and self.types.get(tgt.id) == "T" and t == "Z" and self.intlit(value) is not None:
                    t = "T"
                if tgt.id in self.types and self.types[tgt.id] != t:
                    raise Unsupported("variable %s changes type" % tgt.id)
                if tgt.id in self.params and self.types[tgt.id] in ("LT", "LZ", "MT", "MZ"):
                    raise Unsupported("rebinding array parameter %s" % tgt.id)
                if self.v4 and isinstance(t, tuple) and isinstance(value, ast.Tuple) and tgt.id not in self.types:
                    self.types[tgt.id] = t
                    return self.guard([value], "let %s := %s in\n%s" % (tgt.id, self.ex(value), self.stmts(rest, k)))
                if isinstance(t, tuple) or t in ("LT", "PO", "F", "ARGS") or \
                        (t == "MT" and not (self.v2 and self.np_empty2(value) is not None and tgt.id not in self.types)) or \
                        (t == "MZ" and not (self.v4 and self.np_int_alloc(value) is not None and tgt.id not in self.types)) or \
                        (t == "LZ" and not (self.v2 and (self.np_empty_int(value) is not None or self.np_arange(value) is not None
                                                         or (self.v4 and self.np_int_alloc(value) is not None))
                                            and tgt.id not in self.types)):
                    raise Unsupported("assignment of %s" % ast.unparse(value))
                val = self.exT(value, t) if self.v2 else self.ex(value)
                txt_guard = [value]
                self.types[tgt.id] = t
                return self.guard(txt_guard, "let %s := %s in\n%s" % (tgt.id, val, self.stmts(rest, k)))
            if isinstance(tgt, ast.Subscript) and isinstance(tgt.value, ast.Name):
                arr = tgt.value.id
                at = self.ty(tgt.value)
                if self.v2 and at == "LT" and self.ty(tgt.slice) == "Z" and self.intlit(value) is not None:
                    pass
                elif at not in ("LT", "LZ") or self.ty(tgt.slice) != "Z" or self.ty(value) != {"LT": "T", "LZ": "Z"}[at]:
                    raise Unsupported("array store %s" % ast.unparse(s))
                val = self.exT(value, ELT[at]) if self.v2 else self.ex(value)
                idx = self.ex(tgt.slice)
                inner = "let %s := upd_nth %s (Z.to_nat %s) %s in\n%s" % (arr, arr, idx, val, self.stmts(rest, k))
                if self.checked:
                    oks = [r for r in (self.reads_ok(value), self.reads_ok(tgt.slice)) if r] + ["inb %s %s" % (idx, arr)]
                    return "let ok__ := ok__ && %s in\n%s" % (" && ".join(oks), inner)
                return inner
            raise Unsupported("assignment %s" % ast.unparse(s))
        if isinstance(s, ast.If):
            c = self.cond(s.test)
            if self.terminates(s.body):
                txt = "if %s then\n%s\nelse\n%s" % (c, self.stmts(s.body, k), self.stmts(list(s.orelse) + rest, k))
                return self.guard([s.test], txt)
            if s.orelse and self.terminates(s.orelse):
                txt = "if %s then\n%s\nelse\n%s" % (c, self.stmts(list(s.body) + rest, k), self.stmts(s.orelse, k))
                return self.guard([s.test], txt)
            if self.has_exit(s.body) or self.has_exit(s.orelse):
                # some path exits, some falls through: continue with `rest` inside both branches
                pre = dict(self.types)
                a = self.stmts(list(s.body) + rest, k)
                self.types = dict(pre)
                b = self.stmts(list(s.orelse) + rest, k)
                self.types = dict(pre)
                return self.guard([s.test], "if %s then\n%s\nelse\n%s" % (c, a, b))
            mod = self.assigned(list(s.body) + list(s.orelse))
            pre = dict(self.types)
            snap = (len(self.aux), self.nloops, self.nwhile)
            endk = dict(k, end=lambda: self.tuple_of(mod))
            a = self.stmts(s.body, endk)
            types_a = dict(self.types)
            self.types = dict(pre)
            b = self.stmts(s.orelse, endk) if s.orelse else None
            types_b = dict(self.types)
            # a variable first assigned inside a branch is usable afterwards only if it existed before
            # (Kernels4: or if both branches assign it, with the same scalar type)
            new_in_branch = [m for m in mod if m not in pre]
            keep = {m: types_a[m] for m in new_in_branch
                    if self.v4 and s.orelse and types_a.get(m) in ("T", "Z", "B") and types_a.get(m) == types_b.get(m)}
            new_in_branch = [m for m in new_in_branch if m not in keep]
            if keep:
                pre = dict(pre, **keep)
            if new_in_branch:
                # iteration-local temporaries: drop them from the merged tuple
                mod = [m for m in mod if m in pre]
                self.types = dict(pre)
                del self.aux[snap[0]:]
                self.nloops, self.nwhile = snap[1], snap[2]
                endk = dict(k, end=lambda: self.tuple_of(mod) if mod else "tt")
                a = self.stmts(s.body, endk)
                self.types = dict(pre)
                b = self.stmts(s.orelse, endk) if s.orelse else None
            self.types = dict(pre)
            if b is None:
                b = self.tuple_of(mod) if mod else "tt"
            pat = self.pat_of(mod) if mod else "_"
            txt = "let %s := (if %s then\n%s\nelse\n%s) in\n%s" % (pat, c, a, b, self.stmts(rest, k))
            return self.guard([s.test], txt)
        if isinstance(s, (ast.For, ast.While)):
            return self.loop(s, rest, k)
        if isinstance(s, ast.Expr) and isinstance(s.value, ast.Constant):
            return self.stmts(rest, k)
        if self.v2 and isinstance(s, ast.Expr) and self.sort_call(s.value):
            r = self.sort_call(s.value)      # in-place library sort: the extra parameter sort_ : list T -> list T
            return "let %s := %s %s in\n%s" % (r, self.use_amb("sort_"), r, self.stmts(rest, k))
        if self.v2 and isinstance(s, ast.Expr) and isinstance(s.value, ast.Call) and self.callee(s.value):
            return self.call_stmt(None, s.value, rest, k)
        raise Unsupported("statement %s" % type(s).__name__)

    def none_default(self, s):
        """top-level `if p is None: p = np.empty(..) | np.ones(..)` for an array parameter p=None that the kernel
        specification declares as an array: the kernel is translated for the call path where p is supplied"""
        if not (isinstance(s, ast.If) and isinstance(s.test, ast.Compare) and len(s.test.ops) == 1
                and isinstance(s.test.ops[0], ast.Is) and isinstance(s.test.left, ast.Name)
                and isinstance(s.test.comparators[0], ast.Constant) and s.test.comparators[0].value is None):
            return False
        pn = s.test.left.id
        ok_body = (len(s.body) == 1 and isinstance(s.body[0], ast.Assign) and len(s.body[0].targets) == 1
                   and isinstance(s.body[0].targets[0], ast.Name) and s.body[0].targets[0].id == pn
                   and isinstance(s.body[0].value, ast.Call) and ast.unparse(s.body[0].value.func) in ("np.empty", "np.ones"))
        if pn in self.params and self.types[pn] in ("LT", "LZ", "MT") and self.defaults.get(pn) is not None \
                and ast.unparse(self.defaults[pn]) == "None" and not s.orelse and ok_body:
            self.optional_supplied.append(pn)
            return True
        raise Unsupported("test %s" % ast.unparse(s.test))

    def has_slice(self, sl):
        return isinstance(sl, ast.Slice) or (isinstance(sl, ast.Tuple) and any(isinstance(x, ast.Slice) for x in sl.elts))

    def dimsel(self, d, allow_reads=False):
        """one dimension of a slice store: `lo:hi` (either may be omitted, negative = from the end) or an index"""
        if isinstance(d, ast.Slice):
            if d.step is not None:
                raise Unsupported("slice step")
            for b in (d.lower, d.upper):
                if b is not None and (self.ty(b) != "Z" or (self.reads_ok(b) and not allow_reads)):
                    raise Unsupported("slice bound %s" % ast.unparse(b))
            return "(Sl %s %s)" % ("(Bnd 0)" if d.lower is None else "(Bnd %s)" % self.ex(d.lower),
                                   "BndEnd" if d.upper is None else "(Bnd %s)" % self.ex(d.upper))
        if self.ty(d) != "Z":
            raise Unsupported("index %s" % ast.unparse(d))
        return "(Ix %s)" % self.ex(d)

    def bind_args(self, call, info):
        """parameter name -> argument expression (ast), positional + keyword; omitted ones are absent"""
        pn = [p for p, _ in info["params"]]
        if len(call.args) > len(pn) or any(isinstance(a, ast.Starred) for a in call.args):
            raise Unsupported("arguments of %s" % ast.unparse(call))
        m = dict(zip(pn, call.args))
        for kw in call.keywords:
            if kw.arg is None or kw.arg not in pn or kw.arg in m:
                raise Unsupported("keyword argument in %s" % ast.unparse(call))
            m[kw.arg] = kw.value
        return m

    def array_arg(self, a, want):
        """read-only array argument: a variable, or the view a[:-1, :] of a 2-d array"""
        if isinstance(a, ast.Name) and self.types.get(a.id) == want:
            return a.id
        if want == "MT" and isinstance(a, ast.Subscript) and isinstance(a.value, ast.Name) \
                and self.types.get(a.value.id) == "MT" and ast.unparse(a.slice) in ("(:-1, :)", ":-1, :"):
            return "(droplast2 %s)" % a.value.id
        raise Unsupported("array argument %s" % ast.unparse(a))

    def call_stmt(self, tgt, call, rest, k):
        """`f(..)`, `x = f(..)`, `x, y = f(..)` with f a Kernels2 kernel: f returns (value, stored arrays.., ok__)"""
        if not self.checked:
            raise Unsupported("call with effects from an unchecked kernel")
        info = self.callee(call)
        m = self.bind_args(call, info)
        args, read_exprs, outnames = [], [], []
        for pname, ptype in info["params"]:
            if pname not in m and ptype != "PO":
                d = info["defaults"].get(pname)
                if isinstance(d, ast.Name) and d.id in info["modconsts"] and ptype == "T":
                    args.append(self.use_amb(d.id))      # module-level float constant: extra parameter of this kernel
                elif isinstance(d, ast.Constant) and type(d.value) is bool and ptype == "B":
                    args.append("true" if d.value else "false")
                elif isinstance(d, ast.Constant) and type(d.value) is int and ptype == "Z":
                    args.append("%d" % d.value if d.value >= 0 else "(%d)" % d.value)
                else:
                    raise Unsupported("omitted argument %s of %s" % (pname, ast.unparse(call)))
                continue
            if ptype == "ARGS":
                continue
            if ptype == "F":
                if pname in m and isinstance(m[pname], ast.Name) and self.types.get(m[pname].id) == "F":
                    args.append(m[pname].id)
                    continue
                raise Unsupported("function argument of %s" % ast.unparse(call))
            if ptype == "PO":
                if pname not in m and ast.unparse(info["defaults"].get(pname, ast.Constant(value=0))) == "PivOptions()":
                    args += [self.use_amb(c) for c in PO_DEFAULTS]
                elif pname in m and isinstance(m[pname], ast.Name) and self.types.get(m[pname].id) == "PO":
                    args += ["%s_%s" % (m[pname].id, f) for f in PO_FIELDS]
                else:
                    raise Unsupported("PivOptions argument of %s" % ast.unparse(call))
                continue
            a = m[pname]
            if pname in info["outs"]:
                if not (isinstance(a, ast.Name) and self.types.get(a.id) == ptype):
                    raise Unsupported("stored array argument %s" % ast.unparse(a))
                if a.id in outnames or sum(isinstance(n, ast.Name) and n.id == a.id for x in m.values() for n in ast.walk(x)) != 1:
                    raise Unsupported("aliased array argument %s" % a.id)
                outnames.append(a.id)
                args.append(a.id)
            elif ptype in ("LT", "LZ", "MT", "MZ", "LB"):
                args.append(self.array_arg(a, ptype))
            else:
                args.append(self.exT(a, ptype))
                read_exprs.append(a)
        amb = [self.use_amb(x) for x in info["amb"]]
        # value pattern
        rt = info["rtype"]
        if rt is None or tgt is None:
            vpat = [] if rt is None else ["_"]
            if tgt is not None:
                raise Unsupported("value of procedure %s" % ast.unparse(call))
            newtypes = {}
        elif isinstance(rt, tuple):
            if not (isinstance(tgt, ast.Tuple) and len(tgt.elts) == len(rt) and all(isinstance(x, ast.Name) for x in tgt.elts)):
                raise Unsupported("target of %s" % ast.unparse(call))
            vpat = [x.id for x in tgt.elts]
            newtypes = dict(zip(vpat, rt))
        else:
            if not isinstance(tgt, ast.Name):
                raise Unsupported("target of %s" % ast.unparse(call))
            vpat = [tgt.id]
            newtypes = {tgt.id: rt}
        if len(set(vpat + outnames)) != len(vpat + outnames) and "_" not in vpat:
            raise Unsupported("repeated target in %s" % ast.unparse(call))
        for nme, t in newtypes.items():
            if (nme in self.types and self.types[nme] != t) or nme in self.params:
                raise Unsupported("variable %s changes type / rebinding a parameter" % nme)
        self.types.update(newtypes)
        if info.get("raises"):
            if outnames or not self.raises or not vpat:
                raise Unsupported("call of a raising kernel %s" % ast.unparse(call))
            vp = vpat[0] if len(vpat) == 1 else "'(" + ", ".join(vpat) + ")"
            txt = ("let '(r__, okc__) := %s %s in\nlet ok__ := ok__ && okc__ in\nmatch r__ with\n| inl e__ => %s\n| inr v__ =>\n"
                   "let %s := v__ in\n%s\nend") % (info["coq"], " ".join(amb + args), k["ret"]("(inl e__)"), vp, self.stmts(rest, k))
            return self.guard(read_exprs, txt)
        pat = "'(" + ", ".join(vpat + outnames + ["okc__"]) + ")"
        txt = "let %s := %s %s in\nlet ok__ := ok__ && okc__ in\n%s" % (
            pat, info["coq"], " ".join(amb + args), self.stmts(rest, k))
        return self.guard(read_exprs, txt)

    def loop(self, s, rest, k):
        if s.orelse:
            raise Unsupported("loop else")
        idx = self.nloops
        self.nloops += 1
        lname = "%s_loop%d" % (self.cname, idx)
        is_for = isinstance(s, ast.For)
        pre_guard = []
        step = 1
        if is_for:
            if not (isinstance(s.iter, ast.Call) and self.callname(s.iter) == "range" and isinstance(s.target, ast.Name)):
                raise Unsupported("for loop over %s" % ast.unparse(s.iter))
            args = s.iter.args
            pre_guard = list(args)
            if len(args) == 1:
                lo, hi = "0", self.ex(args[0])
            elif len(args) == 2:
                lo, hi = self.ex(args[0]), self.ex(args[1])
            elif self.v2 and len(args) == 3 and self.intlit(args[2]) == -1:
                lo, hi = self.ex(args[0]), self.ex(args[1])     # descending: lo, lo-1, ..., hi+1
                step = -1
            else:
                raise Unsupported("range with step")
            ivar = s.target.id
            if ivar in self.types and self.types[ivar] != "Z":
                raise Unsupported("loop variable type")
            ivar_fresh = ivar not in self.types
            keepvar = None
            if self.v4 and not ivar_fresh:
                keepvar, ivar = ivar, ivar + "__i"     # index binder; the variable itself is carried and set at each pass
            self.types[ivar] = "Z"
            fuel = "(Z.to_nat (%s - %s))" % ((hi, lo) if step == 1 else (lo, hi))
        else:
            if self.nwhile not in self.fuels:
                raise Unsupported("no fuel given for while loop %d" % self.nwhile)
            fuel = "(%s)" % self.fuels[self.nwhile]
            self.nwhile += 1
            ivar = None
        pre = dict(self.types)
        carried = [v for v in self.assigned(s.body) if v != ivar and v in pre]
        if is_for and keepvar and keepvar not in carried:
            carried.insert(0, keepvar)
        has_ret = any(isinstance(n, (ast.Return, ast.Raise)) for st in s.body for n in ast.walk(st))
        known = [v for v in pre if v not in carried and v != ivar]
        used = set(n.id for st in ([s.test] if not is_for else []) + list(s.body) for n in ast.walk(st) if isinstance(n, ast.Name))
        free = [x for v in known if v in used
                for x in (["%s_%s" % (v, f) for f in PO_FIELDS] if pre[v] == "PO" else [v])]
        free = [v for i, v in enumerate(free) if v not in free[:i] and pre.get(v) != "ARGS"]
        ctuple = self.tuple_of(carried) if carried else "tt"
        binders = " ".join("(%s : %s)" % (v, COQTY[pre[v]]) for v in ([ivar] if ivar else []) + carried + free)
        ctype = " * ".join(COQTY[pre[v]] for v in carried) if carried else "unit"
        RT = self.result_type()
        rty = "((%s) + (%s))%%type" % (RT, ctype) if has_ret else "(%s)%%type" % ctype
        wrap_inr = (lambda x: "inr %s" % x) if has_ret else (lambda x: x)
        rec_args = " ".join(([("(%s %s 1)" % (ivar, "+" if step == 1 else "-"))] if ivar else []) + carried + free)
        ambtok = "\x00AMB%d\x00" % idx      # replaced by the ambient parameters used in the body, once known
        self.amb_stack.append(set())

        def cont():
            return "%s fuel' %s%s" % (lname, rec_args, ambtok)
        bodyk = dict(end=cont, cont=cont, brk=lambda: wrap_inr(ctuple), end_proc=None,
                     ret=(lambda e: "inl %s" % self.wrap_result(e)), prop=(lambda r: "inl %s" % r))
        btxt = self.stmts(list(s.body), bodyk)
        if is_for and keepvar:
            btxt = "let %s := %s in\n%s" % (keepvar, ivar, btxt)
        if not is_for:
            self.types = dict(pre)
            btxt = self.guard([s.test], "if %s then\n%s\nelse %s" % (self.cond(s.test), btxt, wrap_inr(ctuple)))
        self.types = dict(pre)   # temporaries of the body go out of scope
        if self.v2 and ivar and ivar_fresh:
            del self.types[ivar]  # the loop variable is not modelled after the loop (a later read is rejected)
        used_amb = self.amb_stack.pop()
        lamb = [a for a in self.amb if a in used_amb]
        btxt = btxt.replace(ambtok, "".join(" " + a for a in lamb))
        binders += "".join(" (%s : %s)" % (a, amb_type(a)) for a in lamb)
        ctx = "{T : Type} `{Num T} " if self.generic else ""
        self.aux.append("Fixpoint %s %s(fuel : nat) %s : %s :=\n  match fuel with\n  | O => %s\n  | S fuel' =>\n%s\n  end." %
                        (lname, ctx, binders, rty, wrap_inr(ctuple), btxt))
        call = "%s %s %s" % (lname, fuel, " ".join(([lo] if ivar else []) + carried + free + lamb))
        after = self.stmts(rest, k)
        pat = self.pat_of(carried) if carried else "_"
        if has_ret:
            txt = "match %s with\n| inl r__ => %s\n| inr %s => %s\nend" % (call, k["prop"]("r__"), pat, after)
        else:
            txt = "let %s := %s in\n%s" % (pat, call, after)
        return self.guard(pre_guard, txt)

    def result_type(self):
        if self.rtype is None:
            base = " * ".join(COQTY[self.types[v]] for v in self.outs) if self.outs else "unit"
        elif self.v2:
            vt = "(string + %s)" % coqty(self.rtype) if self.raises else coqty(self.rtype)
            base = " * ".join([vt] + [COQTY[self.types[v]] for v in self.outs])
        else:
            base = COQTY[self.rtype]
        return "%s * bool" % base if self.checked else base

    def retval(self, e):
        """a normally returned value of a kernel that can raise: the right injection of (exception text + value)"""
        return "(inr %s)" % e if self.raises else e

    def wrap_result(self, e):
        if self.v2 and self.rtype is not None and self.outs:
            e = "(%s, %s)" % (e, ", ".join(self.outs))     # value, then the arrays the kernel stores into
        return "(%s, ok__)" % e if self.checked else e

    def translate(self):
        body = strip_doc(self.fn.body)
        pnames = [a.arg for a in self.fn.args.args]
        if pnames != self.params:
            raise Unsupported("parameters of %s are %s, expected %s" % (self.fn.name, pnames, self.params))
        fa = self.fn.args
        if self.v2 and (fa.vararg or fa.kwarg or fa.kwonlyargs or fa.posonlyargs):
            raise Unsupported("parameter list of %s" % self.fn.name)
        self.defaults = dict(zip(pnames[len(pnames) - len(fa.defaults):], fa.defaults))
        if self.v2:
            allnames = set(x.id for x in ast.walk(self.fn) if isinstance(x, ast.Name)) | set(self.types)
            for nd in ast.walk(self.fn):      # python names that are Gallina keywords get a trailing underscore
                if isinstance(nd, ast.Name) and nd.id in COQ_KEYWORDS:
                    if nd.id + "_" in allnames:
                        raise Unsupported("name clash %s_" % nd.id)
                    nd.id += "_"
            body = [st for st in body if not self.none_default(st)]
        if self.v4:
            self.raises = any(isinstance(nd, ast.Raise) for nd in ast.walk(self.fn)) or \
                any(isinstance(nd, ast.Call) and self.callee(nd) and self.callee(nd).get("raises") for nd in ast.walk(self.fn))
        # procedures return the arrays they store into (in parameter order)
        stored = [v for v in self.assigned(body) if v in self.params and self.types[v] in ("LT", "LZ", "MT", "MZ")]
        self.outs = [p for p in self.params if p in stored]

        def end_proc():
            return self.wrap_result(self.tuple_of(self.outs) if self.outs else "tt")

        def no(what):
            def f(*a):
                raise Unsupported(what + " outside loop")
            return f
        k = dict(end=(end_proc if self.rtype is None else None), end_proc=(end_proc if self.rtype is None else None),
                 brk=no("break"), cont=no("continue"), ret=self.wrap_result, prop=lambda r: r)
        for nme, t in self.unbound:
            self.types[nme] = t
        txt = self.stmts(body, k)
        for nme, t in reversed(self.unbound):    # unbound in Python until first assigned: a default stands for "unbound"
            txt = "let %s := %s in\n%s" % (nme, {"T": "nzero", "Z": "0", "B": "false"}[t], txt)
        if self.checked:
            txt = "let ok__ := true in\n" + txt
        if self.v2:
            binders = " ".join("(%s : %s)" % (p, COQTY[t]) for p, t in self.binders if t != "ARGS")
        else:
            binders = " ".join("(%s : %s)" % (p, COQTY[dict(zip(self.params, [self.types[p] for p in self.params]))[p]]) for p in self.params)
        binders = "".join("(%s : %s) " % (a, amb_type(a)) for a in self.amb) + binders
        ctx = "{T : Type} `{Num T} " if self.generic else ""
        main = "Definition %s %s%s : %s :=\n%s." % (self.cname, ctx, binders, self.result_type(), txt)
        return "\n\n".join(self.aux + [main])


def generate():
    parts = ["(* GENERATED by harness/py2coq.py from the current source of the repository under check -- do not edit. *)",
             "From Coq Require Import ZArith List Bool.", "From QE Require Import Base.Num.",
             "Import ListNotations.", "Open Scope Z_scope.", "", PRELUDE]
    for cname, file, pyname, ptypes, rtype, fuels, checked in KERNELS:
        src = open(os.path.join(REPO, file)).read()
        fn = find_func(ast.parse(src), pyname)
        tr = Tr("gen_" + cname, fn, ptypes, rtype, fuels, checked)
        parts.append("(* ---- %s :: %s%s ---- *)" % (file, pyname, "  [bounds-checked: returns (result, ok__)]" if checked else ""))
        parts.append(tr.translate())
        parts.append("")
        if not checked and rtype is not None:
            CALLABLE[pyname] = ("gen_" + cname, rtype)
    return "\n".join(parts)


def module_consts(tree):
    """module-level NAME = <numeric literal> assignments"""
    out = {}
    for n in tree.body:
        if isinstance(n, ast.Assign) and len(n.targets) == 1 and isinstance(n.targets[0], ast.Name) \
                and isinstance(n.value, ast.Constant) and type(n.value.value) in (int, float):
            out[n.targets[0].id] = n.value.value
        elif isinstance(n, ast.Assign) and len(n.targets) == 1 and isinstance(n.targets[0], ast.Name) \
                and isinstance(n.value, ast.UnaryOp) and isinstance(n.value.op, ast.USub) \
                and isinstance(n.value.operand, ast.Constant) and type(n.value.operand.value) in (int, float):
            out[n.targets[0].id] = -n.value.operand.value
        elif isinstance(n, ast.Assign) and len(n.targets) == 1 and isinstance(n.targets[0], ast.Name) \
                and isinstance(n.value, ast.Constant) and type(n.value.value) is str:
            out[n.targets[0].id] = n.value.value
    return out


def resolve_imports(file, tree, depth=0):
    """name -> file defining it, for `from .mod import f` / `from ..pkg import f` (followed through pkg/__init__.py)"""
    out = {}
    for n in tree.body:
        if isinstance(n, ast.ImportFrom) and n.level >= 1 and n.module:
            base = os.path.dirname(file)
            for _ in range(n.level - 1):
                base = os.path.dirname(base)
            target = os.path.join(base, *n.module.split("."))
            for a in n.names:
                if os.path.isfile(os.path.join(REPO, target + ".py")):
                    out[a.asname or a.name] = target + ".py"
                elif os.path.isfile(os.path.join(REPO, target, "__init__.py")) and depth < 3:
                    init = os.path.join(target, "__init__.py")
                    sub = resolve_imports(init, ast.parse(open(os.path.join(REPO, init)).read()), depth + 1)
                    if a.name in sub:
                        out[a.asname or a.name] = sub[a.name]
    return out


def generate2():
    return generate_v2(KERNELS2, "Base.Num Gen.Kernels", PRELUDE2)


def generate3():
    # kernels of Kernels.v that Kernels3 kernels may call (bounds-checked ones return (value, ok__) like a v2 kernel without stored arrays)
    for cname, file, pyname, ptypes, rtype, fuels, checked in KERNELS:
        if checked and rtype is not None:
            CALL2[(file, pyname)] = dict(coq="gen_" + cname, params=ptypes, rtype=rtype, outs=[], amb=[], defaults={}, modconsts={})
    return generate_v2(KERNELS3, "Base.Num Gen.Kernels Gen.Kernels2", PRELUDE3)


def generate4():
    return generate_v2(KERNELS4, "Base.Num Gen.Kernels Gen.Kernels2 Gen.Kernels3", PRELUDE4, v4=True)


RESULTS_DEF = "def _results(r):\n    x, funcalls, iterations, flag = r\n    return results(x, funcalls, iterations, flag == 0)"


def generate_v2(kernels, qe_imports, prelude, v4=False):
    parts = ["(* GENERATED by harness/py2coq.py from the current source of the repository under check -- do not edit. *)",
             "From Coq Require Import ZArith List Bool%s." % (" String" if v4 else ""), "From QE Require Import %s." % qe_imports,
             "Import ListNotations.", "Open Scope Z_scope.", "", prelude]
    for spec in kernels:
        src = open(os.path.join(REPO, spec["file"])).read()
        tree = ast.parse(src)
        fn = find_func(tree, spec["py"])
        rtype = spec["rtype"]
        if any(t == "PO" for _, t in spec["params"]):
            ptree = ast.parse(open(os.path.join(REPO, LPS)).read())
            if spec["file"] != LPS and not any(isinstance(n, ast.ImportFrom) and n.level == 1 and n.module == "linprog_simplex"
                                               and any(a.name == "PivOptions" and a.asname is None for a in n.names) for n in tree.body):
                raise Unsupported("PivOptions is not imported from linprog_simplex")
            flds = [n for n in ptree.body if isinstance(n, ast.Assign) and ast.unparse(n.targets[0]) == "PivOptions"]
            dfl = [n for n in ptree.body if isinstance(n, ast.Assign) and ast.unparse(n.targets[0]) == "PivOptions.__new__.__defaults__"]
            if len(flds) != 1 or ast.unparse(flds[0].value) != "namedtuple('PivOptions', %r)" % (PO_FIELDS,) \
                    or len(dfl) != 1 or ast.unparse(dfl[0].value) != "(%s)" % ", ".join(PO_DEFAULTS):
                raise Unsupported("definition of PivOptions changed")
        if spec.get("result_nt"):
            nts = [n for n in tree.body if isinstance(n, ast.Assign) and ast.unparse(n.targets[0]) == spec["result_nt"]]
            if len(nts) != 1 or not ast.unparse(nts[0].value).startswith("namedtuple('%s', ['z', 'success', 'status', 'num_iter'])" % spec["result_nt"]):
                raise Unsupported("definition of %s changed" % spec["result_nt"])
        imports = resolve_imports(spec["file"], tree)
        tr = Tr("gen_" + spec["cname"], fn, spec["params"], rtype, spec["fuels"], True, v2=True,
                modconsts=module_consts(tree), file=spec["file"], imports=imports, result_nt=spec.get("result_nt"),
                v4=v4, unbound=spec.get("unbound"))
        rdef = [n for n in tree.body if isinstance(n, ast.FunctionDef) and n.name == "_results"]
        tr.results_ok = len(rdef) == 1 and ast.unparse(ast.FunctionDef(name=rdef[0].name, args=rdef[0].args, body=strip_doc(rdef[0].body),
                                                                       decorator_list=[], lineno=0)) == RESULTS_DEF
        text = tr.translate()
        sig = "returns (%s, ok__)" % ", ".join((["value"] if rtype is not None else []) + tr.outs)
        parts.append("(* ---- %s :: %s  [bounds-checked: %s]%s%s ---- *)" % (
            spec["file"], spec["py"], sig, ("  extra parameters: " + " ".join(tr.amb)) if tr.amb else "",
            ("  optional arrays taken as supplied: " + " ".join(tr.optional_supplied)) if tr.optional_supplied else ""))
        parts.append(text)
        parts.append("")
        CALL2[(spec["file"], spec["py"])] = dict(coq="gen_" + spec["cname"], params=spec["params"], rtype=rtype, outs=list(tr.outs),
                                 amb=list(tr.amb), defaults=tr.defaults, modconsts=tr.modconsts, raises=tr.raises)
    return "\n".join(parts)


def write_atomic(path, text):
    old = open(path).read() if os.path.exists(path) else None
    if old != text:
        tmp = path + ".tmp%d" % os.getpid()
        with open(tmp, "w") as f:
            f.write(text)
        os.replace(tmp, path)   # atomic: concurrent checks never see a half-written file


def main():
    rcs = 0
    for gen, path in ((generate, OUT), (generate2, OUT2), (generate3, OUT3), (generate4, OUT4)):
        if gen is generate:
            CALLABLE.clear()
        if gen is generate2:
            CALL2.clear()
        try:
            text = gen()
            rc = 0
        except (Unsupported, OSError, SyntaxError, KeyError) as e:
            # fail closed: the generated file then contains a definition that cannot typecheck
            text = ("(* GENERATED by harness/py2coq.py -- TRANSLATION FAILED: %s *)\n"
                    "Definition translation_failed : True := I I.\n" % (repr(e).replace("*)", "* )"),))
            rc = 2
        write_atomic(path, text)
        if rc:
            print("py2coq: FAILED (wrote a non-compiling %s): %s" % (os.path.basename(path), text.splitlines()[0]))
        rcs = rcs or rc
    return rcs


if __name__ == "__main__":
    sys.exit(main())

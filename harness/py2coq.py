#!/venv/bin/python
"""Kernel translator: regenerates coq/Gen/Kernels.v from the *current* source of a
few leaf Numba kernels in /repo (python ast -> Gallina). Together with the tie
lemmas in coq/Cxx/Tie.v (generated kernel = hand-written model, for all inputs)
this re-checks the theorems against what the code says now: an edit of one of
these kernels changes the generated definition and the tie lemma stops checking.

Supported subset (fail-closed: anything else raises):
  scalars of type int (-> Z), one element type T with a `Num T` instance for
  array elements / float scalars, read-only 1-d arrays (-> list),
  statements: assignment, augmented assignment, if/elif/else, `for v in range(..)`,
  `while`, `return`, `break`, `continue`, calls to other translated kernels,
  expressions: + - * // %, comparisons, and/or/not, min/max, len(a), a[i],
  np.iinfo(np.intp).max.
Loops become Fixpoints on an explicit fuel argument: for-loops get their own trip
count; while-loops get the fuel expression given in KERNELS (its adequacy is part
of the tie lemma). A loop function returns `inl r` when the body executed
`return r` and `inr (carried variables)` when the loop ended normally.
"""
import ast, os, sys

REPO = os.environ.get("VERIF_REPO", "/repo")
OUT = os.path.join(os.path.dirname(os.path.abspath(__file__)), "..", "coq", "Gen", "Kernels.v")

# name -> (file, python function, parameter types, return type, {while-loop ordinal: fuel expr in Coq})
#   types: 'Z' int scalar, 'T' element scalar, 'LT' list of elements, 'LZ' list of ints
KERNELS = [
    ("comb_jit", "quantecon/util/numba.py", "comb_jit", [("N", "Z"), ("k", "Z")], "Z", {}),
    ("searchsorted", "quantecon/util/array.py", "searchsorted", [("a", "LT"), ("v", "T")], "Z",
     {0: "S (length a)"}),
    ("cartesian_index", "quantecon/_gridtools.py", "_cartesian_index", [("indices", "LZ"), ("nums_grids", "LZ")], "Z", {}),
    ("k_array_rank_jit", "quantecon/util/combinatorics.py", "k_array_rank_jit", [("a", "LZ")], "Z", {}),
    ("generate_a_indptr_reads", None, None, None, None, None),  # placeholder slot (not generated)
]
KERNELS = [k for k in KERNELS if k[1] is not None]
CALLABLE = {"comb_jit": ("comb_jit", "Z")}


class Unsupported(Exception):
    pass


def find_func(tree, name):
    for n in tree.body:
        if isinstance(n, ast.FunctionDef) and n.name == name:
            return n
    raise Unsupported("function %s not found" % name)


def strip_doc(body):
    if body and isinstance(body[0], ast.Expr) and isinstance(body[0].value, ast.Constant) and isinstance(body[0].value.value, str):
        return body[1:]
    return body


class Tr:
    def __init__(self, cname, fn, ptypes, rtype, fuels):
        self.cname, self.fn, self.rtype, self.fuels = cname, fn, rtype, fuels
        self.types = dict(ptypes)
        self.params = [p for p, _ in ptypes]
        self.aux = []          # lifted loop definitions (strings)
        self.nloops = 0
        self.nwhile = 0
        self.generic = any(t in ("T", "LT") for _, t in ptypes)

    # ---------------- expressions
    def ty(self, e):
        if isinstance(e, ast.Name):
            if e.id not in self.types:
                raise Unsupported("unknown variable %s" % e.id)
            return self.types[e.id]
        if isinstance(e, ast.Subscript):
            t = self.ty(e.value)
            return {"LT": "T", "LZ": "Z"}[t]
        if isinstance(e, ast.Constant):
            if isinstance(e.value, bool) or not isinstance(e.value, int):
                raise Unsupported("constant %r" % (e.value,))
            return "Z"
        if isinstance(e, ast.BinOp):
            a, b = self.ty(e.left), self.ty(e.right)
            if a != b:
                raise Unsupported("mixed arithmetic")
            return a
        if isinstance(e, ast.UnaryOp) and isinstance(e.op, ast.USub):
            return self.ty(e.operand)
        if isinstance(e, ast.Call):
            f = self.callname(e)
            if f in ("min", "max"):
                return self.ty(e.args[0])
            if f == "len":
                return "Z"
            if f in CALLABLE:
                return CALLABLE[f][1]
        if isinstance(e, ast.Attribute) and ast.unparse(e) == "np.iinfo(np.intp).max":
            return "Z"
        raise Unsupported("expression %s" % ast.dump(e)[:80])

    def callname(self, e):
        return e.func.id if isinstance(e.func, ast.Name) else ast.unparse(e.func)

    def ex(self, e):
        if isinstance(e, ast.Name):
            self.ty(e)
            return e.id
        if isinstance(e, ast.Constant):
            self.ty(e)
            return "%d" % e.value if e.value >= 0 else "(%d)" % e.value
        if isinstance(e, ast.Attribute) and ast.unparse(e) == "np.iinfo(np.intp).max":
            return "9223372036854775807"
        if isinstance(e, ast.UnaryOp) and isinstance(e.op, ast.USub):
            if self.ty(e.operand) != "Z":
                raise Unsupported("float negation")
            return "(- %s)" % self.ex(e.operand)
        if isinstance(e, ast.Subscript):
            t = self.ty(e.value)
            idx = e.slice
            if self.ty(idx) != "Z":
                raise Unsupported("index type")
            if isinstance(idx, ast.UnaryOp) or (isinstance(idx, ast.Constant) and idx.value < 0):
                raise Unsupported("negative index")
            d = "nzero" if t == "LT" else "0"
            return "(nth (Z.to_nat %s) %s %s)" % (self.ex(idx), self.ex(e.value), d)
        if isinstance(e, ast.BinOp):
            t = self.ty(e)
            a, b = self.ex(e.left), self.ex(e.right)
            if t == "Z":
                op = {ast.Add: "+", ast.Sub: "-", ast.Mult: "*", ast.FloorDiv: "/", ast.Mod: "mod"}.get(type(e.op))
                if op is None:
                    raise Unsupported("int operator %s" % type(e.op).__name__)
                return "(%s %s %s)" % (a, op, b)
            op = {ast.Add: "nadd", ast.Sub: "nsub", ast.Mult: "nmul", ast.Div: "ndiv"}.get(type(e.op))
            if op is None:
                raise Unsupported("element operator")
            return "(%s %s %s)" % (op, a, b)
        if isinstance(e, ast.Call):
            f = self.callname(e)
            if f in ("min", "max") and len(e.args) == 2 and self.ty(e.args[0]) == "Z" and self.ty(e.args[1]) == "Z":
                return "(Z.%s %s %s)" % (f, self.ex(e.args[0]), self.ex(e.args[1]))
            if f == "len" and len(e.args) == 1 and self.ty(e.args[0]) in ("LT", "LZ"):
                return "(Z.of_nat (length %s))" % self.ex(e.args[0])
            if f in CALLABLE:
                return "(%s %s)" % (CALLABLE[f][0], " ".join(self.ex(a) for a in e.args))
        raise Unsupported("expression %s" % ast.unparse(e))

    def cond(self, e):
        if isinstance(e, ast.BoolOp):
            op = "||" if isinstance(e.op, ast.Or) else "&&"
            return "(" + (" %s " % op).join(self.cond(v) for v in e.values) + ")"
        if isinstance(e, ast.UnaryOp) and isinstance(e.op, ast.Not):
            return "(negb %s)" % self.cond(e.operand)
        if isinstance(e, ast.Compare) and len(e.ops) == 1:
            a, b = e.left, e.comparators[0]
            ta, tb = self.ty(a), self.ty(b)
            if ta != tb:
                raise Unsupported("mixed comparison")
            sa, sb = self.ex(a), self.ex(b)
            o = type(e.ops[0])
            if ta == "Z":
                m = {ast.Lt: "(%s <? %s)", ast.LtE: "(%s <=? %s)", ast.Gt: "(%s >? %s)", ast.GtE: "(%s >=? %s)",
                     ast.Eq: "(%s =? %s)", ast.NotEq: "(negb (%s =? %s))"}
                return m[o] % (sa, sb)
            m = {ast.Lt: "(nltb %s %s)", ast.LtE: "(nleb %s %s)", ast.Gt: "(nltb %s %s)", ast.GtE: "(nleb %s %s)",
                 ast.Eq: "(neqb %s %s)"}
            if o in (ast.Gt, ast.GtE):
                sa, sb = sb, sa
            return m[o] % (sa, sb)
        raise Unsupported("condition %s" % ast.unparse(e))

    # ---------------- statements
    def assigned(self, stmts):
        out = []
        for s in stmts:
            for n in ast.walk(s):
                if isinstance(n, (ast.Assign, ast.AugAssign)):
                    tgts = n.targets if isinstance(n, ast.Assign) else [n.target]
                    for t in tgts:
                        if not isinstance(t, ast.Name):
                            raise Unsupported("assignment target %s" % ast.unparse(t))
                        if t.id not in out:
                            out.append(t.id)
                if isinstance(n, ast.For) and isinstance(n.target, ast.Name) and n.target.id not in out:
                    out.append(n.target.id)
        return out

    def terminates(self, stmts):
        """every path through stmts ends in return/break/continue"""
        if not stmts:
            return False
        s = stmts[-1]
        if isinstance(s, (ast.Return, ast.Break, ast.Continue)):
            return True
        if isinstance(s, ast.If):
            return self.terminates(s.body) and self.terminates(s.orelse)
        return False

    def has_exit(self, stmts):
        return any(isinstance(n, (ast.Return, ast.Break, ast.Continue)) for s in stmts for n in ast.walk(s))

    def tuple_of(self, names):
        return names[0] if len(names) == 1 else "(" + ", ".join(names) + ")"

    def pat_of(self, names):
        return names[0] if len(names) == 1 else "'(" + ", ".join(names) + ")"

    def stmts(self, body, k):
        """k = dict(end=..., brk=..., cont=..., ret=fmt) continuation strings"""
        if not body:
            if k["end"] is None:
                raise Unsupported("control reaches end of function without return")
            return k["end"]()
        s, rest = body[0], body[1:]
        if isinstance(s, ast.Return):
            return k["ret"](self.ex(s.value))
        if isinstance(s, ast.Break):
            return k["brk"]()
        if isinstance(s, ast.Continue):
            return k["cont"]()
        if isinstance(s, ast.Assign):
            if len(s.targets) != 1 or not isinstance(s.targets[0], ast.Name):
                raise Unsupported("assignment %s" % ast.unparse(s))
            name = s.targets[0].id
            t = self.ty(s.value)
            if name in self.types and self.types[name] != t:
                raise Unsupported("variable %s changes type" % name)
            val = self.ex(s.value)
            self.types[name] = t
            return "let %s := %s in\n%s" % (name, val, self.stmts(rest, k))
        if isinstance(s, ast.AugAssign):
            if not isinstance(s.target, ast.Name):
                raise Unsupported("augmented assignment to %s" % ast.unparse(s.target))
            fake = ast.BinOp(left=ast.Name(id=s.target.id, ctx=ast.Load()), op=s.op, right=s.value)
            val = self.ex(fake)
            return "let %s := %s in\n%s" % (s.target.id, val, self.stmts(rest, k))
        if isinstance(s, ast.If):
            c = self.cond(s.test)
            if self.terminates(s.body):
                return "if %s then\n%s\nelse\n%s" % (c, self.stmts(s.body, k), self.stmts(list(s.orelse) + rest, k))
            if s.orelse and self.terminates(s.orelse):
                return "if %s then\n%s\nelse\n%s" % (c, self.stmts(list(s.body) + rest, k), self.stmts(s.orelse, k))
            if self.has_exit(s.body) or self.has_exit(s.orelse):
                raise Unsupported("partial exit inside if")
            mod = self.assigned(list(s.body) + list(s.orelse))
            for m in mod:
                if m not in self.types:
                    raise Unsupported("variable %s first assigned inside a branch" % m)
            endk = dict(k, end=lambda: self.tuple_of(mod))
            a = self.stmts(s.body, endk)
            b = self.stmts(s.orelse, endk) if s.orelse else self.tuple_of(mod)
            return "let %s := (if %s then\n%s\nelse\n%s) in\n%s" % (self.pat_of(mod), c, a, b, self.stmts(rest, k))
        if isinstance(s, (ast.For, ast.While)):
            return self.loop(s, rest, k)
        if isinstance(s, ast.Expr) and isinstance(s.value, ast.Constant):
            return self.stmts(rest, k)
        raise Unsupported("statement %s" % type(s).__name__)

    def loop(self, s, rest, k):
        if s.orelse:
            raise Unsupported("loop else")
        idx = self.nloops
        self.nloops += 1
        lname = "%s_loop%d" % (self.cname, idx)
        is_for = isinstance(s, ast.For)
        if is_for:
            if not (isinstance(s.iter, ast.Call) and self.callname(s.iter) == "range" and isinstance(s.target, ast.Name)):
                raise Unsupported("for loop over %s" % ast.unparse(s.iter))
            args = s.iter.args
            if len(args) == 1:
                lo, hi = "0", self.ex(args[0])
            elif len(args) == 2:
                lo, hi = self.ex(args[0]), self.ex(args[1])
            else:
                raise Unsupported("range with step")
            ivar = s.target.id
            self.types[ivar] = "Z"
            fuel = "(Z.to_nat (%s - %s))" % (hi, lo)
        else:
            if self.nwhile not in self.fuels:
                raise Unsupported("no fuel given for while loop %d" % self.nwhile)
            fuel = "(%s)" % self.fuels[self.nwhile]
            self.nwhile += 1
            ivar = None
        # carried = variables assigned in the body that exist before the loop; variables first
        # assigned inside the body are iteration-local temporaries (a use after the loop fails closed)
        carried = [v for v in self.assigned(s.body) if v != ivar and v in self.types]
        local_tmp = [v for v in self.assigned(s.body) if v != ivar and v not in self.types]
        has_ret = any(isinstance(n, ast.Return) for st in s.body for n in ast.walk(st))
        # free variables of the loop: every typed variable known so far (simple and robust)
        known = [v for v in self.types if v not in carried and v != ivar]
        free = [v for v in known if any(isinstance(n, ast.Name) and n.id == v for st in ([s.test] if not is_for else []) + list(s.body) for n in ast.walk(st))]
        ctuple = self.tuple_of(carried) if carried else "tt"

        def tyof(v):
            return {"Z": "Z", "T": "T", "LT": "list T", "LZ": "list Z"}[self.types[v]]
        binders = " ".join("(%s : %s)" % (v, tyof(v)) for v in ([ivar] if ivar else []) + carried + free)
        ctype = " * ".join(tyof(v) for v in carried) if carried else "unit"
        rty = "(Z + (%s))%%type" % ctype if has_ret else "(%s)%%type" % ctype
        wrap_inr = (lambda x: "inr %s" % x) if has_ret else (lambda x: x)
        rec_args = " ".join(([("(%s + 1)" % ivar)] if ivar else []) + carried + free)

        def cont():
            return "%s fuel' %s" % (lname, rec_args)
        bodyk = dict(end=cont, cont=cont, brk=lambda: wrap_inr(ctuple),
                     ret=(lambda e: "inl %s" % e))
        saved_types = dict(self.types)
        btxt = self.stmts(list(s.body), bodyk)
        if not is_for:
            btxt = "if %s then\n%s\nelse %s" % (self.cond(s.test), btxt, wrap_inr(ctuple))
        self.types = dict(saved_types)   # temporaries of the body go out of scope
        ctx = "{T : Type} `{Num T} " if self.generic else ""
        self.aux.append("Fixpoint %s %s(fuel : nat) %s : %s :=\n  match fuel with\n  | O => %s\n  | S fuel' =>\n%s\n  end." %
                        (lname, ctx, binders, rty, wrap_inr(ctuple), btxt))
        call = "%s %s %s" % (lname, fuel, " ".join(([lo] if ivar else []) + carried + free))
        after = self.stmts(rest, k)
        pat = self.pat_of(carried) if carried else "_"
        if has_ret:
            return "match %s with\n| inl r__ => %s\n| inr %s => %s\nend" % (call, k["ret"]("r__"), pat if carried else "_", after)
        return "let %s := %s in\n%s" % (pat, call, after)

    def translate(self):
        body = strip_doc(self.fn.body)
        pnames = [a.arg for a in self.fn.args.args]
        if pnames != self.params:
            raise Unsupported("parameters of %s are %s, expected %s" % (self.fn.name, pnames, self.params))
        k = dict(end=None, brk=lambda: (_ for _ in ()).throw(Unsupported("break outside loop")),
                 cont=lambda: (_ for _ in ()).throw(Unsupported("continue outside loop")), ret=lambda e: e)
        txt = self.stmts(body, k)

        def tyof(t):
            return {"Z": "Z", "T": "T", "LT": "list T", "LZ": "list Z"}[t]
        ptypes = dict((p, self.types[p]) for p in self.params)
        binders = " ".join("(%s : %s)" % (p, tyof(ptypes[p])) for p in self.params)
        ctx = "{T : Type} `{Num T} " if self.generic else ""
        main = "Definition %s %s%s : %s :=\n%s." % (self.cname, ctx, binders, tyof(self.rtype), txt)
        return "\n\n".join(self.aux + [main])


def generate():
    parts = ["(* GENERATED by harness/py2coq.py from the current source in %s -- do not edit. *)" % REPO,
             "From Coq Require Import ZArith List Bool.", "From QE Require Import Base.Num.",
             "Import ListNotations.", "Open Scope Z_scope.", ""]
    for cname, file, pyname, ptypes, rtype, fuels in KERNELS:
        src = open(os.path.join(REPO, file)).read()
        fn = find_func(ast.parse(src), pyname)
        tr = Tr("gen_" + cname, fn, ptypes, rtype, fuels)
        # calls to previously generated kernels resolve to their generated names
        parts.append("(* ---- %s :: %s ---- *)" % (file, pyname))
        parts.append(tr.translate())
        parts.append("")
        CALLABLE[pyname] = ("gen_" + cname, rtype)
        if cname == pyname:
            CALLABLE[cname] = ("gen_" + cname, rtype)
    return "\n".join(parts)


def main():
    try:
        text = generate()
    except (Unsupported, OSError, SyntaxError, KeyError) as e:
        # fail closed: the generated file then contains a definition that cannot typecheck
        text = ("(* GENERATED by harness/py2coq.py -- TRANSLATION FAILED: %s *)\n"
                "Definition translation_failed : True := I I.\n" % (repr(e).replace("*)", "* )"),))
        rc = 2
    else:
        rc = 0
    old = open(OUT).read() if os.path.exists(OUT) else None
    if old != text:
        with open(OUT, "w") as f:
            f.write(text)
    if rc:
        print("py2coq: FAILED (wrote a non-compiling Kernels.v)")
    return rc


if __name__ == "__main__":
    sys.exit(main())

"""C10: simulated paths stay in the state space and follow the transition law.

Correspondence is BIT-EXACT on the float instance of coq/C10/Model.v: transition matrices and the
uniform numbers are passed to Coq as hex floats; the uniforms are injected into the real code through
a numpy.random.RandomState subclass (ScriptedRS).  Every simulate_indices/simulate/mc_sample_path case
is additionally executed in a second interpreter under NUMBA_BOUNDSCHECK=1, where an out-of-bounds read
of a jitted kernel is an IndexError.  Independent oracle: exact Fraction arithmetic."""
import sys, os, json, math, subprocess, tempfile, itertools
import numpy as np
from common import *

IMPORTS = "From QE Require Import C10.Model."
PREAMBLE = """
Definition res_eqb {A} (eqb : A -> A -> bool) (a b : res A) : bool :=
  match a, b with
  | Ok x, Ok y => eqb x y | OOB, OOB => true | ValueErr, ValueErr => true | _, _ => false end.
Definition pr_eqb (a b : bool * list (list Z)) : bool := Bool.eqb (fst a) (fst b) && Zss_eqb (snd a) (snd b).
"""
FINISH = dict(level="proof", technique_note=(
    "Coq theorems (coq/C10/Props.v) about the executable model coq/C10/Model.v (generic over Num; float instance "
    "compared bit-exactly with the jitted kernels through a scripted RandomState, every case also under "
    "NUMBA_BOUNDSCHECK=1 in a second interpreter); independent exact-Fraction oracle (range, start, positive "
    "probability, inverse-CDF bracket, shape, equal seeds). non-trivial = distinct input with at least one "
    "transition on a chain with >= 2 states (draws: >= 2 outcomes)"))

ONE_M = 1.0 - 2.0 ** -53
TOL = Fraction(1, 10 ** 12)       # slack of the exact inverse-CDF bracket test (float cumsum vs exact sums)


# ------------------------------------------------------------------ scripted / recording random states
class ScriptedRS(np.random.RandomState):
    """Returns the scripted uniforms / integers instead of drawing; shape errors as numpy raises them."""

    def __init__(self, uniforms=(), ints=()):
        super().__init__(0)
        self.u = [float(x) for x in uniforms]
        self.iu = 0
        self.ints = [int(x) for x in ints]
        self.ii = 0
        self.calls = []

    def _take(self, size, kind):
        if size is None:
            if self.iu + 1 > len(self.u):
                raise AssertionError("scripted uniform stream exhausted")
            v = self.u[self.iu]
            self.iu += 1
            self.calls.append((kind, None))
            return v
        out = np.empty(size, dtype=float)        # raises ValueError on negative dimensions, like numpy
        m = out.size
        if self.iu + m > len(self.u):
            raise AssertionError("scripted uniform stream exhausted")
        out.ravel()[:] = self.u[self.iu:self.iu + m]
        self.iu += m
        self.calls.append((kind, out.shape))
        return out

    def random(self, size=None):
        return self._take(size, "random")

    def random_sample(self, size=None):
        return self._take(size, "random_sample")

    def uniform(self, low=0.0, high=1.0, size=None):
        r = self._take(size, "uniform")
        return low + (high - low) * r

    def randint(self, low, high=None, size=None, dtype=int):
        if size is None:
            v = self.ints[self.ii]
            self.ii += 1
            return v
        out = np.empty(size, dtype=np.int64)
        m = out.size
        if self.ii + m > len(self.ints):
            raise AssertionError("scripted integer stream exhausted")
        out.ravel()[:] = self.ints[self.ii:self.ii + m]
        self.ii += m
        self.calls.append(("randint", out.shape))
        return out


class RecordingRS(np.random.RandomState):
    """A genuine seeded RandomState that records what it hands out."""

    def __init__(self, seed):
        super().__init__(seed)
        self.rec_u = []
        self.rec_i = []

    def random(self, size=None):
        r = super().random_sample(size)
        self.rec_u += np.asarray(r, dtype=float).ravel().tolist()
        return r

    random_sample = random

    def uniform(self, low=0.0, high=1.0, size=None):
        r = super().uniform(low, high, size)
        self.rec_u += np.asarray(r, dtype=float).ravel().tolist()
        return r

    def randint(self, low, high=None, size=None, dtype=int):
        r = super().randint(low, high, size, dtype)
        self.rec_i += np.asarray(r).ravel().tolist()
        return r


# ------------------------------------------------------------------ running one case on the implementation
def hx(a):
    return [float(x).hex() for x in a]


def unhx(a):
    return [float.fromhex(x) for x in a]


_CHAINS = {}


def build_chain(case):
    """one MarkovChain object per case["obj"]: the calls of a group reuse it (cdfs are cached lazily in the object)"""
    key = case.get("obj")
    if key is not None and case.get("sv") is not None:
        key = key + ":sv"
    if key is not None and key in _CHAINS:
        mc = _CHAINS[key]
        if case.get("sv") is not None:
            mc.state_values = np.array(case["sv"], dtype=np.int64)     # re-assigned on the reused object (setter)
        return mc
    mc = _build_chain(case)
    if case.get("sv") is not None:
        mc.state_values = np.array(case["sv"], dtype=np.int64)
    if key is not None:
        _CHAINS[key] = mc
    return mc


def _build_chain(case):
    import scipy.sparse as sp
    from quantecon.markov.core import MarkovChain
    if case.get("csr") is not None:
        c = case["csr"]
        n = c["n"]
        A = sp.csr_matrix((np.array(unhx(c["data"]), dtype=float), np.array(c["indices"], dtype=np.int32),
                           np.array(c["indptr"], dtype=np.int32)), shape=(n, n))
        return MarkovChain(A)
    P = np.array([unhx(r) for r in case["P"]], dtype=float)
    if case["sparse"]:
        return MarkovChain(sp.csr_matrix(P))
    return MarkovChain(P)


DRESSES = ("int", "int64", "int32", "intp", "uint8")


def dress_scalar(v, dress):
    """the same integer as a Python int or as a NumPy integer scalar (as taken from an array / argmax)"""
    v = int(v)
    if dress == "uint8" and not (0 <= v < 256):
        dress = "int64"
    return {"int": int, "int64": np.int64, "int32": np.int32, "intp": np.intp, "uint8": np.uint8}[dress](v)


def make_init(case):
    init, form = case["init"], case.get("init_form", "int")
    dress = case.get("dress", "int")
    if init is None:
        return None
    if form == "int":
        return dress_scalar(init, dress)
    if form == "npint":
        return dress_scalar(init, dress if dress != "int" else "int64")
    if form == "list":
        return [dress_scalar(i, dress) for i in init]
    if form == "tuple":
        return tuple(dress_scalar(i, dress) for i in init)
    if form == "array":
        dt = {"int": np.int64, "int64": np.int64, "int32": np.int32, "intp": np.intp, "uint8": np.uint8}[dress]
        if dress == "uint8" and any(not (0 <= int(i) < 256) for i in init):
            dt = np.int64
        return np.array(init, dtype=dt)
    if form == "dist":
        return unhx(init)
    raise AssertionError(form)


def run_case(case):
    """-> ["ok", dim2, rows, consumed_uniforms] | ["ValueError", msg] | ["IndexError", msg] | ["Other", repr]"""
    try:
        # padded: a call that draws more uniforms than documented must show up as a wrong count / wrong path, not as a crash
        rs = ScriptedRS(unhx(case["stream"]) + [0.5] * 16, list(case.get("ints", ())) + [0] * 4)
        if case["kind"] == "mcsp":
            from quantecon.markov.core import mc_sample_path
            if case.get("csr") is not None or case["sparse"]:
                P = build_chain(case).P
            else:
                P = np.array([unhx(r) for r in case["P"]], dtype=float)
            X = mc_sample_path(P, init=make_init(case), sample_size=case["ts"], random_state=rs)
        else:
            mc = build_chain(case)
            f = mc.simulate_indices if case["kind"] == "sim_idx" else mc.simulate
            X = f(case["ts"], init=make_init(case), num_reps=case["num_reps"], random_state=rs)
        X = np.asarray(X)
        if X.ndim == 1:
            return ["ok", False, [[int(v) for v in X]], rs.iu]
        return ["ok", True, [[int(v) for v in r] for r in X], rs.iu]
    except ValueError as e:
        return ["ValueError", str(e)[:100]]
    except IndexError as e:
        return ["IndexError", str(e)[:100]]
    except Exception as e:
        return ["Other", repr(e)[:200]]


def worker(path_in, path_out):
    cases = json.load(open(path_in))
    out = []
    for c in cases:
        try:
            out.append(run_case(c))
        except Exception as e:
            out.append(["Other", repr(e)[:200]])
    json.dump(out, open(path_out, "w"))


# ------------------------------------------------------------------ generators
def cumsum_f(row):
    out, s = [], None
    for x in row:
        s = x if s is None else s + x
        out.append(s)
    return out


def ref_next(cdf, u):
    """generator guidance only: linear-scan inverse CDF in floats"""
    v = u * cdf[-1]
    for j, c in enumerate(cdf):
        if v < c:
            return j
    return len(cdf) - 1


def pick_u(rng, cdf):
    r = rng.random()
    if r < 0.4:
        return rng.random()
    c = cdf[-1]
    b = rng.choice(cdf)
    cand = [0.0, ONE_M, 1.0 - 2.0 ** -52, 5e-324, 2.0 ** -53, b, math.nextafter(b, 0.0), math.nextafter(b, 2.0)]
    if c > 0:
        q = b / c
        cand += [q, math.nextafter(q, 0.0), math.nextafter(q, 2.0)]
    if r < 0.55:
        cand = [0.0, ONE_M]
    u = rng.choice(cand)
    if not (0.0 <= u < 1.0):
        u = ONE_M
    return u


def composition(rng, total, parts):
    cuts = sorted(rng.randrange(0, total + 1) for _ in range(parts - 1))
    return [b - a for a, b in zip([0] + cuts, cuts + [total])]


def gen_row(rng, n, kind):
    if kind == "uniform":
        return [1.0 / n] * n
    if kind == "dyadic":
        w = composition(rng, 64, n)
        return [x / 64.0 for x in w]
    if kind == "ratio":
        while True:
            w = [rng.choice([0, 0, 1, 1, 2, 3, 5, 7]) for _ in range(n)]
            if sum(w) > 0:
                break
        t = sum(w)
        return [x / t for x in w]
    if kind == "trailing0":
        z = rng.randrange(1, n) if n > 1 else 0
        w = [rng.randrange(1, 6) for _ in range(n - z)]
        t = sum(w)
        return [x / t for x in w] + [0.0] * z
    if kind == "scaled":
        row = gen_row(rng, n, "ratio")
        f = rng.choice([1 + 9e-6, 1 - 9e-6, 1 + 1e-9, 1 - 1e-7])
        return [x * f for x in row]
    if kind == "tiny":
        row = gen_row(rng, n, "ratio")
        j = rng.randrange(n)
        if row[j] == 0.0:
            row[j] = rng.choice([1e-17, 1e-300, 5e-324])
        return row
    if kind == "point":
        row = [0.0] * n
        row[rng.randrange(n)] = 1.0
        return row
    raise AssertionError(kind)


ROW_KINDS = ["uniform", "dyadic", "ratio", "trailing0", "scaled", "tiny", "point"]


def gen_matrix(rng, n=None):
    n = n or rng.choice([1, 2, 2, 3, 3, 4, 5, 6, 7, 9, 10, 10, 12])
    mode = rng.choice(["uniform", "mixed", "mixed", "dyadic", "ratio", "trailing0", "scaled"])
    rows = []
    kinds = set()
    for _ in range(n):
        k = rng.choice(ROW_KINDS) if mode == "mixed" else mode
        kinds.add(k)
        rows.append(gen_row(rng, n, k))
    return rows, mode


def noncanonical_csr(rng, rows):
    """CSR arrays with unsorted column indices, explicit zeros and duplicate entries (split mass)."""
    n = len(rows)
    data, indices, indptr = [], [], [0]
    for r in rows:
        ent = []
        for j, p in enumerate(r):
            if p > 0:
                if rng.random() < 0.3:
                    h = p / 2
                    ent += [(j, h), (j, p - h)]
                else:
                    ent.append((j, p))
            elif rng.random() < 0.4:
                ent.append((j, 0.0))
        rng.shuffle(ent)
        for j, p in ent:
            indices.append(j)
            data.append(p)
        indptr.append(len(data))
    return {"n": n, "data": hx(data), "indices": indices, "indptr": indptr}


def gen_stream(rng, rows_targets, inits, ts):
    """uniforms for the paths started at `inits` (row-major), steered at the breakpoints of the row the
    path currently sits in.  rows_targets[s] = (targets, cdf floats) of state s."""
    n = len(rows_targets)
    stream = []
    for x0 in inits:
        x = x0 % n if n else 0
        for _ in range(max(ts - 1, 0)):
            tg, cdf = rows_targets[x]
            u = pick_u(rng, cdf)
            stream.append(u)
            x = tg[ref_next(cdf, u)]
    return stream


def rows_targets_dense(rows):
    return [(list(range(len(r))), cumsum_f(r)) for r in rows]


def rows_targets_csr(csr):
    data = unhx(csr["data"])
    out = []
    for i in range(csr["n"]):
        a, b = csr["indptr"][i], csr["indptr"][i + 1]
        out.append((csr["indices"][a:b], cumsum_f(data[a:b])))
    return out


# ------------------------------------------------------------------ independent oracle (exact arithmetic)
def stored_rows(case, mc=None):
    """state -> list of (target, exact probability) in the order the kernel accumulates them"""
    if case.get("csr") is not None:
        c = case["csr"]
        data = [Fraction(x) for x in unhx(c["data"])]
        return [[(c["indices"][k], data[k]) for k in range(c["indptr"][i], c["indptr"][i + 1])] for i in range(c["n"])]
    rows = [[Fraction(x) for x in unhx(r)] for r in case["P"]]
    if case["sparse"]:
        return [[(j, p) for j, p in enumerate(r) if p != 0] for r in rows]
    return [list(enumerate(r)) for r in rows]


def check_step_float(row, y, u):
    """the documented rule, recomputed from P itself in binary64 and independently of the Coq model: with
    cdf = np.cumsum(stored probabilities of the current row), the next state is the target stored at the first
    position j with u*cdf[-1] < cdf[j]"""
    tg = [t for t, _ in row]
    cdf = np.cumsum(np.array([float(p) for _, p in row], dtype=float))
    v = float(u) * cdf[-1]
    j = 0
    while j < len(cdf) and not (v < cdf[j]):
        j += 1
    if j >= len(cdf):
        return "scaled uniform not below the last cumulative sum (expected index %d = len)" % j
    if tg[j] != y:
        return "not the inverse-CDF image: searchsorted(cumsum(row), u*cdf[-1]) selects stored position %d -> state %d" % (j, tg[j])
    return None


def check_step(row, y, u):
    """is target y an inverse-CDF image of u for the stored row [(target, prob)]? returns None or a complaint"""
    S = sum(p for _, p in row)
    v = Fraction(u) * S
    acc = Fraction(0)
    hit = False
    pos = False
    for tgt, p in row:
        lo, hi = acc, acc + p
        acc = hi
        if tgt == y and p > 0:
            pos = True
            if lo - TOL <= v < hi + TOL:
                hit = True
    if not pos:
        return "transition of probability zero"
    if not hit:
        return "not the inverse-CDF image of the uniform drawn"
    return None


def oracle_paths(ctx, case, res, rows, kind_override=None):
    """property oracle on an 'ok' result of simulate_indices / simulate / mc_sample_path"""
    n = len(rows)
    dim2, X, consumed = res[1], res[2], res[3]
    stream = unhx(case["stream"])
    ts = case["ts"]
    init, nr = case["init"], case["num_reps"]
    inp = {"function": case["kind"], "sparse": bool(case["sparse"] or case.get("csr")), "P": case.get("P"), "csr": case.get("csr"),
           "ts": ts, "init": init, "init_form": case.get("init_form"), "dress": case.get("dress", "int"), "num_reps": nr, "stream": case["stream"],
           "ints": case.get("ints")}
    if kind_override:
        inp["negative_init"] = True

    def fail(kind, what, inp_, impl, exp):
        ctx.fail(kind_override or kind, what, inp_, impl, exp)
    off = 0
    if case["kind"] == "mcsp":
        exp_dim2 = False
        k = 1
        if case.get("init_form") == "dist":
            off = 1
            exp_inits = None
        else:
            exp_inits = [init]
    else:
        if init is None:
            k = 1 if nr is None else nr
            exp_inits = list(case["ints"][:k])
            exp_dim2 = nr is not None
        elif isinstance(init, int):
            k = 1 if nr is None else nr
            exp_inits = [init] * k
            exp_dim2 = nr is not None
        else:
            exp_inits = list(init) * (1 if nr is None else nr)
            k = len(exp_inits)
            exp_dim2 = True
    if dim2 != exp_dim2 or len(X) != k or any(len(r) != ts for r in X):
        fail("shape", "returned array does not have the documented shape", inp, [dim2, len(X), [len(r) for r in X][:5]], [exp_dim2, k, ts])
        return
    if consumed != off + k * (ts - 1):
        fail("stream_use", "number of uniforms consumed is not k*(ts_length-1)", inp, consumed, off + k * (ts - 1))
    for i, path in enumerate(X):
        us = stream[off + i * (ts - 1): off + (i + 1) * (ts - 1)]
        # the requested initial state; an index in [-n, 0) names state n+index
        if exp_inits is not None and path[0] != exp_inits[i] % n:
            fail("start", "path does not start at the requested initial state", inp, path[:5], exp_inits[i] % n)
            return
        if case["kind"] == "mcsp" and case.get("init_form") == "dist":
            psi = [Fraction(x) for x in unhx(init)]
            why = (check_step(list(enumerate(psi)), path[0], stream[0]) or check_step_float(list(enumerate(psi)), path[0], stream[0])) \
                if 0 <= path[0] < len(psi) else "initial state out of range"
            if why:
                fail("initial_draw", "mc_sample_path initial state: " + why, inp, path[:5], None)
                return
        if not (0 <= path[0] < n):
            fail("range", "initial entry outside the state space", inp, path[:8], None)
            return
        for t in range(ts - 1):
            x, y = path[t], path[t + 1]
            if not (0 <= y < n):
                fail("range", "entry outside the state space", dict(inp, step=t, row=i), path[:t + 3], None)
                return
            why = check_step(rows[x], y, us[t]) or check_step_float(rows[x], y, us[t])
            if why:
                fail("transition", why, dict(inp, step=t, row=i, u=float(us[t]).hex()), [x, y], None)
                return


def drv_expected(q, u):
    """DiscreteRV's documented rule in binary64, independent of the Coq model: Q = cumsum(q); the number of
    entries of Q that are <= u*min(Q[-1], 1)"""
    Q = np.cumsum(np.array(q, dtype=float))
    v = float(u) * min(Q[-1], 1.0)
    return int(sum(1 for c in Q if c <= v))


# ------------------------------------------------------------------ Coq literals
def init_lit(case):
    init = case["init"]
    if init is None:
        return "INone"
    if isinstance(init, int):
        return "(IInt %s)" % zlit(init)
    return "(IArr %s)" % zlist(init)


def chain_lit(case, mc_arrays=None):
    if case.get("csr") is not None or case["sparse"]:
        n, data, indices, indptr = mc_arrays
        return "(Sparse %s %s %s %s)" % (zlit(n), flist(data), zlist(indices), zlist(indptr))
    return "(Dense %s)" % flist2([unhx(r) for r in case["P"]])


def res_lit(res, one_row=False):
    if res[0] == "ok":
        if one_row:
            return "(Ok %s)" % zlist(res[2][0])
        return "(Ok (%s, %s))" % (blit(res[1]), zlist2(res[2]))
    if res[0] == "ValueError":
        return "ValueErr"
    if res[0] == "IndexError":
        return "OOB"
    return "NoFuel"     # never equal to a model outcome: shows up as a mismatch


def optz(x):
    return "None" if x is None else "(Some %s)" % zlit(x)


def csr_arrays(case):
    """the CSR arrays of the input chain (scipy's conversion of P, or the raw arrays given), built afresh from the
    input and not read back from the MarkovChain object the implementation has been using"""
    import scipy.sparse as sp
    if case.get("csr") is not None:
        c = case["csr"]
        return (c["n"], unhx(c["data"]), list(c["indices"]), list(c["indptr"]))
    A = sp.csr_matrix(np.array([unhx(r) for r in case["P"]], dtype=float))
    return (A.shape[0], [float(x) for x in A.data], [int(x) for x in A.indices], [int(x) for x in A.indptr])


# ------------------------------------------------------------------ the check
def make_cases(ctx, thorough):
    rng = ctx.rng
    cases = []
    nmat = 1500 if thorough else 90
    fixed = [([[0.1] * 10 for _ in range(10)], "tenths"), ([[1.0]], "single"), ([[1 / 3.0] * 3 for _ in range(3)], "thirds"),
             ([[0.5, 0.5, 0.0], [0.0, 0.5, 0.5], [0.25, 0.25, 0.5]], "small"),
             ([[1 / 7.0] * 7 for _ in range(7)], "sevenths"), ([[0.0, 1.0], [1.0, 0.0]], "flip")]
    mats = fixed + [gen_matrix(rng) for _ in range(nmat)]
    for rows, mode in mats:
        n = len(rows)
        variants = [("dense", None), ("sparse", None)]
        if rng.random() < 0.5 or mode in ("small", "tenths"):
            variants.append(("csr", noncanonical_csr(rng, rows)))
        for vname, csr in variants:
            base = {"P": [hx(r) for r in rows], "sparse": vname != "dense", "csr": csr, "mode": mode, "variant": vname,
                    "obj": "m%d" % len(cases)}       # the calls below share one MarkovChain object
            rt = rows_targets_csr(csr) if csr else rows_targets_dense(rows)
            if vname == "sparse":
                rt = [([j for j, p in enumerate(r) if p != 0], cumsum_f([p for p in r if p != 0])) for r in rows]
            ncalls = 4 if not thorough else 5
            for _ in range(ncalls):
                kind = rng.choice(["sim_idx", "sim_idx", "sim_idx", "sim", "mcsp"])
                ts = rng.choice([1, 2, 3, 3, 5, 8, 13, 30 if thorough else 20])
                c = dict(base, kind=kind, ts=ts, num_reps=None, ints=[], init_form="int", dress=rng.choice(DRESSES))
                if kind == "mcsp":
                    if rng.random() < 0.5:
                        c["init"] = rng.randrange(n)
                        inits = [c["init"]]
                        pre = []
                    else:
                        psi = gen_row(rng, n, rng.choice(ROW_KINDS))
                        c["init"], c["init_form"] = hx(psi), "dist"
                        cdf0 = cumsum_f(psi)
                        u0 = pick_u(rng, cdf0)
                        inits = [ref_next(cdf0, u0)]
                        pre = [u0]
                    c["stream"] = hx(pre + gen_stream(rng, rt, inits, ts))
                else:
                    form = rng.choice(["none", "none_reps", "int", "int", "npint", "int_reps", "list", "tuple", "array", "list_reps", "empty"])
                    lo = 0 if kind == "sim" else -n      # simulate_indices accepts -n <= init < n
                    if form in ("none", "none_reps"):
                        c["init"] = None
                        k = 1
                        if form == "none_reps":
                            c["num_reps"] = k = rng.choice([0, 1, 2, 3])
                        c["ints"] = [rng.randrange(n) for _ in range(k)]
                        inits = c["ints"]
                    elif form in ("int", "npint", "int_reps"):
                        c["init"] = rng.randrange(lo, n)
                        c["init_form"] = "npint" if form == "npint" else "int"
                        k = 1
                        if form == "int_reps":
                            c["num_reps"] = k = rng.choice([0, 1, 2, 4])
                        inits = [c["init"]] * k
                    else:
                        m = 0 if form == "empty" else rng.choice([1, 2, 3, 5])
                        c["init"] = [rng.randrange(lo, n) for _ in range(m)]
                        c["init_form"] = {"list": "list", "tuple": "tuple", "array": "array", "list_reps": "list", "empty": "list"}[form]
                        r = 1
                        if form == "list_reps":
                            c["num_reps"] = r = rng.choice([0, 1, 2, 3])
                        inits = c["init"] * r
                    c["stream"] = hx(gen_stream(rng, rt, inits, ts))
                    # a sparse chain with a negative init once segfaulted: such cases run only in the bounds-checked interpreter
                    c["bc_only"] = vname != "dense" and any(i < 0 for i in inits)
                    if kind == "sim" and rng.random() < 0.5:
                        # integer state_values (sometimes with a repeated value: get_index takes the first match)
                        sv = [7 * i - 5 for i in range(n)]
                        rng.shuffle(sv)
                        if n >= 3 and rng.random() < 0.3:
                            sv[-1] = sv[0]
                        c["sv"] = sv
                        c["init_idx"] = c["init"]
                        if c["init"] is not None:
                            first = lambda i: sv.index(sv[i])
                            if isinstance(c["init"], int):
                                c["init_idx"], c["init"] = first(c["init"]), sv[c["init"]]
                            else:
                                c["init_idx"], c["init"] = [first(i) for i in c["init"]], [sv[i] for i in c["init"]]
                            # the stream was steered for the original indices; a repeated value restarts from its first index: fine, any stream is legal
                        if rng.random() < 0.15:
                            c["init"], c["init_form"], c["variant"] = 1000, "int", "malformed:sv_missing"
                cases.append(c)
        # malformed stream: init out of range, bad ts / num_reps  (ValueError expected); every kind for a third of the matrices
        if rng.random() < 0.34 or mode in ("small", "tenths", "flip", "single"):
            for bad in ("init_n", "init_n1", "init_lo", "arr_bad_n", "arr_bad_lo", "ts0", "tsneg", "reps_neg", "neg_sim", "sim_n"):
                kind = "sim" if bad in ("neg_sim", "sim_n") else "sim_idx"
                c = dict(P=[hx(r) for r in rows], sparse=rng.random() < 0.5, csr=None, mode=mode, variant="malformed:" + bad,
                         kind=kind, ts=3, num_reps=None, ints=[0, 0, 0], init_form="int", init=0, stream=hx([0.5] * 40))
                if bad == "init_n":
                    c["init"] = n
                elif bad == "init_n1":
                    c["init"] = n + 1
                elif bad == "init_lo":
                    c["init"] = -n - 1
                elif bad == "arr_bad_n":
                    c["init"], c["init_form"] = [0, n, 0], "list"
                elif bad == "arr_bad_lo":
                    c["init"], c["init_form"] = [0, -n - 1], "array"
                elif bad == "ts0":
                    c["ts"] = 0
                elif bad == "tsneg":
                    c["ts"] = -1
                elif bad == "reps_neg":
                    c["num_reps"] = -1
                    c["init"] = rng.choice([None, 0])
                elif bad == "neg_sim":
                    c["init"] = -1
                elif bad == "sim_n":
                    c["init"] = n
                cases.append(c)
    return cases


# ------------------------------------------------------------------ hardening audit: dress / state / aliasing / optional arguments /
# degenerate sizes.  Every variant call must reproduce the CANONICAL call (float64 ndarray, Python ints, fresh objects).
def _snap(x):
    import scipy.sparse as sp
    if sp.issparse(x):
        x = x.toarray()
    return np.array(x, copy=True)


def harden(ctx, thorough):
    import scipy.sparse as sp
    from quantecon.markov.core import MarkovChain, mc_sample_path
    from quantecon import DiscreteRV
    import quantecon.random.utilities as qru
    rng = ctx.rng
    NPI = [int, np.int64, np.int32, np.intp, np.uint8]

    def canon(P, ts, init, nr, stream, ints, kind="simulate_indices", sv=None):
        mc = MarkovChain(np.array(P, dtype=np.float64), state_values=sv)
        return np.asarray(getattr(mc, kind)(int(ts), init=init, num_reps=nr, random_state=ScriptedRS(list(stream) + [0.5] * 16, list(ints) + [0] * 4)))

    def same(a, b):
        a, b = np.asarray(a), np.asarray(b)
        return a.shape == b.shape and np.array_equal(a, b)

    def guard(tag, inp, f):
        try:
            return True, f()
        except Exception as e:
            ctx.fail("exception", "%s raised %s on a valid input" % (tag, type(e).__name__), inp, repr(e)[:200], None)
            return False, None

    for it in range(60 if thorough else 18):
        n = rng.choice([1, 2, 3, 3, 4, 5])
        rows = [gen_row(rng, n, "dyadic") for _ in range(n)]
        if it % 5 == 0:        # integer matrix (a permutation)
            perm = list(range(n))
            rng.shuffle(perm)
            rows = [[1.0 if j == perm[i] else 0.0 for j in range(n)] for i in range(n)]
        ts = rng.choice([1, 2, 5, 9])
        nr = rng.choice([None, 1, 2])
        init = rng.choice([None, rng.randrange(n), [rng.randrange(n) for _ in range(2)]])
        k = (1 if nr is None else nr) * (len(init) if isinstance(init, list) else 1)
        stream = [rng.choice([0.0, ONE_M, rng.randrange(64) / 64.0, rng.random()]) for _ in range(k * max(ts - 1, 0))]
        ints = [rng.randrange(n) for _ in range(k)]
        inp = {"function": "simulate_indices(hardening)", "P": rows, "ts": ts, "init": init, "num_reps": nr, "stream": hx(stream), "ints": ints}
        okc, X0 = guard("canonical call", inp, lambda: canon(rows, ts, init, nr, stream, ints))
        if not okc:
            continue
        ctx.case(("harden", rows, ts, init, nr, hx(stream), ints), nontrivial=(n >= 2 and ts >= 2))
        A64 = np.array(rows, dtype=np.float64)
        big = np.zeros((2 * n, 2 * n))
        big[::2, ::2] = A64
        isint = all(float(x).is_integer() for r in rows for x in r)
        dresses = [("list", [list(r) for r in rows]), ("tuple", tuple(tuple(r) for r in rows)), ("float32", A64.astype(np.float32)),
                   ("F-order", np.asfortranarray(A64)), ("non-contiguous view", big[::2, ::2]), ("csr", sp.csr_matrix(A64)),
                   ("csc", sp.csc_matrix(A64)), ("coo", sp.coo_matrix(A64)), ("csr float32", sp.csr_matrix(A64.astype(np.float32)))]
        if isint:
            dresses += [("int64", A64.astype(np.int64)), ("int32", A64.astype(np.int32)), ("nested int list", [[int(x) for x in r] for r in rows])]
        for name, Pv in dresses:
            ctx.count("dress:P=%s" % name)
            before = _snap(Pv)
            tsv = rng.choice(NPI)(ts)
            nrv = None if nr is None else rng.choice(NPI)(nr)
            iv = init if not isinstance(init, (int, list)) else (rng.choice(NPI)(init) if isinstance(init, int) else
                                                                rng.choice([list, tuple, np.array])(init))
            ctx.count("dress:ts_length=%s" % type(tsv).__name__)
            okc, X = guard("P as %s" % name, dict(inp, P_dress=name), lambda: np.asarray(MarkovChain(Pv).simulate_indices(
                tsv, init=iv, num_reps=nrv, random_state=ScriptedRS(stream + [0.5] * 16, ints + [0] * 4))))
            if okc and not same(X, X0):
                ctx.fail("dress", "simulate_indices with P given as %s / NumPy-integer ts_length, num_reps, init differs from the canonical float64 call" % name,
                         dict(inp, P_dress=name, ts_type=type(tsv).__name__), X.tolist(), X0.tolist())
            if not np.array_equal(before, _snap(Pv)):
                ctx.fail("mutation", "MarkovChain / simulate_indices modified the matrix it was given (%s)" % name, dict(inp, P_dress=name), None, None)
        # ---- state and sequences on ONE object; several objects alive; lazily cached attributes touched in between
        other = MarkovChain(np.array([gen_row(rng, n + 1, "dyadic") for _ in range(n + 1)]))
        mc = MarkovChain(A64)
        seq_ok = True
        for step in range(4):
            what = rng.choice(["cdfs", "stationary", "digraph", "other_object", "state_values", "nothing"])
            ctx.count("seq:%s" % what)
            if what == "cdfs":
                _ = mc.cdfs
            elif what == "stationary":
                _ = mc.stationary_distributions
            elif what == "digraph":
                _ = mc.is_irreducible, mc.period if mc.is_irreducible else None
            elif what == "other_object":
                other.simulate_indices(4, init=0, random_state=ScriptedRS([0.3] * 8))
            elif what == "state_values":
                mc.state_values = [3 * i for i in range(n)]
                mc.state_values = None
            okc, X = guard("reused object", dict(inp, sequence_step=what), lambda: np.asarray(mc.simulate_indices(
                ts, init=init, num_reps=nr, random_state=ScriptedRS(stream + [0.5] * 16, ints + [0] * 4))))
            if okc and not same(X, X0):
                ctx.fail("stale_state", "a reused MarkovChain object (after %s) differs from a fresh one" % what, dict(inp, sequence_step=what), X.tolist(), X0.tolist())
                seq_ok = False
            if okc:
                X[...] = -7          # results must not alias internal state or each other
        if seq_ok and not np.array_equal(np.asarray(mc.P), A64):
            ctx.fail("mutation", "simulate_indices modified MarkovChain.P", inp, None, None)
        ctx.count("alias:result overwritten between calls", 4)
        # init array must not be modified
        if isinstance(init, list):
            ia = np.array(init, dtype=np.int64)
            guard("init array", inp, lambda: MarkovChain(A64).simulate_indices(ts, init=ia, num_reps=nr, random_state=ScriptedRS(stream + [0.5] * 16, ints + [0] * 4)))
            if ia.tolist() != init:
                ctx.fail("mutation", "simulate_indices modified the init array it was given", inp, ia.tolist(), init)
            ctx.count("alias:init array snapshot")
        # ---- optional arguments: omitted vs explicit default; random_state None (global stream) vs seed as Python / NumPy int
        seed = rng.randrange(2 ** 31)
        base = np.asarray(MarkovChain(A64).simulate_indices(ts, init=init, num_reps=nr, random_state=np.random.RandomState(seed)))
        for sname, sval in (("int", seed), ("np.int64", np.int64(seed)), ("np.int32", np.int32(seed)), ("np.uint32", np.uint32(seed))):
            ctx.count("dress:seed=%s" % sname)
            okc, X = guard("seed as %s" % sname, dict(inp, seed=seed), lambda: np.asarray(MarkovChain(A64).simulate_indices(ts, init=init, num_reps=nr, random_state=sval)))
            if okc and not same(X, base):
                ctx.fail("seed", "random_state=%s(seed) differs from RandomState(seed)" % sname, dict(inp, seed=seed), X.tolist(), base.tolist())
        np.random.seed(seed)
        kw = {}
        if init is not None:
            kw["init"] = init
        if nr is not None:
            kw["num_reps"] = nr
        okc, X = guard("optional arguments omitted", dict(inp, seed=seed), lambda: np.asarray(MarkovChain(A64).simulate_indices(ts, **kw)))
        ctx.count("optional:omitted(random_state, and init/num_reps when None)")
        if okc and not same(X, base):
            ctx.fail("optional_argument", "omitting random_state/init/num_reps differs from passing None explicitly (global stream seeded alike)", dict(inp, seed=seed), X.tolist(), base.tolist())
        np.random.seed(seed)
        okc, X = guard("explicit None", dict(inp, seed=seed), lambda: np.asarray(MarkovChain(A64).simulate_indices(ts, init=init, num_reps=nr, random_state=None)))
        if okc and not same(X, base):
            ctx.fail("optional_argument", "random_state=None differs from the seeded global stream", dict(inp, seed=seed), X.tolist(), base.tolist())
        # ---- state_values forms (annotation = state_values[index path]); 2-d state values; float / string values
        if init is not None:
            Xi = canon(rows, ts, init, nr, stream, ints)
            for svname, sv in (("list", [5 * i + 1 for i in range(n)]), ("tuple", tuple(5 * i + 1 for i in range(n))),
                               ("float array", np.array([i + 0.5 for i in range(n)])), ("int32 array", np.arange(n, dtype=np.int32) * 2),
                               ("2-d array", np.array([[i, -i] for i in range(n)])), ("strings", np.array(["s%d" % i for i in range(n)]))):
                ctx.count("dress:state_values=%s" % svname)
                sva = np.asarray(sv)
                iv = sva[init] if isinstance(init, int) else [sva[i] for i in init]
                if isinstance(init, list) and sva.ndim == 2:
                    iv = np.array(iv)
                okc, X = guard("state_values as %s" % svname, dict(inp, state_values=svname), lambda: MarkovChain(A64, state_values=sv).simulate(
                    ts, init=iv, num_reps=nr, random_state=ScriptedRS(stream + [0.5] * 16, ints + [0] * 4)))
                if okc and not same(np.asarray(X), sva[Xi]):
                    ctx.fail("state_values", "simulate with state_values given as %s is not state_values[index path]" % svname,
                             dict(inp, state_values=svname), np.asarray(X).tolist()[:6], sva[Xi].tolist()[:6])
        # ---- mc_sample_path: P dress, sample_size as NumPy int, init=0 explicit vs omitted default, no mutation
        if ts >= 1:
            st1 = stream[:max(ts - 1, 0)]
            x0 = rng.randrange(n)
            ref = canon(rows, ts, x0, None, st1, [])
            for name, Pv in dresses[:9]:
                okc, X = guard("mc_sample_path P as %s" % name, dict(inp, P_dress=name), lambda: mc_sample_path(
                    Pv, init=rng.choice(NPI)(x0), sample_size=rng.choice(NPI)(ts), random_state=ScriptedRS(st1 + [0.5] * 16)))
                ctx.count("dress:mc_sample_path P=%s" % name)
                if okc and not same(X, ref):
                    ctx.fail("dress", "mc_sample_path with P as %s / NumPy ints differs from the canonical call" % name, dict(inp, P_dress=name, init=x0), np.asarray(X).tolist(), ref.tolist())
            okc, X = guard("mc_sample_path default init", inp, lambda: mc_sample_path(A64, sample_size=ts, random_state=ScriptedRS(st1 + [0.5] * 16)))
            ctx.count("optional:mc_sample_path init omitted (=0)")
            if okc and not same(X, canon(rows, ts, 0, None, st1, [])):
                ctx.fail("optional_argument", "mc_sample_path without init does not start at state 0", inp, np.asarray(X).tolist(), None)
    # ---- degenerate sizes
    for P1, ts1, nr1 in (([[1.0]], 1, None), ([[1.0]], 5, 3), ([[1.0]], 3, 0), ([[0.5, 0.5], [1.0, 0.0]], 1, 0)):
        ctx.count("degenerate:n=%d,ts=%d,num_reps=%s" % (len(P1), ts1, nr1))
        for spv in (False, True):
            okc, X = guard("degenerate chain", {"function": "simulate_indices", "P": P1, "ts": ts1, "num_reps": nr1, "sparse": spv},
                           lambda: np.asarray(MarkovChain(sp.csr_matrix(np.array(P1)) if spv else P1).simulate_indices(ts1, init=0, num_reps=nr1, random_state=3)))
            want_shape = (ts1,) if nr1 is None else (nr1, ts1)
            if okc and (X.shape != want_shape or (X.size and (X.min() < 0 or X.max() >= len(P1) or (X[..., 0] != 0).any()))):
                ctx.fail("shape", "degenerate chain: wrong shape or entries", {"function": "simulate_indices", "P": P1, "ts": ts1, "num_reps": nr1, "sparse": spv}, X.tolist(), list(want_shape))
    # ---- DiscreteRV / random.draw: dress of q and k, several objects alive, no mutation, draw(k) default, size 0 / None
    for it in range(40 if thorough else 14):
        n = rng.choice([1, 2, 3, 5])
        q = gen_row(rng, n, "dyadic") if it % 4 else [1.0] + [0.0] * (n - 1)
        k = rng.choice([1, 2, 4])
        us = [rng.choice([0.0, ONE_M, rng.randrange(64) / 64.0]) for _ in range(k)]
        ref = [int(v) for v in DiscreteRV(np.array(q)).draw(k, random_state=ScriptedRS(us))]
        inp = {"function": "DiscreteRV(hardening)", "q": q, "us": hx(us)}
        ctx.case(("harden-drv", q, hx(us)), nontrivial=(n >= 2))
        qforms = [("list", list(q)), ("tuple", tuple(q)), ("float32", np.array(q, dtype=np.float32)), ("non-contiguous view", np.array([q, q]).T[:, 0])]
        if all(float(x).is_integer() for x in q):
            qforms.append(("int list", [int(x) for x in q]))
        d_other = DiscreteRV([0.25, 0.75])
        for name, qv in qforms:
            ctx.count("dress:q=%s" % name)
            before = np.array(qv, copy=True)
            d = DiscreteRV(qv)
            d_other.draw(2, random_state=ScriptedRS([0.1, 0.9]))
            okc, out = guard("DiscreteRV q as %s" % name, dict(inp, q_dress=name), lambda: d.draw(rng.choice(NPI)(k), random_state=ScriptedRS(us)))
            if okc and [int(v) for v in out] != ref:
                ctx.fail("dress", "DiscreteRV.draw with q as %s / k as NumPy int differs from the canonical call" % name, dict(inp, q_dress=name), [int(v) for v in out], ref)
            if okc:
                out[...] = -1
                again = [int(v) for v in d.draw(k, random_state=ScriptedRS(us))]
                if again != ref:
                    ctx.fail("stale_state", "second draw on the same DiscreteRV differs (result aliasing / state)", dict(inp, q_dress=name), again, ref)
            if not np.array_equal(before, np.array(qv)) or [float(x) for x in np.asarray(d.q)] != [float(x) for x in q]:
                ctx.fail("mutation", "DiscreteRV modified q", dict(inp, q_dress=name), None, None)
        d = DiscreteRV(q)
        okc, out = guard("DiscreteRV.draw() default k", inp, lambda: d.draw(random_state=ScriptedRS(us[:1])))
        ctx.count("optional:DiscreteRV.draw k omitted (=1)")
        if okc and [int(v) for v in np.atleast_1d(out)] != ref[:1]:
            ctx.fail("optional_argument", "DiscreteRV.draw() is not draw(1)", inp, np.atleast_1d(out).tolist(), ref[:1])
        # random.draw: size None -> scalar, size=0 -> empty array, size as Python int
        cdf = np.cumsum(q)
        itv = iter(us + [0.5] * 4)
        orig = np.random.random
        try:
            np.random.random = lambda size=None: (next(itv) if size is None else np.array([next(itv) for _ in range(size)]))
            okc, r0 = guard("random.draw size=0", inp, lambda: qru.draw(cdf, 0))
            okc1, r1 = guard("random.draw size omitted", inp, lambda: qru.draw(cdf))
        finally:
            np.random.random = orig
        ctx.count("optional:random.draw size=0 / omitted")
        if okc and (not isinstance(r0, np.ndarray) or r0.shape != (0,)):
            ctx.fail("optional_argument", "random.draw(cdf, 0) is not an empty array (falsy-but-valid size)", inp, repr(r0), None)
        if okc1 and (np.ndim(r1) != 0 or int(r1) != drv_expected_plain(q, us[0])):
            ctx.fail("optional_argument", "random.draw(cdf) is not the scalar inverse-CDF image of its uniform", inp, repr(r1), drv_expected_plain(q, us[0]))


def drv_expected_plain(q, u):
    cdf = np.cumsum(np.array(q, dtype=float))
    v = float(u) * cdf[-1]
    j = 0
    while j < len(cdf) and not (v < cdf[j]):
        j += 1
    return j


# ------------------------------------------------------------------ result aliasing across calls
class Keeper:
    """KEEP-AND-RECHECK: every returned array is kept uncopied next to a deep copy; after later calls the kept array must
    still equal its copy; results of different calls must not share memory with each other or with arguments/attributes."""

    def __init__(self, ctx):
        self.ctx, self.items = ctx, []

    def keep(self, what, arr, inp, against=()):
        arrs = [a for a in (arr if isinstance(arr, (tuple, list)) else [arr]) if isinstance(a, np.ndarray)]
        for a in arrs:
            for name, other in against:
                if isinstance(other, np.ndarray) and a.size and other.size and np.shares_memory(a, other):
                    self.ctx.fail("result_aliases_internal_state", "%s shares memory with %s" % (what, name), inp, None, None)
            for w2, a2, _, _ in self.items:
                if a.size and a2.size and np.shares_memory(a, a2):
                    self.ctx.fail("result_overwritten_by_later_call", "%s shares memory with the result of an earlier call (%s)" % (what, w2), inp, None, None)
            self.items.append((what, a, a.copy(), inp))
            self.ctx.count("alias:kept results")

    def recheck(self):
        for what, a, c, inp in self.items:
            if a.shape != c.shape or not np.array_equal(a, c):
                self.ctx.fail("result_overwritten_by_later_call", "%s, kept by the caller, was changed by a later call" % what, inp, a.tolist()[:4], c.tolist()[:4])
                break
        self.items = []


def scribble(a):
    """overwrite a returned array in place with garbage (after the caller has copied what it needs)"""
    for x in (a if isinstance(a, (tuple, list)) else [a]):
        if isinstance(x, np.ndarray) and x.size and x.flags.writeable:
            x[...] = -9 if x.dtype.kind in "iu" else (7.25 if x.dtype.kind == "f" else x.flat[0])


def alias_audit(ctx, thorough):
    import scipy.sparse as sp
    from quantecon.markov.core import MarkovChain, mc_sample_path
    from quantecon import DiscreteRV
    import quantecon.random.utilities as qru
    rng = ctx.rng
    for it in range(40 if thorough else 14):
        n = rng.choice([2, 3, 4])
        rows = [gen_row(rng, n, "dyadic") for _ in range(n)]
        A = np.array(rows)
        sparse = it % 3 == 1
        sv = [11 * i + 2 for i in range(n)] if it % 3 == 2 else None
        mc = MarkovChain(sp.csr_matrix(A) if sparse else A.copy(), state_values=sv)
        ts, nr = rng.choice([2, 4, 7]), rng.choice([None, 1, 3])
        inp0 = {"function": "simulate_indices/simulate (same shape repeated on one object)", "P": rows, "sparse": sparse, "state_values": sv, "ts": ts, "num_reps": nr}
        K = Keeper(ctx)
        P_before = A.copy()
        ctx.case(("alias", rows, sparse, sv, ts, nr), nontrivial=True)
        for rep in range(5):
            meth = rng.choice(["simulate_indices", "simulate"])
            k = 1 if nr is None else nr
            stream = [rng.random() for _ in range(k * (ts - 1))]
            init = rng.randrange(n)
            inp = dict(inp0, call=rep, method=meth, init=init, stream=hx(stream))
            iv = init if (meth == "simulate_indices" or sv is None) else sv[init]
            try:
                X = getattr(mc, meth)(ts, init=iv, num_reps=nr, random_state=ScriptedRS(stream + [0.5] * 8))
                fresh = getattr(MarkovChain(A.copy(), state_values=sv), meth)(ts, init=iv, num_reps=nr, random_state=ScriptedRS(stream + [0.5] * 8))
            except Exception as e:
                ctx.fail("exception", "%s raised %s on a valid input" % (meth, type(e).__name__), inp, repr(e)[:200], None)
                break
            if not np.array_equal(np.asarray(X), np.asarray(fresh)):
                ctx.fail("result_aliases_internal_state", "%s on a reused object (earlier results scribbled on) differs from a fresh object" % meth, inp,
                         np.asarray(X).tolist()[:3], np.asarray(fresh).tolist()[:3])
            against = [("MarkovChain.P", mc.P if not sparse else mc.P.data), ("MarkovChain.cdfs", mc.cdfs if not sparse else mc.cdfs1d)]
            if mc.state_values is not None:
                against.append(("MarkovChain.state_values", mc.state_values))
            K.keep("%s result #%d" % (meth, rep), X, inp, against)
            if rep % 2 == 1:
                K.recheck()                    # kept results must have survived the later same-shaped calls
                scribble(X)                    # SCRIBBLE: the caller edits what it was given; later calls must not care
                ctx.count("alias:scribbled results")
        K.recheck()
        now = mc.P.toarray() if sparse else np.asarray(mc.P)
        if not np.array_equal(now, P_before):
            ctx.fail("mutation", "MarkovChain.P changed along a sequence of simulate calls", inp0, None, None)
        # mc_sample_path, DiscreteRV.draw, random.draw: same-shape repeats
        K = Keeper(ctx)
        q = rows[0]
        d = DiscreteRV(np.array(q))
        cdf = np.cumsum(q)
        for rep in range(4):
            us = [rng.random() for _ in range(5)]
            inp = {"function": "mc_sample_path / DiscreteRV.draw / random.draw (same shape repeated)", "P": rows, "q": q, "us": hx(us), "call": rep}
            try:
                r1 = mc_sample_path(A, init=0, sample_size=6, random_state=ScriptedRS(us + [0.5] * 4))
                r2 = d.draw(5, random_state=ScriptedRS(us))
                itv = iter(us)
                orig = np.random.random
                try:
                    np.random.random = lambda size=None: (next(itv) if size is None else np.array([next(itv) for _ in range(size)]))
                    r3 = qru.draw(cdf, 5)
                finally:
                    np.random.random = orig
            except Exception as e:
                ctx.fail("exception", "draw raised %s on a valid input" % type(e).__name__, inp, repr(e)[:200], None)
                break
            exp2 = [drv_expected(q, u) for u in us]
            if [int(v) for v in r2] != exp2 or [int(v) for v in r3] != [drv_expected_plain(q, u) for u in us]:
                ctx.fail("result_aliases_internal_state", "a draw after earlier results were scribbled on is wrong", inp, [r2.tolist(), r3.tolist()], exp2)
            K.keep("mc_sample_path result #%d" % rep, r1, inp, [("P", A)])
            K.keep("DiscreteRV.draw result #%d" % rep, r2, inp, [("DiscreteRV.Q", d.Q), ("DiscreteRV.q", np.asarray(d.q))])
            K.keep("random.draw result #%d" % rep, r3, inp, [("cdf", cdf)])
            if rep == 1:
                K.recheck()
                scribble([r1, r2, r3])
        K.recheck()
        if not np.array_equal(np.asarray(d.q), np.array(q)) or not np.array_equal(d.Q, np.cumsum(q)) or not np.array_equal(cdf, np.cumsum(q)):
            ctx.fail("mutation", "DiscreteRV.q/Q or the cdf argument changed along a sequence of draws", {"q": q}, None, None)


FLOAT_AXIOMS = ("FloatAxioms.Prim2SF_valid", "FloatAxioms.SF2Prim_Prim2SF", "FloatAxioms.Prim2SF_SF2Prim", "FloatAxioms.ltb_spec",
                "FloatAxioms.leb_spec", "FloatAxioms.add_spec", "FloatAxioms.mul_spec", "FloatAxioms.eqb_spec", "FloatAxioms.compare_spec",
                "ClassicalDedekindReals.sig_forall_dec", "ClassicalDedekindReals.sig_not_dec", "Classical_Prop.classic",
                "FunctionalExtensionality.functional_extensionality_dep")
# further axioms of the LOADED library Coq.Floats.FloatAxioms (specifications of primitive operations that no C10/C20 theorem
# uses; coqchk -o lists the axioms of every loaded library, Print Assumptions only those a theorem depends on)
FLOAT_LIB_AXIOMS = tuple("FloatAxioms." + n for n in (
    "of_uint63_spec", "div_spec", "sub_spec", "Leibniz.eqb_spec", "frshiftexp_spec", "next_down_spec", "compare_spec", "ldshiftexp_spec",
    "opp_spec", "next_up_spec", "abs_spec", "sqrt_spec", "classify_spec", "eqb_spec", "normfr_mantissa_spec"))


def run(ctx):
    thorough = ctx.tier == "thorough"
    rng = ctx.rng
    # PropsFloat.v: binary64 instances through Flocq; they rest on the standard library's specification of the primitive
    # float operations (FloatAxioms) and on the classical reals, each axiom named in the evidence
    ctx.proofs(["C10/Props.v", "C10/PropsTie.v", "C10/PropsFloat.v"], extra_axioms=FLOAT_AXIOMS + FLOAT_LIB_AXIOMS)
    ctx.assumptions += ["axioms used only by *PropsFloat.v: " + ", ".join(FLOAT_AXIOMS),
                        "axioms of the loaded library FloatAxioms not used by any theorem (listed by coqchk -o): " + ", ".join(FLOAT_LIB_AXIOMS)]
    import scipy.sparse as sp
    from quantecon.markov.core import MarkovChain, mc_sample_path
    from quantecon import DiscreteRV
    import quantecon.random.utilities as qru
    ctx.trusted += ["float facts F1 (0<=u<1, c>0 normal => u*c < c), F2 (adding a zero does not change comparisons), "
                    "F3 (order/monotone cumulative sums) are hypotheses of the generic theorems in Props.v; proved for Q there and for binary64 in "
                    "PropsFloat.v through Flocq (axioms: FloatAxioms.*, classical reals)",
                    "NumPy ndarray.searchsorted(side='right') modelled by its specification on sorted arrays",
                    "NUMBA_BOUNDSCHECK=1 as the detector of out-of-bounds reads"]

    cases = make_cases(ctx, thorough)
    # fixed probes of the defect repaired by 454b8b2 (sparse kernel, negative init accepted by the range check)
    perm = [[0.0, 1.0, 0.0], [0.0, 0.0, 1.0], [1.0, 0.0, 0.0]]
    small = [[0.5, 0.5, 0.0], [0.0, 0.5, 0.5], [0.25, 0.25, 0.5]]
    for rows_, init_, form_, ts_ in ((small, -1, "int", 4), (perm, [-3, -2], "list", 3), (perm, [-1, -2, -3], "array", 4), (small, -3, "npint", 5)):
        for sparse_ in (True, False):
            k_ = 1 if isinstance(init_, int) else len(init_)
            cases.append(dict(P=[hx(r) for r in rows_], sparse=sparse_, csr=None, kind="sim_idx", ts=ts_, num_reps=None, ints=[],
                              init_form=form_, init=init_, stream=hx([0.5, 0.0, ONE_M, 0.25] * k_)[:k_ * (ts_ - 1)], mode="probe",
                              variant="sparse" if sparse_ else "dense", bc_only=sparse_))
    # ---- second interpreter under NUMBA_BOUNDSCHECK=1 (started first, collected later)
    tmpd = tempfile.mkdtemp(prefix="c10_", dir=ctx.work)
    fin, fout = os.path.join(tmpd, "in.json"), os.path.join(tmpd, "out.json")
    json.dump(cases, open(fin, "w"))
    env = dict(os.environ, NUMBA_BOUNDSCHECK="1", NUMBA_CACHE_DIR=os.path.join(VERIF, ".cache", "numba_boundscheck"))
    sub = subprocess.Popen([sys.executable, os.path.abspath(__file__), "--worker", fin, fout], env=env,
                           stdout=subprocess.PIPE, stderr=subprocess.STDOUT)
    # ---- main interpreter (cases flagged bc_only are not run here)
    results = [None if c.get("bc_only") else run_case(c) for c in cases]
    ctype = "@chain float * Z * init_t * option Z * list Z * list float * res (bool * list (list Z))"

    harden(ctx, thorough)
    alias_audit(ctx, thorough)

    # ---- exact instance tied as well: dyadic chains and dyadic uniforms (float arithmetic exact) run through NumQ
    qcases, qmeta = [], []
    for _ in range(120 if thorough else 40):
        n = rng.randrange(1, 6)
        rows = [gen_row(rng, n, "dyadic") for _ in range(n)]
        ts = rng.choice([2, 4, 7])
        k = rng.choice([1, 2, 3])
        inits = [rng.randrange(n) for _ in range(k)]
        st = [rng.choice([0.0, rng.randrange(0, 64) / 64.0, rng.randrange(0, 1024) / 1024.0, 1 - 2.0 ** -20]) for _ in range(k * (ts - 1))]
        sparse = rng.random() < 0.5
        c = dict(P=[hx(r) for r in rows], sparse=sparse, csr=None, kind="sim_idx", ts=ts, num_reps=None, ints=[], init_form="list",
                 init=inits, stream=hx(st), mode="dyadic", variant="exactQ")
        res = run_case(c)
        ctx.case(("simQ", c["P"], sparse, ts, inits, c["stream"]), nontrivial=(n >= 2))
        if res[0] == "ok":
            oracle_paths(ctx, c, res, stored_rows(c))
        if sparse:
            nn, data, indices, indptr = csr_arrays(c)
            ch = "(Sparse %s %s %s %s)" % (zlit(nn), qlist([frac(x) for x in data]), zlist(indices), zlist(indptr))
        else:
            ch = "(Dense %s)" % qlist2([[frac(x) for x in r] for r in rows])
        qcases.append(tup(ch, zlit(ts), init_lit(c), "None", "(@nil Z)", qlist([frac(x) for x in st]), res_lit(res)))
        qmeta.append(c)
    bad = ctx.coq_check("simulate_indices_Q", IMPORTS, "@chain Q * Z * init_t * option Z * list Z * list Q * res (bool * list (list Z))",
                        "fun c => let '(ch, ts, init, nr, drawn, stream, exp) := c in res_eqb pr_eqb (simulate_indices ch ts init nr drawn stream) exp",
                        qcases, chunk=20, preamble=PREAMBLE)
    for i in bad:
        ctx.mismatch("C10.Model.simulate_indices (Q instance, dyadic data) vs MarkovChain.simulate_indices",
                     {k: qmeta[i][k] for k in ("P", "sparse", "ts", "init", "stream")})

    # ---- constructor acceptance (guard of the property): non-square / negative / row sums off by more or less than allclose's tolerance
    tol = 1e-8 + 1e-5 * abs(1.0)       # np.allclose(a, ones): |a-1| <= atol + rtol*|1| with numpy's defaults
    import inspect
    sig = inspect.signature(np.allclose).parameters
    if sig["rtol"].default != 1e-5 or sig["atol"].default != 1e-8:
        ctx.notes.append("numpy allclose defaults changed: %r %r" % (sig["rtol"].default, sig["atol"].default))
        tol = sig["atol"].default + sig["rtol"].default * 1.0
    acases, ameta = [], []
    for _ in range(200 if thorough else 70):
        n = rng.randrange(1, 8)       # < 8: numpy's row reduction is the plain left-to-right loop
        rows = [gen_row(rng, n, rng.choice(ROW_KINDS)) for _ in range(n)]
        mut = rng.choice(["ok", "ok", "neg", "sum_hi", "sum_lo", "sum_in", "ragged_sq"])
        i, j = rng.randrange(n), rng.randrange(n)
        if mut == "neg":
            rows[i][j] = -rng.choice([1e-12, 0.25, 5e-324])
        elif mut == "sum_hi":
            rows[i] = [x * (1 + rng.choice([1.2e-5, 1e-3])) for x in rows[i]]
        elif mut == "sum_lo":
            rows[i] = [x * (1 - rng.choice([1.2e-5, 0.5])) for x in rows[i]]
        elif mut == "sum_in":
            rows[i] = [x * (1 + rng.choice([-8e-6, 8e-6])) for x in rows[i]]
        sparse = rng.random() < 0.4
        try:
            A = np.array(rows, dtype=float)
            if mut == "ragged_sq":
                A = A[:, :max(n - 1, 1)] if n > 1 else np.ones((1, 2))
                sparse = False
            MarkovChain(sp.csr_matrix(A) if sparse else A)
            acc = True
        except ValueError:
            acc = False
        ctx.count("accept:%s=%s" % (mut, acc))
        ctx.case(("accept", [hx(r) for r in A.tolist()], sparse), nontrivial=(n >= 2))
        # oracle: exact row sums against the documented tolerance, with a margin where association could matter
        ex_ok = (A.shape[0] == A.shape[1]) and all(x >= 0 for r in A.tolist() for x in r) and \
            all(abs(sum(Fraction(x) for x in r) - 1) <= Fraction(tol) for r in A.tolist())
        if ex_ok != acc:
            ctx.fail("constructor_guard", "MarkovChain accepts/rejects against its documented checks", {"P": A.tolist(), "sparse": sparse}, acc, ex_ok)
        if sparse:
            S = sp.csr_matrix(A)
            acases.append(tup(blit(True), flit(tol) + "%float", "(@nil (list float))", zlit(n), flist(S.data.tolist()), zlist(S.indptr.tolist()), blit(acc)))
        else:
            acases.append(tup(blit(False), flit(tol) + "%float", flist2(A.tolist()), zlit(n), "(@nil float)", "(@nil Z)", blit(acc)))
        ameta.append((A.tolist(), sparse, acc))
    bad = ctx.coq_check("mc_accepts", IMPORTS, "bool * float * list (list float) * Z * list float * list Z * bool",
                        "fun c => let '(sp, tol, P, n, data, indptr, acc) := c in Bool.eqb (if sp then mc_accepts_sparse tol n data indptr else mc_accepts_dense tol P) acc",
                        acases, chunk=80)
    for i in bad:
        ctx.mismatch("C10.Model.mc_accepts_* vs MarkovChain.__init__", {"P": ameta[i][0], "sparse": ameta[i][1]}, ameta[i][2])

    # ---- DiscreteRV.draw and random.draw
    dcases, dmeta, wcases, wmeta = [], [], [], []
    qs = [[0.1] * 10, [1.0], [0.5, 0.5], [1 / 3.0] * 3, [0.3, 0.3], [0.7, 0.7], [0.25, 0.0, 0.75, 0.0]]
    qs += [gen_row(rng, rng.choice([1, 2, 3, 4, 6, 10, 12]), rng.choice(ROW_KINDS)) for _ in range(150 if thorough else 50)]
    import numba
    @numba.njit
    def jit_draw(cdf, size, seed):
        np.random.seed(seed)
        rs = np.random.random(size)
        np.random.seed(seed)
        return rs, qru.draw(cdf, size)
    @numba.njit
    def jit_draw1(cdf, seed):
        np.random.seed(seed)
        r = np.random.random()
        np.random.seed(seed)
        return r, qru.draw(cdf)
    for q in qs:
        n = len(q)
        cdf = cumsum_f(q)
        k = rng.choice([1, 3, 8, 16])
        us = [pick_u(rng, cdf) for _ in range(k)]
        qf = [Fraction(x) for x in q]
        S = sum(qf)
        # DiscreteRV
        rs = ScriptedRS(us)
        out = [int(v) for v in DiscreteRV(q).draw(k, random_state=rs)]
        ctx.case(("drv", hx(q), hx(us)), nontrivial=(n >= 2), sample={"DiscreteRV.draw": q[:4], "us": us[:3], "impl": out[:3]})
        ctx.count("draw:DiscreteRV")
        dcases.append(tup(flist(q), flist(us), "(Ok %s)" % zlist(out)))
        dmeta.append((q, us, out))
        scale = min(S, Fraction(1))
        for u, y in zip(us, out):
            v = Fraction(u) * scale
            if not (0 <= y < n):
                ctx.fail("draw_range", "DiscreteRV.draw returned an index outside the support", {"function": "DiscreteRV.draw", "q": hx(q), "u": u.hex()}, y, None)
            elif not (qf[y] > 0 and sum(qf[:y]) - TOL <= v < sum(qf[:y + 1]) + TOL) or y != drv_expected(q, u):
                ctx.fail("draw_law", "DiscreteRV.draw: not a positive-probability inverse-CDF image", {"function": "DiscreteRV.draw", "q": hx(q), "u": u.hex()}, y, drv_expected(q, u))
        # random.draw (python mode; np.random.random replaced for the duration of the call)
        cdf_a = np.cumsum(q)
        it = iter(us)
        orig = np.random.random
        try:
            np.random.random = lambda size=None: (next(it) if size is None else np.array([next(it) for _ in range(size)]))
            if k == 1:
                outw = [int(qru.draw(cdf_a))]
            else:
                outw = [int(v) for v in qru.draw(cdf_a, k)]
        finally:
            np.random.random = orig
        ctx.case(("qe_draw", hx(q), hx(us)), nontrivial=(n >= 2))
        ctx.count("draw:random.draw(py)")
        wcases.append(tup(flist(cdf_a.tolist()), flist(us), "(Ok %s)" % zlist(outw)))
        wmeta.append((q, us, outw))
        for u, y in zip(us, outw):
            v = Fraction(u) * S
            if not (0 <= y < n):
                ctx.fail("draw_range", "random.draw returned an index outside the support", {"function": "random.draw", "q": hx(q), "u": u.hex()}, y, None)
            elif not (qf[y] > 0 and sum(qf[:y]) - TOL <= v < sum(qf[:y + 1]) + TOL) or check_step_float(list(enumerate(qf)), y, u):
                ctx.fail("draw_law", "random.draw: not a positive-probability inverse-CDF image", {"function": "random.draw", "q": hx(q), "u": u.hex()}, y, None)
    # jitted random.draw: the uniforms are recovered by re-seeding Numba's generator
    for q in qs[:40 if thorough else 14]:
        cdf_a = np.cumsum(q)
        seed = rng.randrange(1, 2 ** 31)
        usj, outj = jit_draw(cdf_a, 6, seed)
        u1, o1 = jit_draw1(cdf_a, seed)
        usj2, outj2 = jit_draw(cdf_a, 6, seed)
        if outj.tolist() != outj2.tolist():
            ctx.fail("seed", "random.draw (jitted): equal seeds gave different draws", {"function": "random.draw", "q": hx(q), "seed": seed}, [outj.tolist(), outj2.tolist()], None)
        ctx.case(("qe_draw_jit", hx(q), seed), nontrivial=(len(q) >= 2))
        ctx.count("draw:random.draw(jit)")
        wcases.append(tup(flist(cdf_a.tolist()), flist(usj.tolist() + [u1]), "(Ok %s)" % zlist([int(v) for v in outj] + [int(o1)])))
        wmeta.append((q, usj.tolist() + [u1], [int(v) for v in outj] + [int(o1)]))
    bad = ctx.coq_check("DiscreteRV_draw", IMPORTS, "list float * list float * res (list Z)",
                        "fun c => let '(q, us, exp) := c in res_eqb Zs_eqb (drv_draw q us) exp", dcases, chunk=60, preamble=PREAMBLE)
    for i in bad:
        ctx.mismatch("C10.Model.drv_draw (float instance) vs DiscreteRV.draw", {"q": hx(dmeta[i][0]), "us": hx(dmeta[i][1])}, dmeta[i][2])
    bad = ctx.coq_check("random_draw", IMPORTS, "list float * list float * res (list Z)",
                        "fun c => let '(cdf, us, exp) := c in res_eqb Zs_eqb (qe_draw cdf us) exp", wcases, chunk=60, preamble=PREAMBLE)
    for i in bad:
        ctx.mismatch("C10.Model.qe_draw (float instance) vs quantecon.random.draw", {"q": hx(wmeta[i][0]), "us": hx(wmeta[i][1])}, wmeta[i][2])

    # ---- DiscreteRV as an object: construct; q re-assignments (the setter recomputes Q); draws.  Model = fold over the operations
    scases, smeta = [], []
    below1 = [[0.1] * 10, [0.7, 0.2, 0.1], [1 / 3.0] * 3, [0.1] * 3 + [0.7], [1 / 7.0] * 7, [0.3, 0.3]]
    for _ in range(180 if thorough else 60):
        q0 = rng.choice(qs)
        drv = DiscreteRV(list(q0) if rng.random() < 0.5 else np.array(q0))
        cur, ops, outs, opl = list(q0), [], [], []
        for _o in range(rng.randrange(1, 7)):
            if rng.random() < 0.45:
                cur = list(rng.choice(below1) if rng.random() < 0.6 else rng.choice(qs))
                drv.q = list(cur) if rng.random() < 0.5 else np.array(cur)
                ops.append("(DSetQ %s)" % flist(cur))
                opl.append(["set", hx(cur)])
                if [float(x) for x in np.asarray(drv.q)] != cur:
                    ctx.fail("drv_state", "DiscreteRV.q does not return the probabilities just assigned", {"function": "DiscreteRV", "ops": opl}, None, None)
            else:
                cdf = cumsum_f(cur)
                k = rng.choice([1, 2, 5])
                us = [rng.choice([0.0, ONE_M, pick_u(rng, cdf), pick_u(rng, cdf)]) for _ in range(k)]
                out = [int(v) for v in drv.draw(k, random_state=ScriptedRS(us))]
                ops.append("(DDraw %s)" % flist(us))
                opl.append(["draw", hx(us), out])
                outs.append("(Ok %s)" % zlist(out))
                qf = [Fraction(x) for x in cur]
                scale = min(sum(qf), Fraction(1))
                for u, y in zip(us, out):
                    okd = 0 <= y < len(cur) and qf[y] > 0 and sum(qf[:y]) - TOL <= Fraction(u) * scale < sum(qf[:y + 1]) + TOL and y == drv_expected(cur, u)
                    if not okd:
                        ctx.fail("draw_law", "DiscreteRV.draw after re-assigning q: index out of range or not the inverse-CDF image w.r.t. the current q",
                                 {"function": "DiscreteRV.sequence", "q0": hx(q0), "ops": opl, "u": float(u).hex(), "current_q": hx(cur)}, y, drv_expected(cur, u))
                        break
        ctx.case(("drv-seq", hx(q0), opl), nontrivial=(len(opl) >= 2))
        ctx.count("draw:DiscreteRV.sequence")
        ctx.count("draw:DiscreteRV.sequence.ops", len(opl))
        scases.append(tup(flist(q0), "[" + "; ".join(ops) + "]", "[" + "; ".join(outs) + "]" if outs else "(@nil (res (list Z)))"))
        smeta.append({"q0": hx(q0), "ops": opl})
    bad = ctx.coq_check("DiscreteRV_sequence", IMPORTS, "list float * list (@drv_op float) * list (res (list Z))",
                        "fun c => let '(q0, ops, exp) := c in list_eqb (res_eqb Zs_eqb) (drv_run q0 ops) exp", scases, chunk=30, preamble=PREAMBLE)
    for i in bad:
        ctx.mismatch("C10.Model.drv_run (float instance) vs DiscreteRV object sequence", smeta[i])

    # ---- equal seeds give equal paths; genuine random streams (recorded) through oracle + model
    rcases, rmeta = [], []
    for _ in range(60 if thorough else 20):
        rows, mode = gen_matrix(rng)
        n = len(rows)
        sparse = rng.random() < 0.5
        A = np.array(rows)
        mc = MarkovChain(sp.csr_matrix(A) if sparse else A)
        seed = rng.randrange(0, 2 ** 31)
        ts = rng.choice([2, 5, 17])
        init, nr = rng.choice([(None, None), (None, 3), (rng.randrange(n), None), (rng.randrange(n), 2), ([rng.randrange(n) for _ in range(3)], None)])
        a = mc.simulate_indices(ts, init=init, num_reps=nr, random_state=seed)
        b = mc.simulate_indices(ts, init=init, num_reps=nr, random_state=np.random.RandomState(seed))
        rec = RecordingRS(seed)
        d = mc.simulate_indices(ts, init=init, num_reps=nr, random_state=rec)
        sv = [10 * i + 3 for i in range(n)]
        mcv = MarkovChain(sp.csr_matrix(A) if sparse else A, state_values=sv)
        e = mcv.simulate(ts, init=(None if init is None else (sv[init] if isinstance(init, int) else [sv[i] for i in init])), num_reps=nr, random_state=seed)
        inp = {"function": "simulate_indices", "P": [hx(r) for r in rows], "sparse": sparse, "ts": ts, "init": init, "num_reps": nr, "seed": seed}
        ctx.case(("seed", inp["P"], sparse, ts, init, nr, seed), nontrivial=(n >= 2))
        ctx.count("seed:cases")
        if not (np.array_equal(a, b) and np.array_equal(a, d)):
            ctx.fail("seed", "equal seeds gave different paths", inp, [np.asarray(a).tolist(), np.asarray(b).tolist()], None)
        if not np.array_equal(np.asarray(e), np.asarray(sv)[np.asarray(a)]):
            ctx.fail("state_values", "simulate is not state_values[simulate_indices] for the same seed", inp, np.asarray(e).tolist(), None)
        c = dict(P=[hx(r) for r in rows], sparse=sparse, csr=None, kind="sim_idx", ts=ts, num_reps=nr, ints=rec.rec_i, init_form="int" if isinstance(init, int) else "list",
                 init=init, stream=hx(rec.rec_u), mode=mode, variant="recorded")
        X = np.asarray(d)
        res = ["ok", X.ndim == 2, [[int(v) for v in r] for r in (X if X.ndim == 2 else [X])], len(rec.rec_u)]
        oracle_paths(ctx, c, res, stored_rows(c))
        arrays = csr_arrays(c) if sparse else None
        rcases.append(tup(chain_lit(c, arrays), zlit(ts), init_lit(c), optz(nr), zlist(rec.rec_i), flist(rec.rec_u), res_lit(res)))
        rmeta.append(inp)
    bad = ctx.coq_check("simulate_indices_recorded", IMPORTS, ctype,
                        "fun c => let '(ch, ts, init, nr, drawn, stream, exp) := c in res_eqb pr_eqb (simulate_indices ch ts init nr drawn stream) exp",
                        rcases, chunk=20, preamble=PREAMBLE)
    for i in bad:
        ctx.mismatch("C10.Model.simulate_indices vs MarkovChain.simulate_indices on a recorded genuine stream", rmeta[i])

    # ---- collect the bounds-checked interpreter
    try:
        out, _ = sub.communicate(timeout=900)
    except subprocess.TimeoutExpired:
        sub.kill()
        out = b"timeout"
    if sub.returncode != 0 or not os.path.exists(fout):
        ctx.obligations.append({"name": "NUMBA_BOUNDSCHECK=1 interpreter ran to completion", "ok": False, "detail": out.decode("utf-8", "replace")[-1500:]})
        return
    ctx.obligations.append({"name": "NUMBA_BOUNDSCHECK=1 interpreter ran to completion", "ok": True, "detail": "%d cases" % len(cases)})
    bres = json.load(open(fout))

    # ---- simulate_indices / simulate / mc_sample_path: oracle, bounds-check comparison, Coq literals
    coq = {"sim_idx": [], "sim": [], "mcsp": []}
    meta = {"sim_idx": [], "sim": [], "mcsp": []}
    args = {"sim_idx": [], "sim": [], "mcsp": []}
    svcases, svmeta, svargs = [], [], []
    for ci, c in enumerate(cases):
        bc_only = bool(c.get("bc_only"))
        r_bc = bres[ci]
        res = r_bc if bc_only else results[ci]
        results[ci] = res
        n = len(c["P"])
        ctx.count("sim:%s" % c["kind"])
        ctx.count("sim:variant=%s" % c["variant"].split(":")[0])
        ctx.count("sim:matrix=%s" % c["mode"])
        ctx.count("sim:outcome=%s" % res[0])
        ctx.count("boundscheck:%s" % r_bc[0])
        ctx.count("sim:n=%d" % n if n < 8 else "sim:n>=8")
        form = "none" if c["init"] is None else c["init_form"]
        ctx.count("sim:init=%s%s" % (form, "" if c["num_reps"] is None else "+num_reps"))
        if c["init"] is not None and c.get("init_form") != "dist":
            ctx.count("sim:%s:integer-dress=%s" % (c["kind"], c.get("dress", "int")))
        neg = c["init"] is not None and c["init_form"] != "dist" and any(i < 0 for i in ([c["init"]] if isinstance(c["init"], int) else c["init"]))
        if neg:
            ctx.count("sim:negative_init(%s)" % ("sparse" if c["sparse"] or c["csr"] else "dense"))
        st = unhx(c["stream"])
        ctx.count("sim:u=0", sum(1 for u in st if u == 0.0))
        ctx.count("sim:u=1-2^-53", sum(1 for u in st if u == ONE_M))
        ctx.count("sim:uniforms", len(st))
        ctx.case(("sim", c["kind"], c["P"], c["csr"], c["sparse"], c["ts"], c["init"], c.get("dress"), c["num_reps"], c["stream"], c["ints"]),
                 nontrivial=(res[0] == "ok" and n >= 2 and c["ts"] >= 2 and len(res[2]) >= 1),
                 sample={"call": c["kind"], "n": n, "variant": c["variant"], "ts": c["ts"], "init": c["init"], "num_reps": c["num_reps"],
                         "stream_head": st[:3], "impl": res[:3] if res[0] != "ok" else res[2][:2]})
        inp = {"function": c["kind"], "P": c["P"], "csr": c["csr"], "sparse": bool(c["sparse"] or c["csr"]), "ts": c["ts"], "init": c["init"],
               "init_form": c["init_form"], "dress": c.get("dress", "int"), "num_reps": c["num_reps"], "stream": c["stream"], "ints": c["ints"]}
        override = "sparse_negative_init" if bc_only else None
        if bc_only:
            inp["negative_init"] = True
        rows = stored_rows(c)
        if c.get("sv") is not None:
            # state_values: independent route = index paths from a fresh chain without state_values, same scripted stream
            if res[0] == "ok":
                ci_ = dict(c, sv=None, obj=None, kind="sim_idx", init=c["init_idx"])
                ridx = run_case(ci_)
                if ridx[0] != "ok" or [[c["sv"][i] for i in r] for r in ridx[2]] != res[2] or ridx[1] != res[1]:
                    ctx.fail("state_values", "simulate with state_values is not state_values[index path]", dict(inp, state_values=c["sv"]), res[:3], ridx[:3])
                else:
                    oracle_paths(ctx, ci_, ridx, rows)
            elif not c["variant"].startswith("malformed"):
                ctx.fail("rejected", "valid call raised %s" % res[0], dict(inp, state_values=c["sv"]), res, None)
            ctx.count("sim:state_values")
            a = (chain_lit(c, csr_arrays(c) if (c["sparse"] or c["csr"]) else None), zlist(c["sv"]), zlit(c["ts"]), init_lit(c), optz(c["num_reps"]), zlist(c["ints"]), flist(st))
            svargs.append(a)
            svcases.append(tup(*(a + (res_lit(res),))))
            svmeta.append(ci)
            continue
        if res[0] == "ok" and c["variant"].startswith("malformed"):
            ctx.fail("accepted_invalid", "a call outside the documented domain (init outside [-n, n) / [0, n) for simulate, ts_length < 1, "
                     "negative num_reps) did not raise ValueError", inp, res[:3], "ValueError")
        elif res[0] == "ok":
            oracle_paths(ctx, c, res, rows, kind_override=override)
        elif res[0] in ("IndexError", "Other"):
            ctx.fail(override or ("oob_read" if res[0] == "IndexError" else "exception"),
                     "out-of-bounds read / unexpected exception in the sample-path kernel", inp, res, None)
        elif not c["variant"].startswith("malformed"):
            ctx.fail(override or "rejected", "valid call raised ValueError", inp, res, None)
        if not bc_only:
            if r_bc[0] == "IndexError":
                ctx.fail("oob_read", "out-of-bounds array read in a jitted kernel (IndexError under NUMBA_BOUNDSCHECK=1)", inp, r_bc, res)
            elif r_bc[:3] != res[:3] and not (r_bc[0] == res[0] == "ValueError"):
                ctx.fail("boundscheck_differs", "result under NUMBA_BOUNDSCHECK=1 differs from the normal run", inp, r_bc, res)
        arrays = csr_arrays(c) if (c["sparse"] or c["csr"]) else None
        ch = chain_lit(c, arrays)
        stream = flist(st)
        if c["kind"] == "mcsp":
            ini = "(inr %s)" % flist(unhx(c["init"])) if c["init_form"] == "dist" else "(inl %s)" % zlit(c["init"])
            coq["mcsp"].append(tup(ch, ini, zlit(c["ts"]), stream, res_lit(res, one_row=True)))
        else:
            a = (ch, zlit(c["ts"]), init_lit(c), optz(c["num_reps"]), zlist(c["ints"]), stream)
            args[c["kind"]].append(a)
            coq[c["kind"]].append(tup(*(a + (res_lit(res),))))
        meta[c["kind"]].append(ci)

    for kind, fn in (("sim_idx", "simulate_indices"), ("sim", "simulate")):
        bad = ctx.coq_check(fn, IMPORTS, ctype,
                            "fun c => let '(ch, ts, init, nr, drawn, stream, exp) := c in res_eqb pr_eqb (%s ch ts init nr drawn stream) exp" % fn,
                            coq[kind], chunk=60, preamble=PREAMBLE)
        for i in bad:
            c = cases[meta[kind][i]]
            ctx.mismatch("C10.Model.%s (float instance, bit-exact) vs MarkovChain.%s" % (fn, fn),
                         {k: c[k] for k in ("P", "csr", "sparse", "ts", "init", "init_form", "num_reps", "ints", "stream")},
                         results[meta[kind][i]],
                         ctx.coq_eval(IMPORTS, "%s %s" % (fn, " ".join(args[kind][i])), preamble=PREAMBLE)[-600:])
    bad = ctx.coq_check("simulate(state_values)", IMPORTS, "@chain float * list Z * Z * init_t * option Z * list Z * list float * res (bool * list (list Z))",
                        "fun c => let '(ch, sv, ts, init, nr, drawn, stream, exp) := c in res_eqb pr_eqb (simulate_sv ch sv ts init nr drawn stream) exp",
                        svcases, chunk=60, preamble=PREAMBLE)
    for i in bad:
        c = cases[svmeta[i]]
        ctx.mismatch("C10.Model.simulate_sv (float instance) vs MarkovChain.simulate with state_values",
                     {k: c[k] for k in ("P", "csr", "sparse", "sv", "ts", "init", "init_form", "num_reps", "ints", "stream")}, results[svmeta[i]],
                     ctx.coq_eval(IMPORTS, "simulate_sv %s" % " ".join(svargs[i]), preamble=PREAMBLE)[-600:])
    bad = ctx.coq_check("mc_sample_path", IMPORTS, "@chain float * (Z + list float) * Z * list float * res (list Z)",
                        "fun c => let '(ch, init, ts, stream, exp) := c in res_eqb Zs_eqb (mc_sample_path ch init ts stream) exp",
                        coq["mcsp"], chunk=60, preamble=PREAMBLE)
    for i in bad:
        c = cases[meta["mcsp"][i]]
        ctx.mismatch("C10.Model.mc_sample_path (float instance) vs markov.core.mc_sample_path",
                     {k: c[k] for k in ("P", "csr", "sparse", "ts", "init", "init_form", "stream")}, results[meta["mcsp"][i]])
    try:
        import shutil
        shutil.rmtree(tmpd)
    except Exception:
        pass


def replay(data):
    first = data.get("first") or (data.get("mismatches") or [{}])[0]
    inp = first.get("input", {})
    print("replay:", json.dumps(first)[:1500])
    if inp.get("function") in ("sim_idx", "sim", "mcsp", "simulate_indices") and "stream" in inp:
        c = dict(P=inp.get("P"), csr=inp.get("csr"), sparse=inp.get("sparse", False), kind=inp["function"] if inp["function"] != "simulate_indices" else "sim_idx",
                 ts=inp["ts"], init=inp["init"], init_form=inp.get("init_form") or ("int" if isinstance(inp["init"], int) else "list"),
                 num_reps=inp.get("num_reps"), ints=inp.get("ints") or [], stream=inp["stream"], dress=inp.get("dress", "int"))
        if inp.get("negative_init") and c["sparse"]:
            print("(sparse kernel with negative init: run under NUMBA_BOUNDSCHECK=1 to avoid a segfault)")
            if os.environ.get("NUMBA_BOUNDSCHECK") != "1":
                return 0
        print("implementation now returns:", run_case(c))
    return 0


if __name__ == "__main__" and len(sys.argv) >= 4 and sys.argv[1] == "--worker":
    worker(sys.argv[2], sys.argv[3])

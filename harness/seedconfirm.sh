#!/bin/bash
# harness/seedconfirm.sh <dir with patch.diff demo.py>  -> writes <dir>/confirmed.json
# Confirms, in a scratch worktree of /repo: demo passes without the change, fails with it,
# and the full existing suite (the 533 pinned tests; notebook tests need network) passes with it.
dir=$1
wt=/tmp/wt_confirm_$$
nb=/tmp/nb_confirm_$$
git -C /repo worktree add --detach $wt HEAD >/dev/null 2>&1 || exit 2
(cd $dir && PYTHONPATH=$wt NUMBA_CACHE_DIR=$nb timeout 900 /venv/bin/python demo.py >/dev/null 2>&1); clean=$?
applies=1
git -C $wt apply "$dir/patch.diff" 2>/dev/null || git -C $wt apply --3way "$dir/patch.diff" 2>/dev/null || applies=0
rm -rf $nb
(cd $dir && PYTHONPATH=$wt NUMBA_CACHE_DIR=$nb timeout 900 /venv/bin/python demo.py >/dev/null 2>&1); mutated=$?
res=$(cd $wt && PYTHONPATH=$wt NUMBA_CACHE_DIR=$nb timeout 2400 /venv/bin/python -m pytest -q -p no:cacheprovider --timeout=900 --deselect quantecon/util/tests/test_notebooks.py 2>&1 | tail -1)
git -C /repo worktree remove --force $wt; rm -rf $nb
printf '{"patch_applies": %s, "demo_exit_clean": %s, "demo_exit_with_change": %s, "suite_with_change": "%s", "repo_head": "%s"}\n' "$applies" "$clean" "$mutated" "$res" "$(git -C /repo rev-parse --short HEAD)" > $dir/confirmed.json
cat $dir/confirmed.json

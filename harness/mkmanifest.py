#!/usr/bin/env python3
"""Assemble /verif/MANIFEST.json from harness/meta/Cxx.json fragments.
Properties without a fragment are listed under not_applicable with the reason in meta/NOT_CLAIMED.json."""
import json, os, glob
HERE = os.path.dirname(os.path.abspath(__file__))
VERIF = os.path.abspath(os.path.join(HERE, ".."))
props = [json.loads(l)["id"] for l in open(os.path.join(VERIF, "properties.jsonl")) if l.strip()]
not_claimed = json.load(open(os.path.join(HERE, "meta", "NOT_CLAIMED.json")))
checks, na = [], []
for pid in props:
    f = os.path.join(HERE, "meta", pid + ".json")
    if os.path.exists(f):
        m = json.load(open(f))
        checks.append({
            "property_id": pid,
            "quick_cmd": "./check %s --tier quick" % pid,
            "thorough_cmd": "./check %s --tier thorough" % pid,
            "evidence_file": "/verif/evidence/%s.json" % pid,
            "replay_cmd_template": "./check %s --replay {path}" % pid,
            "engine": "coq-model+correspondence",
            "level_claimed": {"category": "proof", "text": m["level_text"], "design_ref": m.get("design_ref", "DESIGN.md section 7, " + pid)},
            "level_note": m["level_note"],
            "technique": m.get("technique", "machine-checked Coq proof about an executable model + in-Coq correspondence check against the implementation"),
        })
    else:
        na.append({"property_id": pid, "reason": not_claimed.get(pid, "no check built yet (work in progress, see DESIGN.md section 9)")})
hooks = json.load(open(os.path.join(HERE, "meta", "HOOKS.json")))
man = {
    "version": 1,
    "setup_cmd": "./setup.sh",
    "hooks": hooks,
    "engines": [{"name": "coq-model+correspondence", "path": "/verif/coq + /verif/harness",
                 "serves_properties": [c["property_id"] for c in checks],
                 "kind_free_text": "Coq 8.16.1 development (executable Gallina models, theorems, Print Assumptions) tied to /repo by a correspondence check that evaluates the model with vm_compute on the inputs the implementation ran, plus a constants translator and independent exact oracles"}],
    "checks": checks,
    "not_applicable": na,
    "notes": "Every check: (1) regenerates coq/Gen/Consts.v from /repo, rebuilds the property's proof cone, parses Print Assumptions; (2) runs the implementation from /repo's working tree and the Coq model on the same inputs, comparing inside Coq; (3) evaluates an independent oracle of the property on the implementation's output. See DESIGN.md.",
}
json.dump(man, open(os.path.join(VERIF, "MANIFEST.json"), "w"), indent=1)
print("MANIFEST: %d checks, %d not_applicable" % (len(checks), len(na)))

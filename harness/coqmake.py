#!/venv/bin/python
"""Build Coq targets under the shared lock: harness/coqmake.py C10/Props.vo [more targets]
(regenerates Gen/Consts.v and _CoqProject/Makefile first). Prints make's output."""
import sys, os
sys.path.insert(0, os.path.dirname(os.path.abspath(__file__)))
import common
with common.Lock(os.path.join(common.WORK, ".coq.lock")):
    common.ensure_project()
    rc, out = common._run(["make", "-j8"] + sys.argv[1:], cwd=common.COQ, timeout=3000)
print(out[-6000:])
sys.exit(rc)

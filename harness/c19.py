"""C19: closed-form statistics agree with their definitions (gini / lorenz / ECDF / BetaBinomial / ARMA /
hamilton_filter / periodogram)."""
import math, cmath, warnings
import numpy as np
from common import *

IMPORTS = "From QE Require Import C19.Model."
PRE = """
Definition oQ_close (tol : Q) (a b : option Q) : bool :=
  match a, b with None, None => true | Some x, Some y => Qclose tol x y | _, _ => false end.
Definition oQs_close (tol : Q) := list_eqb (oQ_close tol).
Definition QQs_close (tol : Q) := list_eqb (fun a b : Q * Q => Qclose tol (fst a) (fst b) && Qclose tol (snd a) (snd b)).
Definition sgn (x : Q) : Z := Z.sgn (Qnum x).
"""
FINISH = dict(level="proof", technique_note=(
    "Coq theorems (coq/C19/Props.v) about the executable exact-rational model coq/C19/Model.v; the model is evaluated "
    "with vm_compute on the inputs the implementation ran and compared in Q with stated tolerances (1e-12 gini/lorenz/ecdf, "
    "1e-11 relative pdf, 1e-9 impulse response, 1e-8 hamilton); independent Fraction/numpy oracle of the property on the "
    "implementation's output. non-trivial = sample with >=3 observations not all equal / n>=2 / p+q>=2 / p>=1 or h>=2 / n>=3"))

T12 = "(1 # 1000000000000)"
T11 = "(1 # 100000000000)"
T9 = "(1 # 1000000000)"
T8 = "(1 # 100000000)"


# ------------------------------------------------------------------ generators
def gen_sample(rng, n):
    """positive rationals (exact floats) with ties and zeros, not all zero"""
    kind = rng.randrange(5)
    if kind == 0:      # sixteenths, many ties
        y = [rng.randrange(0, 40) / 16.0 for _ in range(n)]
    elif kind == 1:    # heavy tail (Pareto-like), dyadic
        y = [math.floor(64 * (1.0 / (1 - rng.random()) ** 0.7)) / 64.0 for _ in range(n)]
    elif kind == 2:    # zeros planted
        y = [0.0 if rng.random() < 0.3 else rng.randrange(1, 1000) / 8.0 for _ in range(n)]
    elif kind == 3:    # arbitrary floats (short samples: exact sums of 53-bit dyadics are costly in Coq) / 1024ths
        y = [rng.uniform(0.0, 10.0) for _ in range(n)] if n <= 24 else [rng.randrange(0, 10241) / 1024.0 for _ in range(n)]
    else:              # constant or two-valued
        a, b = rng.randrange(1, 50) / 4.0, rng.randrange(1, 50) / 4.0
        y = [a if rng.random() < 0.5 else b for _ in range(n)]
    if sum(y) == 0:
        y[rng.randrange(n)] = 1.5
    return y


def stable_poly(rng, k):
    """coefficients c_1..c_k of prod (1 - r_i z) with |r_i| <= 0.9: roots of 1 - c(z) outside the unit circle"""
    poly = np.array([1.0])
    i = 0
    while i < k:
        if k - i >= 2 and rng.random() < 0.5:
            r = rng.uniform(0.1, 0.9); th = rng.uniform(0, math.pi)
            poly = np.convolve(poly, [1, -2 * r * math.cos(th), r * r]); i += 2
        else:
            r = rng.uniform(-0.9, 0.9)
            poly = np.convolve(poly, [1, -r]); i += 1
    # round to 1/1024 so that the exact model works with short rationals (stability margin is kept)
    return [round(float(c) * 1024) / 1024 for c in poly[1:]]


def param_lit(v):
    return "(Scalar %s)" % qlit(frac(v)) if np.isscalar(v) else "(Vec %s)" % qlist([frac(x) for x in v])


def oq(v):
    return "None" if v != v else "(Some %s)" % qlit(frac(v))


def oqlist(a):
    return "[" + "; ".join(oq(float(v)) for v in a) + "]" if len(a) else "(@nil (option Q))"


# ------------------------------------------------------------------ oracles (independent of the Coq model)
def oracle_inequality(ctx, y, g, cp, ci, rng, gini_coefficient, lorenz_curve):
    n = len(y)
    Y = sorted(frac(v) for v in y)
    S = sum(Y)
    inp = {"function": "gini_coefficient", "y": y}
    # mean absolute difference over twice the mean, via the order-statistics formula
    gdef = sum((2 * (i + 1) - n - 1) * Y[i] for i in range(n)) / (n * S)
    if abs(frac(g) - gdef) > Fraction(1, 10**12):
        ctx.fail("gini_def", "gini_coefficient differs from mean absolute difference / (2 mean)", inp, g, float(gdef))
    yp = list(y); rng.shuffle(yp)
    gp = float(gini_coefficient(np.array(yp)))
    if abs(gp - g) > 1e-12:
        ctx.fail("gini_perm", "gini_coefficient not permutation invariant", dict(inp, perm=yp), gp, g)
    c = rng.choice([0.25, 2.0, 3.0, 1024.0, 0.1])
    gs = float(gini_coefficient(np.array(y) * c))
    if abs(gs - g) > 1e-12:
        ctx.fail("gini_scale", "gini_coefficient not scale invariant", dict(inp, scale=c), gs, g)
    inp = {"function": "lorenz_curve", "y": y}
    if len(cp) != n + 1 or len(ci) != n + 1:
        ctx.fail("lorenz_shape", "wrong length", inp, [len(cp), len(ci)], n + 1)
        return
    if cp[0] != 0 or ci[0] != 0 or abs(cp[-1] - 1) > 1e-15 or abs(ci[-1] - 1) > 1e-12:
        ctx.fail("lorenz_shape", "curve does not run from (0,0) to (1,1)", inp, [cp[0], ci[0], cp[-1], ci[-1]], [0, 0, 1, 1])
    pre = [Fraction(0)]
    for v in Y:
        pre.append(pre[-1] + v)
    for i in range(n + 1):
        if abs(frac(cp[i]) - Fraction(i, n)) > Fraction(1, 10**15):
            ctx.fail("lorenz_shape", "cum_people[i] != i/n", dict(inp, i=i), cp[i], i / n)
            break
        if abs(frac(ci[i]) - pre[i] / S) > Fraction(1, 10**12):
            ctx.fail("lorenz_shape", "cum_income[i] is not the share of the i poorest", dict(inp, i=i), ci[i], float(pre[i] / S))
            break
    inc = [ci[i + 1] - ci[i] for i in range(n)]
    if any(d < -1e-13 for d in inc) or any(inc[i + 1] - inc[i] < -1e-12 for i in range(n - 1)):
        ctx.fail("lorenz_shape", "curve not non-decreasing and convex", inp, inc[:10], None)
    area = sum((frac(cp[i + 1]) - frac(cp[i])) * (frac(ci[i + 1]) + frac(ci[i])) / 2 for i in range(n))
    if abs(frac(g) - (1 - 2 * area)) > Fraction(1, 10**12):
        ctx.fail("gini_lorenz", "gini != 1 - 2 * area under the Lorenz curve", {"function": "gini_coefficient", "y": y}, g, float(1 - 2 * area))


def exact_psi(phi, theta, n):
    ph = [frac(x) for x in phi]; th = [frac(x) for x in theta]
    ps = []
    for j in range(n):
        v = Fraction(1) if j == 0 else (th[j - 1] if j - 1 < len(th) else Fraction(0))
        for i in range(1, j + 1):
            if i - 1 < len(ph):
                v += ph[i - 1] * ps[j - i]
        ps.append(v)
    return ps


def float_psi(phi, theta, n):
    ps = np.zeros(n)
    for j in range(n):
        v = 1.0 if j == 0 else (theta[j - 1] if j - 1 < len(theta) else 0.0)
        for i in range(1, min(j, len(phi)) + 1):
            v += phi[i - 1] * ps[j - i]
        ps[j] = v
    return ps


def arma_formula_check(ctx, inp, op, args, res, phi_l, theta_eff, sigma):
    """exact recursion / formula oracle for one call on an ARMA object whose CURRENT parameters are phi_l, theta_eff, sigma"""
    if op == "impulse_response":
        (n,) = args
        psi = [float(v) for v in res]
        if len(psi) != n or not all(math.isfinite(v) for v in psi):
            ctx.fail("arma_impulse", "impulse response has wrong length / non-finite values", inp, psi[:8], None); return
        ex = exact_psi(phi_l, theta_eff, n)
        if any(abs(frac(a) - e) > Fraction(1, 10**9) * (1 + abs(e)) for a, e in zip(psi, ex)):
            ctx.fail("arma_impulse", "impulse response violates psi_0=1 / the ARMA recursion", inp, psi[:8], [float(e) for e in ex[:8]])
    elif op == "spectral_density":
        two_pi, nres = args
        w, spect = res
        phi_a, th_a = np.array(phi_l, float), np.array(theta_eff, float)
        num = 1 + sum(th_a[k] * np.exp(-1j * w * (k + 1)) for k in range(len(th_a)))
        den = 1 - sum(phi_a[k] * np.exp(-1j * w * (k + 1)) for k in range(len(phi_a)))
        exp_s = sigma ** 2 * np.abs(num / den) ** 2
        wexp = np.arange(nres) * ((2 * math.pi if two_pi else math.pi) / nres)
        if (len(w) != nres or np.max(np.abs(spect.real - exp_s) / (1 + exp_s)) > 1e-9 or np.max(np.abs(spect.imag)) > 1e-9
                or np.max(np.abs(w - wexp)) > 1e-12):
            ctx.fail("arma_spectral", "spectral density != sigma^2 |theta(e^-iw)/phi(e^-iw)|^2", inp, np.asarray(spect).real[:5].tolist(), exp_s[:5].tolist())
    elif op == "autocovariance":
        (K,) = args
        acov = np.asarray(res)
        long_psi = float_psi(phi_l, theta_eff, 2500)
        exp_a = np.array([sigma ** 2 * float(np.dot(long_psi[:2500 - k], long_psi[k:])) for k in range(K)])
        if len(acov) != K or np.max(np.abs(acov - exp_a) / (1 + np.abs(exp_a))) > 1e-9:
            ctx.fail("arma_autocov", "autocovariance != sigma^2 sum_j psi_j psi_{j+k}", inp, acov[:5].tolist(), exp_a[:5].tolist())
    elif op == "simulation":
        Tn, seed = args
        sim = np.asarray(res)
        u = np.random.RandomState(seed).standard_normal((Tn, 1)).flatten() * sigma
        ps = float_psi(phi_l, theta_eff, Tn)
        exp_x = np.array([sum(ps[j] * u[t - j] for j in range(t + 1)) for t in range(Tn)])
        if len(sim) != Tn or np.max(np.abs(sim - exp_x) / (1 + np.abs(exp_x))) > 1e-9:
            ctx.fail("arma_simulation", "simulation is not sum_j psi_j eps_{t-j} of the seeded shocks", inp, sim[:5].tolist(), exp_x[:5].tolist())


def arma_do(obj, op, args):
    if op == "impulse_response":
        return obj.impulse_response(args[0])
    if op == "spectral_density":
        return obj.spectral_density(two_pi=args[0], res=args[1])
    if op == "autocovariance":
        return obj.autocovariance(args[0])
    return obj.simulation(args[0], random_state=args[1])


def same_result(a, b):
    if isinstance(a, tuple):
        return len(a) == len(b) and all(same_result(x, y) for x, y in zip(a, b))
    a, b = np.asarray(a), np.asarray(b)
    return a.shape == b.shape and bool(np.allclose(a, b, rtol=1e-12, atol=1e-12, equal_nan=False))


# ------------------------------------------------------------------ hardening: dress / non-mutation / optional arguments
def dressed_samples(vals, rng=None):
    """the same integer-valued sample in many container/dtype/layout forms"""
    a = np.array(vals, dtype=np.float64)
    big = np.full((len(vals), 3), -7.0); big[:, 1] = vals
    dbl = np.repeat(a, 2); dbl[1::2] = -3.0
    return {"list": [int(v) for v in vals], "tuple": tuple(int(v) for v in vals), "list_float": [float(v) for v in vals],
            "int64": np.array(vals, dtype=np.int64), "int32": np.array(vals, dtype=np.int32), "uint8": np.array(vals, dtype=np.uint8),
            "float32": np.array(vals, dtype=np.float32), "column_of_2d": big[:, 1], "strided": dbl[::2],
            "negstride": np.array(vals[::-1], dtype=np.float64)[::-1], "column_vector": a.reshape(-1, 1)}


def snapshot(v):
    return np.array(v, copy=True) if isinstance(v, np.ndarray) else (list(v) if isinstance(v, list) else v)


def unchanged(v, snap):
    if isinstance(v, np.ndarray):
        return v.dtype == snap.dtype and v.shape == snap.shape and bool(np.array_equal(v, snap))
    return v == snap


def flat_results(r):
    if isinstance(r, (tuple, list)):
        return [np.asarray(x, dtype=float) if not np.iscomplexobj(x) else np.asarray(x) for x in r]
    return [np.asarray(r, dtype=float)]


def close_results(r, ref, tol):
    a, b = flat_results(r), flat_results(ref)
    return len(a) == len(b) and all(x.shape == y.shape and bool(np.allclose(x, y, rtol=tol, atol=tol, equal_nan=True)) for x, y in zip(a, b))


def dress_call(ctx, fname, form, fn, ref, inputs, tol=1e-12, detail=None):
    """call fn() (built on dressed inputs); must not raise, must equal the canonical float64 result `ref`,
    must leave every input in `inputs` unchanged and must not return memory shared with an input"""
    ctx.count("dress:" + form); ctx.count("dress_fn:" + fname)
    inp = {"function": fname, "dress": form, "detail": jsonable(detail)}
    ctx.case(("dress", fname, form, json.dumps(jsonable(detail), sort_keys=True)), nontrivial=True)
    snaps = [snapshot(v) for v in inputs]
    try:
        with warnings.catch_warnings():
            warnings.simplefilter("ignore")
            import io, contextlib
            with contextlib.redirect_stdout(io.StringIO()):
                r = no_cache_race(fn)
    except Exception as e:      # noqa
        ctx.fail("raises_on_admissible_input", "%s raised %s on a %s input: %s" % (fname, type(e).__name__, form, str(e)[:150]), inp, type(e).__name__, "a value")
        return None
    if not close_results(r, ref, tol):
        ctx.fail("dress_result", "%s on a %s input differs from the canonical float64 call" % (fname, form), inp,
                 [x.ravel()[:4].real.tolist() for x in flat_results(r)][:3], [x.ravel()[:4].real.tolist() for x in flat_results(ref)][:3])
    if not all(unchanged(v, s) for v, s in zip(inputs, snaps)):
        ctx.fail("input_mutated", "%s modified its %s input" % (fname, form), inp, None, None)
    for x in (r if isinstance(r, (tuple, list)) else [r]):
        if isinstance(x, np.ndarray) and any(isinstance(v, np.ndarray) and np.shares_memory(x, v) for v in inputs):
            ctx.fail("result_aliases_input", "%s returned memory shared with its input" % fname, inp, None, None)
    return r


# ------------------------------------------------------------------ result aliasing across calls (keep-and-recheck / scribble / shares_memory)
def _arrays_of(r):
    """all ndarrays reachable from a result: arrays, tuples/lists of arrays, MarkovChain-like objects (P, state_values)"""
    if isinstance(r, np.ndarray):
        return [r]
    if isinstance(r, (tuple, list)):
        return [a for x in r for a in _arrays_of(x)]
    if hasattr(r, "P") and hasattr(r, "state_values"):
        return [a for a in (r.P, r.state_values) if isinstance(a, np.ndarray)]
    return []


def _same(a, b):
    return a.shape == b.shape and bool(np.array_equal(a, b, equal_nan=True) if a.dtype.kind not in "fc" else np.allclose(a, b, rtol=1e-13, atol=1e-300, equal_nan=True))


def alias_probe(ctx, fname, label, call, others=(), make=None, guards=(), inp=None):
    """call(obj) -> result; make() -> fresh object with equal parameters (None for plain functions); others: closures making LATER calls with
    the same shapes but different inputs (buffers are usually cached per shape); guards: closures returning arrays (attributes / arguments)
    that must be unchanged and must not share memory with results."""
    inp = dict(inp or {}, function=fname, aliasing=label)
    ctx.count("alias:" + fname); ctx.case(("alias", fname, label, json.dumps(jsonable(inp), sort_keys=True)[:300]), nontrivial=True)
    try:
        with warnings.catch_warnings():
            warnings.simplefilter("ignore")
            call_, make_ = call, make
            call = lambda o: no_cache_race(lambda: call_(o))
            if make_:
                make = lambda: no_cache_race(make_)
            obj = make() if make else None
            g0 = [np.array(g(obj), copy=True) for g in guards]
            r1 = _arrays_of(call(obj)); c1 = [np.array(a, copy=True) for a in r1]
            for oc in others:
                oc(obj)
            r2 = _arrays_of(call(obj))
            if not (len(r1) == len(r2) and all(_same(a, c) for a, c in zip(r2, c1))):
                ctx.fail("result_changes_on_repeat", "%s (%s): a repeated call returns different values" % (fname, label), inp, [a.ravel()[:4].tolist() for a in r2][:2], [a.ravel()[:4].tolist() for a in c1][:2])
            if not all(_same(a, c) for a, c in zip(r1, c1)):
                ctx.fail("result_overwritten_by_later_call", "%s (%s): an array returned earlier was changed by later calls" % (fname, label), inp,
                         [a.ravel()[:4].tolist() for a in r1][:2], [a.ravel()[:4].tolist() for a in c1][:2])
            if any(np.shares_memory(a, b) for a in r1 for b in r2):
                ctx.fail("results_alias_each_other", "%s (%s): results of two calls share memory" % (fname, label), inp, None, None)
            garr = [g(obj) for g in guards]
            if any(isinstance(g, np.ndarray) and np.shares_memory(a, g) for a in r1 + r2 for g in garr):
                ctx.fail("result_aliases_internal_state", "%s (%s): a result shares memory with an argument / stored attribute" % (fname, label), inp, None, None)
            # scribble over everything that was returned, then ask again (same object and a fresh one)
            for a in r1 + r2:
                if a.flags.writeable:
                    a[...] = (-7 if a.dtype.kind in "iu" else -12345.678)
            if not all(_same(np.asarray(g(obj)), s) for g, s in zip(guards, g0)):
                ctx.fail("result_aliases_internal_state", "%s (%s): editing a returned array in place changed an argument / stored attribute" % (fname, label), inp, None, None)
            r3 = _arrays_of(call(obj))
            r4 = _arrays_of(call(make())) if make else r3
            for tag, rr in (("the same object", r3), ("a fresh object with equal parameters", r4)):
                if not (len(rr) == len(c1) and all(_same(a, c) for a, c in zip(rr, c1))):
                    ctx.fail("result_aliases_internal_state", "%s (%s): after the caller edited a returned array in place, a later call on %s returns corrupted values" % (fname, label, tag),
                             inp, [a.ravel()[:4].tolist() for a in rr][:2], [a.ravel()[:4].tolist() for a in c1][:2])
    except Exception as e:      # noqa
        ctx.fail("raises_on_admissible_input", "%s (%s) raised %s during the aliasing probe: %s" % (fname, label, type(e).__name__, str(e)[:150]), inp, type(e).__name__, "a value")


def no_cache_race(fn, tries=4):
    """The numba on-disk cache (NUMBA_CACHE_DIR) is shared by concurrently running checks; a transient OSError raised while numba reads or
    writes its index there is infrastructure noise, not behaviour of the implementation: retry; a persistent OSError is still raised."""
    import time as _t
    for k in range(tries):
        try:
            return fn()
        except OSError as e:
            if k == tries - 1 or "numba" not in str(e).lower():
                raise
            _t.sleep(0.5 * (k + 1))


def guarded(ctx, inp, fn):
    """run the implementation; an exception on an admissible input is itself a violation"""
    try:
        return no_cache_race(fn)
    except Exception as e:       # noqa
        ctx.fail("raises_on_admissible_input", "%s raised %s: %s" % (inp.get("function"), type(e).__name__, str(e)[:200]), inp, type(e).__name__, "a value")
        return None


# ------------------------------------------------------------------ run
def run(ctx):
    from quantecon._inequality import gini_coefficient, lorenz_curve
    from quantecon._ecdf import ECDF
    from quantecon.distributions import BetaBinomial
    from quantecon._arma import ARMA
    from quantecon._filter import hamilton_filter
    from quantecon._estspec import periodogram
    thorough = ctx.tier == "thorough"
    rng = ctx.rng
    ctx.proofs()
    try:        # gini_coefficient is parallel=True: a small thread team avoids stalls on a shared machine
        import numba
        numba.set_num_threads(min(2, numba.config.NUMBA_NUM_THREADS))
    except Exception:
        pass

    # ================= gini / lorenz / ecdf
    lens = ([1, 1, 2, 2, 3, 4, 5, 199, 200] + [rng.randrange(1, 201) for _ in range(200 if thorough else 8)]
            + [rng.randrange(2, 41) for _ in range(200 if thorough else 25)])
    cases, meta = [], []
    for n in lens:
        y = gen_sample(rng, n)
        arr = np.array(y)
        srt = sorted(y)
        xs = [srt[0] - 1.0, srt[-1], srt[-1] + 0.5, rng.choice(y), rng.choice(y), (srt[0] + srt[-1]) / 2, rng.uniform(0, 10)]
        res = guarded(ctx, {"function": "gini_coefficient", "y": y},
                      lambda: (float(gini_coefficient(arr)), lorenz_curve(arr), [float(v) for v in ECDF(y)(np.array(xs))]))
        if res is None:
            continue
        g, (cp, ci), ev = res
        cp, ci = [float(v) for v in cp], [float(v) for v in ci]
        for x, v in zip(xs, ev):
            k = sum(1 for o in y if o <= x)
            if v != k / n:
                ctx.fail("ecdf_spec", "ECDF(x) is not the fraction of observations <= x", {"function": "ECDF", "obs": y, "x": x}, v, k / n)
        ties = len(set(y)) < n
        ctx.count("ineq:len=%s" % ("1" if n == 1 else "2-9" if n < 10 else "10-99" if n < 100 else "100-200"))
        ctx.count("ineq:ties" if ties else "ineq:distinct"); ctx.count("ineq:zeros" if 0.0 in y else "ineq:nozero")
        ctx.case(("ineq", tuple(y)), nontrivial=(n >= 3 and len(set(y)) > 1), sample={"gini_coefficient": y[:8], "n": n, "impl": g})
        oracle_inequality(ctx, y, g, cp, ci, rng, gini_coefficient, lorenz_curve)
        cases.append(tup(qlist([frac(v) for v in y]), qlit(frac(g)), qlist([frac(v) for v in cp]), qlist([frac(v) for v in ci]),
                         "[" + "; ".join(tup(qlit(frac(x)), qlit(frac(v))) for x, v in zip(xs, ev)) + "]"))
        meta.append(y)
    ok = ("fun c => let '(y, g, cp, ci, ev) := c in let L := lorenz y in let gm := gini y in "
          "Qclose %s gm g && Qs_close %s (fst L) cp && Qs_close %s (snd L) ci && "
          "forallb (fun xv => Qclose %s (ecdf y (fst xv)) (snd xv)) ev && "
          "Qclose %s gm (1 - 2 * trapz (fst L) (snd L))" % (T12, T12, T12, T12, T12))
    bad = ctx.coq_check("gini_lorenz_ecdf", IMPORTS, "list Q * Q * list Q * list Q * list (Q * Q)", ok, cases, chunk=6, preamble=PRE)
    for i in bad:
        ctx.mismatch("C19.Model.gini/lorenz/ecdf vs _inequality/_ecdf", {"y": meta[i]},
                     float(gini_coefficient(np.array(meta[i]))))

    # ================= BetaBinomial
    cases, meta = [], []
    trip = [(1, Fraction(1, 2), Fraction(1, 2)), (60, Fraction(3, 40), Fraction(799, 40)), (60, Fraction(799, 40), Fraction(3, 40)),
            (100 if thorough else 60, Fraction(5), Fraction(5)), (2, Fraction(1), Fraction(3))]
    for _ in range(200 if thorough else 40):
        trip.append((rng.randrange(1, 61), Fraction(rng.randrange(3, 800), 40), Fraction(rng.randrange(3, 800), 40)))
    for n, a, b in trip:
        inp = {"function": "BetaBinomial", "n": n, "a": str(a), "b": str(b)}
        d = BetaBinomial(n, float(a), float(b))
        res = guarded(ctx, inp, lambda: ([float(v) for v in d.pdf()], float(d.mean), float(d.var), float(d.std), float(d.skew)))
        if res is None:
            continue
        pdf, mean, var, std, skew = res
        ctx.case(("bb", n, str(a), str(b)), nontrivial=(n >= 2 and a != b), sample={"BetaBinomial": [n, float(a), float(b)], "mean": mean, "var": var, "skew": skew})
        ctx.count("bb:n=%s" % ("1-5" if n <= 5 else "6-30" if n <= 30 else "31+")); ctx.count("bb:a<b" if a < b else "bb:a>=b")
        # oracle: moments of the implementation's own pdf
        tot = math.fsum(pdf)
        m1 = math.fsum(k * p for k, p in enumerate(pdf))
        m2 = math.fsum((k - m1) ** 2 * p for k, p in enumerate(pdf))
        m3 = math.fsum((k - m1) ** 3 * p for k, p in enumerate(pdf))
        if len(pdf) != n + 1 or abs(tot - 1) > 1e-11 or min(pdf) < 0:
            ctx.fail("bb_pdf_sum", "pdf does not sum to one", inp, tot, 1.0)
        if abs(mean - m1) > 1e-10 * (1 + abs(m1)):
            ctx.fail("bb_mean", "mean differs from first moment of pdf", inp, mean, m1)
        if abs(var - m2) > 1e-10 * (1 + abs(m2)) or abs(std - math.sqrt(m2)) > 1e-10 * (1 + math.sqrt(m2)):
            ctx.fail("bb_var", "var/std differ from second central moment of pdf", inp, [var, std], m2)
        sk = m3 / m2 ** 1.5
        if abs(skew - sk) > 1e-8 * (1 + abs(sk)):
            ctx.fail("bb_skew", "skew differs from standardized third moment of pdf", inp, skew, sk)
        cases.append(tup("%d%%nat" % n, qlit(a), qlit(b), qlist([frac(v) for v in pdf]), qlit(frac(mean)), qlit(frac(var)), qlit(frac(skew))))
        meta.append(inp)
    ok = ("fun c => let '(n, a, b, pdf, mean, var, skew) := c in "
          "Qs_relclose %s (bb_pdf n a b) pdf && Qclose %s (bb_mean n a b) mean && Qclose %s (bb_var n a b) var && "
          "Qclose %s (skew * skew) (bb_skew_t1 n a b * bb_skew_t1 n a b * bb_skew_t2sq n a b) && "
          "Z.eqb (sgn skew) (sgn (bb_skew_t1 n a b))" % (T11, T12, T12, T11))
    bad = ctx.coq_check("betabinomial", IMPORTS, "nat * Q * Q * list Q * Q * Q * Q", ok, cases, chunk=6, preamble=PRE)
    for i in bad:
        ctx.mismatch("C19.Model.bb_pdf/mean/var/skew vs distributions.BetaBinomial", meta[i])

    # ================= ARMA
    cases, meta = [], []
    orders = [(p, q) for p in range(1, 5) for q in range(0, 5)] * (3 if thorough else 1)
    orders += [(2, 1), (3, 1), (4, 1), (4, 2), (1, 3), (2, 2), (0, 2)]
    fixed = [([0.5, 0.2], [0.3], 1.0)]     # the D6 witness
    for (p, q) in orders:
        fixed.append(([-c for c in stable_poly(rng, p)], stable_poly(rng, q), rng.choice([1.0, 0.5, 2.0, 1.25])))
    with warnings.catch_warnings():
        warnings.simplefilter("ignore")
        for phi_l, theta_l, sigma in fixed:
            p, q = len(phi_l), len(theta_l)
            phi = phi_l[0] if (p == 1 and rng.random() < 0.6) else list(phi_l)
            if q == 0:
                theta = None            # default theta=0 (scalar)
                theta_eff, theta_arg = [0.0], 0
            else:
                theta = theta_l[0] if (q == 1 and rng.random() < 0.6) else list(theta_l)
                theta_eff, theta_arg = theta_l, theta
            arma = ARMA(phi, sigma=sigma) if theta is None else ARMA(phi, theta, sigma)
            n = rng.choice([2, 3, 5, 12, 30, 40])   # impulse_length=1: scipy.signal.dimpulse itself returns [nan]
            psi = [float(v) for v in arma.impulse_response(n)]
            inp = {"function": "ARMA", "phi": phi, "theta": theta_arg, "sigma": sigma, "impulse_length": n}
            rel = "p<q" if p < len(theta_eff) else "p=q" if p == len(theta_eff) else "p>q"
            ctx.count("arma:" + rel); ctx.count("arma:phi_scalar" if np.isscalar(phi) else "arma:phi_list")
            ctx.count("arma:theta_scalar" if np.isscalar(theta_arg) else "arma:theta_list")
            ctx.case(("arma", str(phi), str(theta_arg), sigma, n), nontrivial=(p + q >= 2), sample={"ARMA": inp, "psi": psi[:5]})
            # oracle 1: psi_0 = 1 and the ARMA recursion, on the implementation's output
            if not all(math.isfinite(v) for v in psi):
                ctx.fail("arma_impulse", "impulse response contains non-finite values", inp, psi[:8], None)
                continue
            ex = exact_psi(phi_l, theta_eff, n)
            if len(psi) != n or any(abs(frac(a) - e) > Fraction(1, 10**9) * (1 + abs(e)) for a, e in zip(psi, ex)):
                ctx.fail("arma_impulse", "impulse response violates psi_0=1 / the ARMA recursion", inp, psi[:8], [float(e) for e in ex[:8]])
            # oracle 2: spectral density
            phi_a, th_a = np.array(phi_l, float), np.array(theta_eff, float)
            for two_pi in (True, False):
                w, spect = arma.spectral_density(two_pi=two_pi, res=64)
                num = 1 + sum(th_a[k] * np.exp(-1j * w * (k + 1)) for k in range(len(th_a)))
                den = 1 - sum(phi_a[k] * np.exp(-1j * w * (k + 1)) for k in range(len(phi_a)))
                exp_s = sigma ** 2 * np.abs(num / den) ** 2
                wexp = np.arange(64) * ((2 * math.pi if two_pi else math.pi) / 64)
                if (np.max(np.abs(spect.real - exp_s) / (1 + exp_s)) > 1e-9 or np.max(np.abs(spect.imag)) > 1e-9
                        or np.max(np.abs(w - wexp)) > 1e-12):
                    ctx.fail("arma_spectral", "spectral density != sigma^2 |theta(e^-iw)/phi(e^-iw)|^2", dict(inp, two_pi=two_pi),
                             spect.real[:5].tolist(), exp_s[:5].tolist())
            # oracle 3: autocovariance = sigma^2 sum_j psi_j psi_{j+k}
            K = rng.choice([1, 8, 16])
            acov = arma.autocovariance(K)
            long_psi = float_psi(phi_l, theta_eff, 2500)
            exp_a = np.array([sigma ** 2 * float(np.dot(long_psi[:2500 - k], long_psi[k:])) for k in range(K)])
            if len(acov) != K or np.max(np.abs(acov - exp_a) / (1 + np.abs(exp_a))) > 1e-9:
                ctx.fail("arma_autocov", "autocovariance != sigma^2 sum_j psi_j psi_{j+k}", dict(inp, num_autocov=K), acov[:5].tolist(), exp_a[:5].tolist())
            # oracle 4: simulation is the MA(infinity) filter of the shocks drawn from the given seed
            Tn = rng.choice([5, 30])
            seed = rng.randrange(10**6)
            sim = arma.simulation(Tn, random_state=seed)
            u = np.random.RandomState(seed).standard_normal((Tn, 1)).flatten() * sigma
            ps = float_psi(phi_l, theta_eff, Tn)
            exp_x = np.array([sum(ps[j] * u[t - j] for j in range(t + 1)) for t in range(Tn)])
            if len(sim) != Tn or np.max(np.abs(sim - exp_x) / (1 + np.abs(exp_x))) > 1e-9:
                ctx.fail("arma_simulation", "simulation is not sum_j psi_j eps_{t-j} of the seeded shocks", dict(inp, ts_length=Tn, seed=seed),
                         sim[:5].tolist(), exp_x[:5].tolist())
            cases.append(tup(param_lit(phi), param_lit(theta_arg), "%d%%nat" % n, qlist([frac(v) for v in psi])))
            meta.append(inp)
    ok = ("fun c => let '(phi, theta, n, psi) := c in match impulse_response phi theta n with "
          "Some l => Qs_close %s l psi | None => false end" % T9)
    bad = ctx.coq_check("arma_impulse_response", IMPORTS, "param * param * nat * list Q", ok, cases, chunk=8, preamble=PRE)
    for i in bad:
        ctx.mismatch("C19.Model.impulse_response (set_params + series division) vs _arma.ARMA.impulse_response", meta[i])

    # ================= operation SEQUENCES on one ARMA object: setters interleaved with calls; after every call the result
    # must equal that of a FRESH ARMA(phi, theta, sigma) with the current parameters and satisfy the formula oracle
    cases, meta = [], []
    ops_all = ["impulse_response", "spectral_density", "autocovariance", "simulation"]

    def draw_params():
        p, q = rng.randrange(1, 5), rng.randrange(0, 5)
        phi_l = [-c for c in stable_poly(rng, p)]
        theta_l = stable_poly(rng, q) if q else [0.0]
        phi = phi_l[0] if (p == 1 and rng.random() < 0.5) else list(phi_l)
        theta = theta_l[0] if (len(theta_l) == 1 and rng.random() < 0.5) else list(theta_l)
        return phi, theta

    def draw_args(op):
        if op == "impulse_response":
            return (rng.choice([2, 3, 8, 20]),)
        if op == "spectral_density":
            return (rng.random() < 0.5, 32)
        if op == "autocovariance":
            return (rng.choice([1, 4, 16]),)
        return (rng.choice([5, 20]), rng.randrange(10**6))

    with warnings.catch_warnings():
        warnings.simplefilter("ignore")
        for si in range(90 if thorough else 30):
            phi, theta = draw_params()
            sigma = rng.choice([1.0, 0.5, 2.5, 1.25])
            obj = ARMA(phi, theta, sigma)
            history = [("ARMA", jsonable(phi), jsonable(theta), sigma)]
            coq_ops, coq_out = [], []
            init = (phi, theta, sigma)
            # script: forced pattern  call X ; set S ; call X  (S cycles through sigma/phi/theta), then random steps
            forced_op = ops_all[si % 4]
            script = [("call", forced_op), ("set", ["sigma", "phi", "theta"][si % 3]), ("call", forced_op)]
            for _ in range(rng.randrange(1, 5)):
                script.append(("set", rng.choice(["sigma", "phi", "theta"])) if rng.random() < 0.4 else ("call", rng.choice(ops_all)))
            if script[-1][0] == "set":
                script.append(("call", rng.choice(ops_all)))
            last_args = {}
            for kind, what in script:
                if kind == "set":
                    if what == "sigma":
                        sigma = rng.choice([s for s in [1.0, 0.5, 2.5, 1.25, 3.0] if s != sigma])
                        obj.sigma = sigma
                        coq_ops.append("SetSigma %s" % qlit(frac(sigma)))
                    elif what == "phi":
                        phi = draw_params()[0]
                        obj.phi = phi
                        coq_ops.append("SetPhi %s" % param_lit(phi))
                    else:
                        theta = draw_params()[1]
                        obj.theta = theta
                        coq_ops.append("SetTheta %s" % param_lit(theta))
                    history.append(("set_" + what, jsonable({"sigma": sigma, "phi": phi, "theta": theta}[what])))
                    ctx.count("armaseq:set_" + what)
                    continue
                args = last_args.get(what) if (what in last_args and rng.random() < 0.7) else draw_args(what)
                last_args[what] = args
                history.append((what,) + tuple(args))
                phi_l = [phi] if np.isscalar(phi) else list(phi)
                theta_eff = [theta] if np.isscalar(theta) else list(theta)
                inp = {"function": "ARMA", "sequence": jsonable(history), "phi": phi, "theta": theta, "sigma": sigma,
                       "stateful": True, "call": what}
                ctx.count("armaseq:" + what)
                ctx.case(("armaseq", json.dumps(jsonable(history))), nontrivial=True,
                         sample={"ARMA sequence": jsonable(history)} if si < 2 else None)
                try:
                    res = arma_do(obj, what, args)
                    fresh = arma_do(ARMA(phi, theta, sigma), what, args)
                except Exception as e:      # noqa
                    ctx.fail("raises_on_admissible_input", "ARMA.%s raised %s in a sequence" % (what, type(e).__name__), inp, type(e).__name__, "a value")
                    break
                if not same_result(res, fresh):
                    r0 = res[1] if isinstance(res, tuple) else res
                    f0 = fresh[1] if isinstance(fresh, tuple) else fresh
                    ctx.fail("arma_stale_state", "result of %s after a sequence of setters/calls differs from a fresh ARMA with the current parameters" % what,
                             inp, np.real(np.asarray(r0))[:5].tolist(), np.real(np.asarray(f0))[:5].tolist())
                arma_formula_check(ctx, inp, what, args, res, phi_l, theta_eff, sigma)
                if what == "impulse_response" and all(math.isfinite(float(v)) for v in res):
                    coq_ops.append("Impulse %d%%nat" % args[0])
                    coq_out.append("(Some %s)" % qlist([frac(float(v)) for v in res]))
            if coq_out:
                cases.append(tup(param_lit(init[0]), param_lit(init[1]), qlit(frac(init[2])), "[" + "; ".join(coq_ops) + "]", "[" + "; ".join(coq_out) + "]"))
                meta.append({"function": "ARMA", "sequence": jsonable(history)})
    ok = ("fun c => let '(phi, theta, sigma, ops, outs) := c in "
          "list_eqb (fun a b => match a, b with Some x, Some y => Qs_close %s x y | None, None => true | _, _ => false end) "
          "(arma_run phi theta sigma ops) outs" % T9)
    bad = ctx.coq_check("arma_sequences", IMPORTS, "param * param * Q * list arma_op * list (option (list Q))", ok, cases, chunk=8, preamble=PRE)
    for i in bad:
        ctx.mismatch("C19.Model.arma_run (fold of setters/impulse_response) vs one ARMA object driven by the same sequence", meta[i])

    # ================= ECDF and BetaBinomial objects with re-assigned attributes
    for si in range(60 if thorough else 20):
        obs = gen_sample(rng, rng.randrange(1, 40))
        F = ECDF(obs)
        hist = [("ECDF", obs)]
        for step in range(rng.randrange(2, 5)):
            if step and rng.random() < 0.6:
                obs = gen_sample(rng, rng.randrange(1, 40))
                F.observations = np.asarray(obs)
                hist.append(("set_observations", obs))
            xs = [rng.choice(obs), min(obs) - 0.5, max(obs), rng.uniform(0, 10)]
            inp = {"function": "ECDF", "sequence": jsonable(hist), "obs": obs, "x": xs, "stateful": True}
            ctx.case(("ecdfseq", json.dumps(jsonable(hist)), tuple(xs)), nontrivial=(len(obs) >= 3)); ctx.count("ecdfseq:calls")
            vals = guarded(ctx, inp, lambda: [float(v) for v in F(np.array(xs))])
            if vals is None:
                break
            exp_v = [sum(1 for o in obs if o <= x) / len(obs) for x in xs]
            if vals != exp_v or vals != [float(v) for v in ECDF(obs)(np.array(xs))]:
                ctx.fail("ecdf_spec", "ECDF(x) after re-assigning observations is not the fraction of CURRENT observations <= x", inp, vals, exp_v)
    for si in range(60 if thorough else 20):
        n, a, b = rng.randrange(1, 61), Fraction(rng.randrange(3, 800), 40), Fraction(rng.randrange(3, 800), 40)
        d = BetaBinomial(n, float(a), float(b))
        hist = [("BetaBinomial", n, str(a), str(b))]
        for step in range(rng.randrange(2, 5)):
            if step:
                which = rng.choice(["n", "a", "b", "all"])
                if which in ("n", "all"):
                    n = rng.randrange(1, 61); d.n = n
                if which in ("a", "all"):
                    a = Fraction(rng.randrange(3, 800), 40); d.a = float(a)
                if which in ("b", "all"):
                    b = Fraction(rng.randrange(3, 800), 40); d.b = float(b)
                hist.append(("set_" + which, n, str(a), str(b)))
            inp = {"function": "BetaBinomial", "sequence": jsonable(hist), "n": n, "a": str(a), "b": str(b), "stateful": True}
            ctx.case(("bbseq", json.dumps(jsonable(hist))), nontrivial=True); ctx.count("bbseq:reads")
            order = rng.sample(["pdf", "mean", "var", "std", "skew"], 5)
            got = guarded(ctx, inp, lambda: {k: (np.asarray(d.pdf(), float) if k == "pdf" else float(getattr(d, k))) for k in order})
            if got is None:
                break
            fr = BetaBinomial(n, float(a), float(b))
            # exact closed forms / exact pdf for the CURRENT parameters
            e_mean = n * a / (a + b); e_var = n * a * b * (a + b + n) / ((a + b) ** 2 * (a + b + 1))
            pdf_ex = []
            for k in range(n + 1):
                t = Fraction(math.comb(n, k))
                for i in range(k):
                    t *= (a + i)
                for i in range(n - k):
                    t *= (b + i)
                for i in range(n):
                    t /= (a + b + i)
                pdf_ex.append(t)
            m3 = sum((k - e_mean) ** 3 * p for k, p in enumerate(pdf_ex))
            e_skew = float(m3) / float(e_var) ** 1.5
            bad_ = (abs(got["mean"] - float(e_mean)) > 1e-12 * (1 + float(e_mean)) or abs(got["var"] - float(e_var)) > 1e-12 * (1 + float(e_var))
                    or abs(got["std"] - math.sqrt(float(e_var))) > 1e-12 * (1 + float(e_var)) or abs(got["skew"] - e_skew) > 1e-9 * (1 + abs(e_skew))
                    or len(got["pdf"]) != n + 1 or any(abs(float(p) - float(q)) > 1e-11 * float(q) for p, q in zip(got["pdf"], pdf_ex))
                    or not same_result(got["pdf"], fr.pdf()) or got["mean"] != fr.mean or got["var"] != fr.var or got["skew"] != fr.skew)
            if bad_:
                ctx.fail("bb_stale_state", "BetaBinomial mean/var/std/skew/pdf after re-assigning n, a, b differ from the moments of the CURRENT distribution",
                         inp, {k: (v[:4].tolist() if k == "pdf" else v) for k, v in got.items()}, {"mean": float(e_mean), "var": float(e_var), "skew": e_skew})

    # ================= hamilton_filter
    cases, meta = [], []
    specs = []
    for _ in range(120 if thorough else 36):
        T = rng.choice([20, 21, 200, rng.randrange(20, 201), rng.randrange(20, 201)])
        if rng.random() < 0.3:
            specs.append((T, rng.randrange(1, T + 1), None))
        else:
            p = rng.choice([0, 1, 1, 2, 3, 4, 4, 6, 8])
            hmax = T - 2 * p - 3
            if hmax < 1:
                continue
            specs.append((T, rng.choice([1, 2, hmax, rng.randrange(1, hmax + 1), min(8, hmax)]), p))
    specs += [(20, 20, None), (20, 1, None), (24, 8, 4), (20, 1, 0), (20, 17, 0)]
    malformed = [(20, 21, None), (20, 19, 3), (10, 8, 4), (5, 1, 6)]
    for T, h, p in specs + malformed:
        kind = rng.randrange(3)
        y, v = [], 0.0
        for t in range(T):
            if kind == 0:
                v = 0.7 * v + rng.randrange(-16, 17) / 8
                y.append(round((v + 0.05 * t) * 16) / 16)
            elif kind == 1:
                v = v + rng.randrange(-16, 17) / 8
                y.append(v)
            else:
                y.append(rng.randrange(0, 64) / 4)
        inp = {"function": "hamilton_filter", "y": y, "h": h, "p": p}
        try:
            cyc, tr = hamilton_filter(y, h, p) if p is not None else hamilton_filter(y, h)
            cyc, tr = [float(x) for x in cyc], [float(x) for x in tr]
            err = None
        except Exception as e:      # noqa
            err = type(e).__name__
        ctx.count("ham:" + ("error:%s" % err if err else ("rw" if p is None else "p=%d" % p)))
        ctx.case(("ham", tuple(y), h, p), nontrivial=(err is None and (p is None or p >= 1)), sample={"hamilton_filter": {"T": T, "h": h, "p": p}, "impl_error": err})
        if err is not None:
            if (T, h, p) not in malformed:
                ctx.fail("hamilton_raises", "hamilton_filter raised on an admissible input", inp, err, None)
            cases.append(tup(qlist([frac(x) for x in y]), "%d%%nat" % h, "None" if p is None else "(Some %d%%nat)" % p,
                             "(@None (list (option Q) * list (option Q)))"))
            meta.append(inp)
            continue
        # oracle
        if (T, h, p) in malformed:
            ctx.fail("hamilton_raises", "hamilton_filter returned a value for inadmissible (h,p)", inp, cyc[:5], "exception")
        ya = np.array(y)
        k0 = h if p is None else p + h - 1
        nanok = all(c != c for c in cyc[:k0]) and all(t != t for t in tr[:k0]) and not any(c != c for c in cyc[k0:]) and not any(t != t for t in tr[k0:])
        if len(cyc) != T or len(tr) != T or not nanok:
            ctx.fail("hamilton_defined", "undefined (NaN) prefix has the wrong length", inp, [len(cyc), sum(c != c for c in cyc)], k0)
        elif np.max(np.abs(np.array(cyc[k0:]) + np.array(tr[k0:]) - ya[k0:]), initial=0) > 1e-9:
            ctx.fail("hamilton_sum", "cycle + trend != data", inp, None, None)
        elif p is None:
            if any(abs(cyc[t] - (y[t] - y[t - h])) > 1e-12 for t in range(h, T)):
                ctx.fail("hamilton_rw", "random-walk variant: cycle_t != y_t - y_{t-h}", inp, cyc[h:h + 5], [y[t] - y[t - h] for t in range(h, min(T, h + 5))])
        else:
            rows = []
            for t in range(p + h - 1, T):       # regress y_t on 1, y_{t-h}, ..., y_{t-h-p+1}
                rows.append([1.0] + [y[t - h - k] for k in range(p)])
            Xo = np.array(rows); yo = ya[p + h - 1:]
            bo = np.linalg.lstsq(Xo, yo, rcond=None)[0]
            fit = Xo @ bo
            if np.max(np.abs(np.array(tr[k0:]) - fit) / (1 + np.abs(fit))) > 1e-8:
                ctx.fail("hamilton_ols", "trend is not the OLS projection on a constant and p lags", inp, tr[k0:k0 + 5], fit[:5].tolist())
        cases.append(tup(qlist([frac(x) for x in y]), "%d%%nat" % h, "None" if p is None else "(Some %d%%nat)" % p,
                         "(Some (%s, %s))" % (oqlist(cyc), oqlist(tr))))
        meta.append(inp)
    ok = ("fun c => let '(y, h, p, out) := c in match hamilton y h p, out with "
          "| None, None => true | Some (cy, tr), Some (cy', tr') => oQs_close %s cy cy' && oQs_close %s tr tr' "
          "| _, _ => false end" % (T8, T8))
    bad = ctx.coq_check("hamilton_filter", IMPORTS, "list Q * nat * option nat * option (list (option Q) * list (option Q))", ok, cases,
                        chunk=3, preamble=PRE)
    for i in bad:
        ctx.mismatch("C19.Model.hamilton vs _filter.hamilton_filter", meta[i])

    # ================= periodogram
    cases, meta = [], []
    ns = list(range(1, 14)) + [rng.randrange(14, 80) for _ in range(30 if thorough else 10)] + [64, 65]
    for n in ns:
        x = [rng.randrange(-40, 41) / 8.0 for _ in range(n)]
        inp = {"function": "periodogram", "x": x}
        res = guarded(ctx, inp, lambda: periodogram(np.array(x)))
        if res is None:
            continue
        w, I = [float(v) for v in res[0]], [float(v) for v in res[1]]
        ctx.count("pgram:" + ("even" if n % 2 == 0 else "odd"))
        ctx.case(("pgram", tuple(x)), nontrivial=(n >= 3), sample={"periodogram": x[:6], "n": n, "len_out": len(w)})
        # direct DFT (independent of numpy.fft)
        dft = []
        for j in range(n):
            re = math.fsum(x[t] * math.cos(2 * math.pi * ((j * t) % n) / n) for t in range(n))
            im = -math.fsum(x[t] * math.sin(2 * math.pi * ((j * t) % n) / n) for t in range(n))
            dft.append((re, im))
        m = n // 2 + 1
        if len(w) != m or len(I) != m:
            ctx.fail("periodogram_indices", "wrong number of retained frequencies", inp, len(w), m)
        else:
            if any(abs(w[j] - 2 * math.pi * j / n) > 1e-12 for j in range(m)) or w[-1] > math.pi + 1e-12 or (m < n and 2 * math.pi * m / n <= math.pi):
                ctx.fail("periodogram_indices", "frequencies are not the Fourier frequencies in [0,pi]", inp, w, None)
            exp_I = [(re * re + im * im) / n for re, im in dft[:m]]
            if any(abs(a - b) > 1e-9 * (1 + abs(b)) for a, b in zip(I, exp_I)):
                ctx.fail("periodogram_value", "periodogram != |DFT|^2/n", inp, I[:5], exp_I[:5])
        cases.append(tup("[" + "; ".join(tup(qlit(frac(re)), qlit(frac(im))) for re, im in dft) + "]",
                         "[" + "; ".join(tup(qlit(frac(a / (2 * math.pi))), qlit(frac(b))) for a, b in zip(w, I)) + "]"))
        meta.append(inp)
    ok = "fun c => let '(dft, out) := c in QQs_close %s (periodogram dft) out" % T9
    bad = ctx.coq_check("periodogram", IMPORTS, "list (Q * Q) * list (Q * Q)", ok, cases, chunk=10, preamble=PRE)
    for i in bad:
        ctx.mismatch("C19.Model.periodogram (index logic, |.|^2/n) vs _estspec.periodogram", meta[i])

    # ================= periodogram / ar_periodogram index logic for EVERY n in 1..200 (both tiers), with and without window:
    # the returned frequencies must be exactly 2*pi*j/m for j = 0..m//2 (count and values), one ordinate per frequency
    from quantecon._estspec import ar_periodogram
    cases, meta = [], []

    def check_freqs(inp, w, I, m):
        k = m // 2 + 1
        if len(w) != k or len(I) != k:
            ctx.fail("periodogram_indices", "number of returned frequencies/ordinates is not m//2+1", inp, [len(w), len(I)], k)
            return False
        if any(abs(w[j] - 2 * math.pi * j / m) > 1e-12 for j in range(k)):
            ctx.fail("periodogram_indices", "frequencies are not 2*pi*j/m, j=0..m//2", inp, w[:6], [2 * math.pi * j / m for j in range(min(k, 6))])
            return False
        return True

    for n in range(1, 201):
        x = [rng.randrange(-40, 41) / 8.0 for _ in range(n)]
        xa = np.array(x)
        ctx.count("pgram_all:" + ("even" if n % 2 == 0 else "odd"))
        for window, wl in ((None, 7), ("hanning", 7), ("flat", 5)):
            inp = {"function": "periodogram", "x": x, "window": window, "window_len": wl}
            ctx.case(("pgram_all", n, window, tuple(x)), nontrivial=(n >= 3))
            too_short = window is not None and n // 2 + 1 < wl
            try:
                w, I = periodogram(xa, window=window, window_len=wl)
                err = None
            except Exception as e:       # noqa
                err = type(e).__name__
            if too_short:
                if err != "ValueError":
                    ctx.fail("periodogram_window_guard", "smoothing a periodogram shorter than the window must raise ValueError", inp, err, "ValueError")
                continue
            if err is not None:
                ctx.fail("raises_on_admissible_input", "periodogram raised " + err, inp, err, "a value")
                continue
            w, I = [float(v) for v in w], [float(v) for v in I]
            okf = check_freqs(inp, w, I, n)
            if window is None:
                F = np.fft.fft(xa)
                if okf and any(abs(a - (abs(F[j]) ** 2) / n) > 1e-9 * (1 + abs(a)) for j, a in enumerate(I)):
                    ctx.fail("periodogram_value", "periodogram != |FFT|^2/n", inp, I[:5], None)
                cases.append(tup("%d%%nat" % n, qlist([frac(a / (2 * math.pi)) for a in w])))
                meta.append(inp)
        if n >= 4:
            for window in (None, "hanning"):
                inp = {"function": "ar_periodogram", "x": x, "window": window}
                ctx.case(("arpgram_all", n, window, tuple(x)), nontrivial=True)
                m = n - 1
                too_short = window is not None and m // 2 + 1 < 7
                try:
                    w, I = ar_periodogram(xa, window=window)
                    err = None
                except Exception as e:       # noqa
                    err = type(e).__name__
                if err == "LinAlgError":     # constant lagged series: singular regression, not an index question
                    ctx.count("arpgram:singular")
                    continue
                if too_short:
                    if err != "ValueError":
                        ctx.fail("periodogram_window_guard", "smoothing a periodogram shorter than the window must raise ValueError", inp, err, "ValueError")
                    continue
                if err is not None:
                    ctx.fail("raises_on_admissible_input", "ar_periodogram raised " + err, inp, err, "a value")
                    continue
                check_freqs(inp, [float(v) for v in w], [float(v) for v in I], m)
    # the number and values of the retained frequencies depend only on n: the model is run on a zero DFT of length n
    ok = "fun c => let '(n, ws) := c in Qs_close %s (map fst (periodogram (repeat (0, 0) n))) ws" % T12
    bad = ctx.coq_check("periodogram_every_n", IMPORTS, "nat * list Q", ok, cases, chunk=25, preamble=PRE)
    for i in bad:
        ctx.mismatch("C19.Model.periodogram (index logic for every n) vs _estspec.periodogram", meta[i])

    # ================= hardening: dress (containers, dtypes, layouts, NumPy scalars), optional arguments, non-mutation, aliasing
    F32 = 2e-5      # float32 inputs are processed in single precision by NumPy itself
    alive = []      # results kept alive: later calls must not change them (module/class-level buffers)
    for rep in range(4 if thorough else 2):
        nn = rng.choice([1, 2, 14, 25]) if rep else 16
        vals = [rng.randrange(0, 10) for _ in range(nn)]
        if sum(vals) == 0:
            vals[0] = 3
        forms = dressed_samples(vals)
        canon = np.array(vals, dtype=np.float64)
        # -- gini / lorenz (numba: ndarray arguments only; unsigned dtypes excluded for gini: y[i]-y[j] wraps in uint8)
        g_ref, l_ref = gini_coefficient(canon), lorenz_curve(canon)
        alive.append(("lorenz_curve", l_ref[1], l_ref[1].copy()))
        for form in ["int64", "column_of_2d", "strided", "negstride"] + (["float32", "int32", "uint8"] if thorough else []):   # each dtype is a numba compilation
            v = forms[form]
            if form != "uint8":
                dress_call(ctx, "gini_coefficient", form, lambda: gini_coefficient(v), g_ref, [v], detail=vals)
            r = dress_call(ctx, "lorenz_curve", form, lambda: lorenz_curve(v), l_ref, [v], detail=vals)
            if r is not None and (np.shares_memory(r[0], l_ref[0]) or np.shares_memory(r[1], l_ref[1])):
                ctx.fail("results_alias_each_other", "two lorenz_curve calls returned shared memory", {"function": "lorenz_curve", "dress": form}, None, None)
        # -- ECDF: every container, 2-d observations, x as scalars / list / tuple / arrays
        xs = [vals[0], 4.5, -1, 9]
        e_ref = [sum(1 for o in vals if o <= x) / len(vals) for x in xs]
        for form, v in forms.items():
            for xform, xv in (("x_list", xs), ("x_tuple", tuple(xs)), ("x_int64", None), ("x_float32", np.array(xs, dtype=np.float32)), ("x_scalars", None)):
                if xform == "x_int64":
                    fn = lambda: ECDF(v)(np.array([int(x) for x in xs if x == int(x)], dtype=np.int64))
                    ref = [e for e, x in zip(e_ref, xs) if x == int(x)]
                elif xform == "x_scalars":
                    sc = [int(xs[0]), float(xs[1]), np.int32(xs[2]), np.float64(xs[3])]
                    fn = lambda: [float(ECDF(v)(s)) for s in sc]; ref = e_ref
                else:
                    fn = lambda: ECDF(v)(xv); ref = e_ref
                dress_call(ctx, "ECDF", form + "/" + xform, fn, [np.array(ref)] if xform != "x_scalars" else [np.array(ref)], [v] + ([xv] if xv is not None else []), detail=[vals, xs]) \
                    if xform != "x_scalars" else dress_call(ctx, "ECDF", form + "/" + xform, lambda: np.array(fn()), np.array(ref), [v], detail=[vals, xs])
        if nn >= 14:
            # -- hamilton_filter: containers x integer dress of h, p; p=0 and h=1 explicitly; p omitted vs None
            for (hh, pp) in [(2, 2), (1, 0), (1, 3), (3, None), (1, None)]:
                h_ref = hamilton_filter(canon, hh, pp)
                alive.append(("hamilton_filter", h_ref[0], h_ref[0].copy()))
                for form, v in forms.items():
                    if form == "column_vector":
                        continue        # ndim=1 is documented; a column vector is not an admissible input
                    for iname, conv in (("int", int), ("np.int64", np.int64), ("np.int32", np.int32), ("np.uint8", np.uint8), ("np.intp", np.intp)):
                        if iname != "int" and form not in ("list", "int32", "strided"):
                            continue
                        if pp is None:
                            dress_call(ctx, "hamilton_filter", form + "/h:" + iname + "/p_omitted", lambda: hamilton_filter(v, conv(hh)), h_ref, [v],
                                       tol=F32 if form == "float32" else 1e-10, detail=[vals, hh, None])
                            dress_call(ctx, "hamilton_filter", form + "/h:" + iname + "/p=None", lambda: hamilton_filter(v, conv(hh), None), h_ref, [v],
                                       tol=F32 if form == "float32" else 1e-10, detail=[vals, hh, None])
                        else:
                            dress_call(ctx, "hamilton_filter", form + "/h,p:" + iname, lambda: hamilton_filter(v, conv(hh), conv(pp)), h_ref, [v],
                                       tol=F32 if form == "float32" else 1e-10, detail=[vals, hh, pp])
                            dress_call(ctx, "hamilton_filter", form + "/p_keyword", lambda: hamilton_filter(v, h=conv(hh), p=conv(pp)), h_ref, [v],
                                       tol=F32 if form == "float32" else 1e-10, detail=[vals, hh, pp])
            # -- periodogram / ar_periodogram: containers; window omitted / None / '' / positional / keyword; window_len dress
            p_ref = periodogram(canon)
            alive.append(("periodogram", p_ref[1], p_ref[1].copy()))
            pw_ref = periodogram(canon, "flat", 3)
            ph_ref = periodogram(canon, "hanning", 7)
            a_ref, an_ref = ar_periodogram(canon), ar_periodogram(canon, None)
            for form, v in forms.items():
                if form == "column_vector":
                    continue
                tol = F32 if form == "float32" else 1e-10
                dress_call(ctx, "periodogram", form + "/window_omitted", lambda: periodogram(v), p_ref, [v], tol=tol, detail=vals)
                dress_call(ctx, "periodogram", form + "/window=None", lambda: periodogram(v, None), p_ref, [v], tol=tol, detail=vals)
                dress_call(ctx, "periodogram", form + "/window=None,len", lambda: periodogram(v, window=None, window_len=np.int64(5)), p_ref, [v], tol=tol, detail=vals)
                dress_call(ctx, "periodogram", form + "/flat,3", lambda: periodogram(v, window="flat", window_len=np.int32(3)), pw_ref, [v], tol=tol, detail=vals)
                dress_call(ctx, "periodogram", form + "/hanning_len_omitted", lambda: periodogram(v, "hanning"), ph_ref, [v], tol=tol, detail=vals)
                dress_call(ctx, "periodogram", form + "/hanning,7", lambda: periodogram(v, "hanning", 7), ph_ref, [v], tol=tol, detail=vals)
                dress_call(ctx, "ar_periodogram", form + "/defaults", lambda: ar_periodogram(v), a_ref, [v], tol=max(tol, 1e-9), detail=vals)
                dress_call(ctx, "ar_periodogram", form + "/explicit_defaults", lambda: ar_periodogram(v, window="hanning", window_len=7), a_ref, [v], tol=max(tol, 1e-9), detail=vals)
                dress_call(ctx, "ar_periodogram", form + "/window=None", lambda: ar_periodogram(v, None), an_ref, [v], tol=max(tol, 1e-9), detail=vals)
    # -- BetaBinomial: n as Python / NumPy ints, a and b as ints / NumPy scalars (unsigned 8-bit a, b overflow in NumPy itself: excluded)
    def bb_all(n, a, b):
        d = BetaBinomial(n, a, b)
        return (d.pdf(), d.mean, d.var, d.std, d.skew)
    for (n, a, b) in [(10, 2, 3), (60, 7, 2), (1, 1, 1), (33, 20, 1)]:
        ref = bb_all(n, float(a), float(b))
        for nname, nconv in (("int", int), ("np.int64", np.int64), ("np.int32", np.int32), ("np.uint8", np.uint8), ("np.intp", np.intp)):
            for aname, aconv, tol in (("float", float, 1e-12), ("int", int, 1e-12), ("np.int64", np.int64, 1e-12), ("np.int32", np.int32, 1e-12),
                                      ("np.float64", np.float64, 1e-12), ("np.float32", np.float32, F32)):
                if nname == "np.uint8" and aname not in ("float", "np.float64"):
                    continue        # uint8 n with integer a, b: NumPy's own 8-bit wrap-around
                dress_call(ctx, "BetaBinomial", "n:" + nname + "/ab:" + aname, lambda: bb_all(nconv(n), aconv(a), aconv(b)), ref, [], tol=tol, detail=[n, a, b])
    # -- ARMA: parameter containers / dtypes / NumPy scalars, optional arguments omitted vs explicit defaults, seeds, non-mutation
    def arma_all(obj, n=8, K=4, res=16, T=6, seed=5):
        return (obj.impulse_response(n), obj.spectral_density(res=res)[0], obj.spectral_density(res=res)[1].real, obj.autocovariance(K), obj.simulation(T, random_state=seed))
    with warnings.catch_warnings():
        warnings.simplefilter("ignore")
        for (phi_v, theta_v, sig) in [([0.5, 0.25], [0.25], 2), ([0.5], [0.25, -0.5, 0.125], 1), ([1, -0.25], [1], 3)]:
            ref = arma_all(ARMA([float(x) for x in phi_v], [float(x) for x in theta_v], float(sig)))
            variants = {"list": (list(phi_v), list(theta_v)), "tuple": (tuple(phi_v), tuple(theta_v)),
                        "float64": (np.array(phi_v, float), np.array(theta_v, float)), "float32": (np.array(phi_v, np.float32), np.array(theta_v, np.float32)),
                        "strided": (np.repeat(np.array(phi_v, float), 2)[::2], np.repeat(np.array(theta_v, float), 2)[::2])}
            if all(float(x) == int(x) for x in phi_v + theta_v):
                variants["int64"] = (np.array(phi_v, np.int64), np.array(theta_v, np.int64)); variants["int_list"] = ([int(x) for x in phi_v], [int(x) for x in theta_v])
            for form, (pv, tv) in variants.items():
                for sname, sconv in (("float", float), ("int", int), ("np.int64", np.int64), ("np.float32", np.float32)):
                    dress_call(ctx, "ARMA", form + "/sigma:" + sname, lambda: arma_all(ARMA(pv, tv, sconv(sig))), ref, [pv, tv], tol=1e-10, detail=[phi_v, theta_v, sig])
                for iname, iconv in (("np.int64", np.int64), ("np.int32", np.int32), ("np.intp", np.intp)):
                    dress_call(ctx, "ARMA", form + "/sizes,seed:" + iname,
                               lambda: arma_all(ARMA(pv, tv, sig), n=iconv(8), K=iconv(4), res=iconv(16), T=iconv(6), seed=iconv(5)), ref, [pv, tv], tol=1e-10, detail=[phi_v, theta_v, sig])
                dress_call(ctx, "ARMA", form + "/seed:RandomState", lambda: arma_all(ARMA(pv, tv, sig), seed=np.random.RandomState(5)), ref, [pv, tv], tol=1e-10, detail=[phi_v, theta_v, sig])
        for (ph, th) in [(0.5, 0.25), (-0.75, 0.0), (0, 0.5)]:
            ref = arma_all(ARMA(float(ph), float(th), 1.0))
            for sname, sconv, tol in (("np.float64", np.float64, 1e-10), ("0-d array", np.array, 1e-10), ("np.float32", np.float32, F32)) + ((("int", int, 1e-10),) if ph == int(ph) and th == int(th) else ()):
                dress_call(ctx, "ARMA", "scalar:" + sname, lambda: arma_all(ARMA(sconv(ph), sconv(th), 1)), ref, [], tol=tol, detail=[ph, th])
        # optional arguments: omitted vs explicit default vs falsy-but-valid
        a0 = ARMA([0.5, 0.25])
        dress_call(ctx, "ARMA", "theta_sigma_omitted", lambda: arma_all(a0), arma_all(ARMA([0.5, 0.25], 0, 1)), [], tol=1e-12)
        dress_call(ctx, "ARMA", "theta=0.0,sigma=1.0", lambda: arma_all(ARMA([0.5, 0.25], theta=0.0, sigma=1.0)), arma_all(ARMA([0.5, 0.25], [0.0], 1)), [], tol=1e-12)
        dress_call(ctx, "ARMA", "phi=0(int scalar)", lambda: arma_all(ARMA(0, [0.5])), arma_all(ARMA([0.0], [0.5], 1.0)), [], tol=1e-12)
        a1 = ARMA([0.5, -0.25], [0.25], 2.0)
        dress_call(ctx, "ARMA", "defaults:impulse_length", lambda: a1.impulse_response(), a1.impulse_response(30), [], tol=1e-12)
        dress_call(ctx, "ARMA", "defaults:spectral_density", lambda: a1.spectral_density(), a1.spectral_density(True, 1200), [], tol=1e-12)
        dress_call(ctx, "ARMA", "two_pi=False", lambda: a1.spectral_density(two_pi=False, res=8)[0], np.arange(8) * math.pi / 8, [], tol=1e-12)
        dress_call(ctx, "ARMA", "defaults:autocovariance", lambda: a1.autocovariance(), a1.autocovariance(16), [], tol=1e-12)
        dress_call(ctx, "ARMA", "defaults:simulation", lambda: a1.simulation(random_state=7), a1.simulation(90, random_state=7), [], tol=1e-12)
        dress_call(ctx, "ARMA", "seed:int_vs_numpy", lambda: a1.simulation(12, random_state=np.int64(7)), a1.simulation(12, random_state=7), [], tol=1e-12)
        # several objects alive at once: a second object must not disturb the first
        b1, b2 = ARMA([0.5], [0.25], 1.0), ARMA([-0.5, 0.125], [0.5, 0.5, 0.5], 3.0)
        r1 = arma_all(b1); arma_all(b2); b2.sigma = 0.5; arma_all(b2)
        ctx.count("seq:two_objects_alive")
        dress_call(ctx, "ARMA", "two_objects_alive", lambda: arma_all(b1), r1, [], tol=1e-12)
    for name, arr, snap in alive:
        ctx.count("alias:result_kept_alive")
        if not np.array_equal(arr, snap, equal_nan=True):
            ctx.fail("result_changed_later", "an array returned earlier by %s was modified by later calls" % name, {"function": name}, None, None)

    # ================= result aliasing across calls: every entry point that returns arrays
    for rep in range(6 if thorough else 3):
        nA = rng.choice([3, 8, 21])
        ya = np.array([rng.randrange(1, 20) / 2.0 for _ in range(nA)]); yb = np.array([rng.randrange(1, 20) / 2.0 for _ in range(nA)])
        alias_probe(ctx, "lorenz_curve", "same length, other sample in between", lambda o: lorenz_curve(ya), others=[lambda o: lorenz_curve(yb)],
                    guards=[lambda o: ya], inp={"y": ya.tolist(), "y_other": yb.tolist()})
        xq = np.array([1.0, 4.5, 7.0])
        alias_probe(ctx, "ECDF", "__call__", lambda o: o(xq), make=lambda: ECDF(ya.copy()), others=[lambda o: o(xq + 1.0), lambda o: ECDF(yb)(xq)],
                    guards=[lambda o: o.observations, lambda o: xq], inp={"obs": ya.tolist(), "x": xq.tolist()})
        nb, aa, bb_ = rng.randrange(1, 40), rng.randrange(3, 200) / 8.0, rng.randrange(3, 200) / 8.0
        alias_probe(ctx, "BetaBinomial", "pdf", lambda o: o.pdf(), make=lambda: BetaBinomial(nb, aa, bb_),
                    others=[lambda o: BetaBinomial(nb, aa + 0.5, bb_).pdf(), lambda o: (o.mean, o.var, o.skew)], inp={"n": nb, "a": aa, "b": bb_})
        # the pdf handed out after an in-place edit must still agree with mean / var of the object (moments of the pdf)
        d = BetaBinomial(nb, aa, bb_); pz = d.pdf(); pz *= 3.0; p2 = BetaBinomial(nb, aa, bb_).pdf(); kk = np.arange(nb + 1)
        if abs(p2.sum() - 1) > 1e-10 or abs((kk * p2).sum() - d.mean) > 1e-9 * (1 + d.mean):
            ctx.fail("result_aliases_internal_state", "BetaBinomial.pdf() of a second object is corrupted after the caller scaled an earlier pdf vector in place",
                     {"function": "BetaBinomial", "n": nb, "a": aa, "b": bb_, "aliasing": "p = d.pdf(); p *= 3; BetaBinomial(n,a,b).pdf()"}, [float(p2.sum()), float((kk * p2).sum())], [1.0, float(d.mean)])
        with warnings.catch_warnings():
            warnings.simplefilter("ignore")
            p_, q_ = rng.randrange(1, 4), rng.randrange(1, 4)
            ph = [-c for c in stable_poly(rng, p_)]; th = stable_poly(rng, q_); ph2 = [-c for c in stable_poly(rng, p_)]
            pa, ta = np.array(ph), np.array(th)
            mk = lambda: ARMA(pa, ta, 1.5)
            gd = [lambda o: o.ma_poly, lambda o: o.ar_poly, lambda o: pa, lambda o: ta]
            oth = [lambda o: ARMA(ph2, th, 0.5).impulse_response(9), lambda o: ARMA(ph2, th, 0.5).autocovariance(5), lambda o: ARMA(ph2, th, 0.5).spectral_density(res=16),
                   lambda o: ARMA(ph2, th, 0.5).simulation(7, random_state=3)]
            ai = {"phi": ph, "theta": th, "sigma": 1.5}
            alias_probe(ctx, "ARMA", "impulse_response", lambda o: o.impulse_response(9), make=mk, others=oth, guards=gd, inp=ai)
            alias_probe(ctx, "ARMA", "spectral_density", lambda o: o.spectral_density(res=16), make=mk, others=oth, guards=gd, inp=ai)
            alias_probe(ctx, "ARMA", "autocovariance", lambda o: o.autocovariance(5), make=mk, others=oth, guards=gd, inp=ai)
            alias_probe(ctx, "ARMA", "simulation", lambda o: o.simulation(7, random_state=11), make=mk, others=oth, guards=gd, inp=ai)
            alias_probe(ctx, "ARMA", "ma_poly/ar_poly of two objects", lambda o: (o.ma_poly.copy(), o.ar_poly.copy()), make=mk,
                        others=[lambda o: ARMA(ph2, th, 0.5)], guards=[lambda o: pa, lambda o: ta], inp=ai)
            o1, o2 = mk(), mk()
            if np.shares_memory(o1.ma_poly, o2.ma_poly) or np.shares_memory(o1.ar_poly, o2.ar_poly) or np.shares_memory(o1.ar_poly, pa) or np.shares_memory(o1.ma_poly, ta):
                ctx.fail("result_aliases_internal_state", "ARMA polynomials of two objects / of the caller's parameter arrays share memory", dict(ai, function="ARMA", aliasing="ma_poly/ar_poly"), None, None)
        Th = rng.choice([20, 33]); yh = np.array([rng.randrange(0, 64) / 4.0 for _ in range(Th)]); yh2 = np.array([rng.randrange(0, 64) / 4.0 for _ in range(Th)])
        for (hh, pp) in ((2, 3), (4, None), (1, 0)):
            alias_probe(ctx, "hamilton_filter", "h=%s,p=%s" % (hh, pp), lambda o: hamilton_filter(yh, hh, pp), others=[lambda o: hamilton_filter(yh2, hh, pp)],
                        guards=[lambda o: yh], inp={"y": yh.tolist(), "h": hh, "p": pp})
        for (wd, wl) in ((None, 7), ("hanning", 7), ("flat", 3)):
            alias_probe(ctx, "periodogram", "window=%s" % wd, lambda o: periodogram(yh, wd, wl), others=[lambda o: periodogram(yh2, wd, wl)],
                        guards=[lambda o: yh], inp={"x": yh.tolist(), "window": wd, "window_len": wl})
        alias_probe(ctx, "ar_periodogram", "defaults", lambda o: ar_periodogram(yh), others=[lambda o: ar_periodogram(yh2)], guards=[lambda o: yh], inp={"x": yh.tolist()})


def replay(data):
    """Re-run the first recorded failing input against the current implementation and print the oracle's verdict."""
    import warnings
    first = data.get("first") or (data.get("mismatches") or [{}])[0]
    print("replay:", json.dumps(first)[:1500])
    inp = first.get("input", {})
    fn = inp.get("function")
    if fn == "ARMA" and inp.get("sequence"):
        from quantecon._arma import ARMA
        seq = inp["sequence"]
        with warnings.catch_warnings():
            warnings.simplefilter("ignore")
            phi, theta, sigma = seq[0][1], seq[0][2], seq[0][3]
            obj = ARMA(phi, theta, sigma)
            verdict = "OK"
            for st in seq[1:]:
                if st[0] == "set_sigma":
                    sigma = st[1]; obj.sigma = sigma
                elif st[0] == "set_phi":
                    phi = st[1]; obj.phi = phi
                elif st[0] == "set_theta":
                    theta = st[1]; obj.theta = theta
                else:
                    res = arma_do(obj, st[0], tuple(st[1:])); fresh = arma_do(ARMA(phi, theta, sigma), st[0], tuple(st[1:]))
                    same = same_result(res, fresh)
                    r0 = res[1] if isinstance(res, tuple) else res; f0 = fresh[1] if isinstance(fresh, tuple) else fresh
                    print(st, "same object:", np.real(np.asarray(r0))[:4].tolist(), " fresh ARMA(current params):", np.real(np.asarray(f0))[:4].tolist(), "equal" if same else "DIFFERENT")
                    if not same:
                        verdict = "VIOLATED"
        print("verdict:", verdict)
    elif fn == "ARMA":
        from quantecon._arma import ARMA
        phi, theta = inp["phi"], inp["theta"]
        with warnings.catch_warnings():
            warnings.simplefilter("ignore")
            psi = ARMA(phi, theta, inp.get("sigma", 1.0)).impulse_response(inp.get("impulse_length", 8))
        ex = exact_psi(np.atleast_1d(phi).tolist(), np.atleast_1d(theta).tolist(), len(psi))
        print("impulse_response:", [float(v) for v in psi])
        print("psi from the ARMA recursion:", [float(v) for v in ex])
        print("verdict:", "OK" if all(abs(float(a) - float(b)) < 1e-9 * (1 + abs(float(b))) for a, b in zip(psi, ex)) else "VIOLATED")
    elif fn in ("gini_coefficient", "lorenz_curve"):
        from quantecon._inequality import gini_coefficient, lorenz_curve
        y = inp["y"]; n = len(y); Y = sorted(Fraction(v) for v in y)
        g = float(gini_coefficient(np.array(y)))
        gdef = float(sum((2 * (i + 1) - n - 1) * Y[i] for i in range(n)) / (n * sum(Y)))
        cp, ci = lorenz_curve(np.array(y))
        area = float(np.sum((cp[1:] - cp[:-1]) * (ci[1:] + ci[:-1]) / 2))
        print("gini_coefficient =", g, " definition =", gdef, " 1-2*area =", 1 - 2 * area, " lorenz end =", (cp[-1], ci[-1]))
        print("verdict:", "OK" if abs(g - gdef) < 1e-12 and abs(g - (1 - 2 * area)) < 1e-12 else "VIOLATED")
    elif fn == "ECDF":
        from quantecon._ecdf import ECDF
        v = float(ECDF(inp["obs"])(inp["x"])); k = sum(1 for o in inp["obs"] if o <= inp["x"]) / len(inp["obs"])
        print("ECDF(x) =", v, " fraction <= x =", k, " verdict:", "OK" if v == k else "VIOLATED")
    elif fn == "BetaBinomial" and inp.get("aliasing"):
        from quantecon.distributions import BetaBinomial
        n, a, b = inp["n"], float(Fraction(str(inp["a"]))), float(Fraction(str(inp["b"])))
        d = BetaBinomial(n, a, b); p = d.pdf(); q = d.pdf(); ref = p.copy()
        print("two calls share memory:", bool(np.shares_memory(p, q)))
        p *= 3.0
        p2 = BetaBinomial(n, a, b).pdf(); k = np.arange(n + 1)
        print("after p = d.pdf(); p *= 3: a fresh BetaBinomial(n,a,b).pdf() sums to", float(p2.sum()), " first moment", float((k * p2).sum()), " mean", d.mean)
        print("verdict:", "OK" if np.allclose(p2, ref) and not np.shares_memory(p, q) else "VIOLATED")
    elif fn == "BetaBinomial":
        from quantecon.distributions import BetaBinomial
        d = BetaBinomial(inp["n"], float(Fraction(inp["a"])), float(Fraction(inp["b"])))
        pdf = d.pdf(); k = np.arange(len(pdf)); m1 = float(np.sum(k * pdf)); m2 = float(np.sum((k - m1) ** 2 * pdf)); m3 = float(np.sum((k - m1) ** 3 * pdf))
        print("sum pdf", float(pdf.sum()), "mean", d.mean, m1, "var", d.var, m2, "skew", d.skew, m3 / m2 ** 1.5)
    elif fn == "hamilton_filter":
        from quantecon._filter import hamilton_filter
        y, h, p = inp["y"], inp["h"], inp["p"]
        try:
            cyc, tr = hamilton_filter(y, h, p) if p is not None else hamilton_filter(y, h)
            k0 = h if p is None else p + h - 1
            print("nan prefix", int(np.isnan(cyc).sum()), "expected", k0, "max|cycle+trend-y|", float(np.nanmax(np.abs(cyc + tr - np.array(y)))))
            if p is not None:
                Xo = np.array([[1.0] + [y[t - h - k] for k in range(p)] for t in range(p + h - 1, len(y))])
                fit = Xo @ np.linalg.lstsq(Xo, np.array(y)[p + h - 1:], rcond=None)[0]
                print("max|trend - OLS fit|", float(np.max(np.abs(tr[k0:] - fit))))
            else:
                print("max|cycle - (y_t - y_{t-h})|", float(np.max(np.abs(cyc[h:] - (np.array(y)[h:] - np.array(y)[:-h])))) if h < len(y) else 0.0)
        except Exception as e:
            print("raised", type(e).__name__, e)
    elif fn == "periodogram":
        from quantecon._estspec import periodogram
        x = inp["x"]; n = len(x); w, I = periodogram(np.array(x))
        d = [abs(sum(x[t] * cmath.exp(-2j * math.pi * j * t / n) for t in range(n))) ** 2 / n for j in range(n // 2 + 1)]
        print("len", len(w), "expected", n // 2 + 1, "w", w.tolist()[:6], "I", I.tolist()[:6], "direct", d[:6])
    return 0

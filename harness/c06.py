"""C06: discrete Lyapunov and Riccati solvers return true, stabilising solutions.

Correspondence: the Gallina model coq/C06/Model.v (one text, instantiated at binary64 and at Q)
is evaluated inside Coq on the inputs the implementation ran and compared with the
implementation's output (status exactly, values to 1e-8 mixed relative/absolute).
Oracle: independent mpmath (50 digits) evaluation of the property itself on the
implementation's output: residuals of both equations for both methods of each solver,
symmetry, positive semidefiniteness, closed-loop spectral radius < 1, agreement of the methods."""
import sys, ast, inspect, math
import numpy as np
import mpmath as mp
from common import *

IMPORTS = "From QE Require Import Base.LinAlg Base.Gauss C06.Model."
FINISH = dict(level="proof", technique_note=(
    "Coq theorems (coq/C06/Props.v) about the executable model coq/C06/Model.v (generic over Num; NumQ proved, NumF run); "
    "model tied to /repo by evaluating it with vm_compute on the inputs of every implementation call (status exact, values 1e-8); "
    "independent mpmath-50-digit oracle on the implementation's output (residual, symmetry, PSD, closed-loop radius, method agreement; tolerances 1e-12 / 1e-10 / 1e-10 / <1 / 1e-8). "
    "non-trivial = solver returned a matrix for a non-zero A (Lyapunov) / a system with ns>=1 whose doubling loop ran >= 2 iterations (Riccati)"))

mp.mp.dps = 50
TOL_VAL = 1e-8          # correspondence tolerance (stated in DESIGN section 7, C06)
# oracle tolerances, fixed after a calibration sweep of ~1900 generated systems on the pinned tree (worst seen:
# Lyapunov residual 4.4e-16, Riccati residual 1.2e-13 (qz) / 1.8e-14 (doubling), asymmetry 9.7e-15, agreement 2.1e-12)
TOL_RES_LYAP = 1e-12    # residual relative to the scale of the terms of the equation
TOL_RES = 1e-10         # same, Riccati
TOL_SYM = 1e-10
TOL_AGREE = 1e-8        # doubling vs qz / bartels-stewart, relative to 1 + max|X|


# ------------------------------------------------------------------ helpers
def zl(n):
    return "(%d)%%Z" % int(n)


def f1(x):
    return flit(x) + "%float"


def F(n, d=1):
    return Fraction(n, d)


def rnd_frac(rng, lo=-6, hi=6, dens=(1, 1, 2, 2, 3, 4, 5, 8)):
    return Fraction(rng.randint(lo, hi), rng.choice(dens))


def rnd_mat(rng, r, c, **kw):
    return [[rnd_frac(rng, **kw) for _ in range(c)] for _ in range(r)]


def fl(M):
    return [[float(x) for x in row] for row in M]


def npf(M):
    return np.array(fl(M), dtype=float)


def spec_radius(M):
    M = np.atleast_2d(np.array(M, dtype=float))
    return float(max(abs(np.linalg.eigvals(M)))) if M.size else 0.0


def scale_to_radius(rng, A, target):
    rho = spec_radius(fl(A))
    if rho < 1e-9:
        return A
    s = Fraction(max(1, round(target / rho * 64)), 64)
    return [[x * s for x in row] for row in A]


def mpm(M):
    M = np.atleast_2d(np.array(M, dtype=float))
    return mp.matrix([[mp.mpf(float(x)) for x in row] for row in M])


def mpmax(M):
    return max([abs(M[i, j]) for i in range(M.rows) for j in range(M.cols)] + [mp.mpf(0)])


def source_literal_lyap_tol():
    """the literal compared with `diff` in solve_discrete_lyapunov (1e-15 in the pinned source)"""
    import quantecon._matrix_eqn as me
    tree = ast.parse(inspect.getsource(me.solve_discrete_lyapunov))
    for node in ast.walk(tree):
        if isinstance(node, ast.While) and isinstance(node.test, ast.Compare):
            t = node.test
            if isinstance(t.left, ast.Name) and t.left.id == "diff" and isinstance(t.comparators[0], ast.Constant):
                return float(t.comparators[0].value)
    raise KeyError("while diff > <literal> not found in solve_discrete_lyapunov")


def call_riccati(me, A, B, Q, R, N, **kw):
    """run the implementation; also report the gamma it selected and its loop counter (profile hook on
    the function's return event: no source hook needed)."""
    rec = {}

    def prof(frame, event, arg):
        if event == "return" and frame.f_code.co_name == "solve_discrete_riccati":
            loc = frame.f_locals
            if "gamma" in loc:
                rec["gamma"] = loc["gamma"]
            if "i" in loc:
                rec["i"] = loc["i"]
    sys.setprofile(prof)
    try:
        try:
            X = me.solve_discrete_riccati(A, B, Q, R, N, **kw)
            status = "ok"
        except ValueError as e:
            X, status = None, "ValueError"
        except np.linalg.LinAlgError as e:
            X, status = None, "LinAlgError"
    finally:
        sys.setprofile(None)
    return status, X, rec


def recompute_gamma(A, B, Q, R, N):
    """independent re-derivation of the candidate the code is documented to pick"""
    EPS = np.finfo(float).eps
    A, B, Q, R, N = [np.atleast_2d(np.array(x, dtype=float)) for x in (A, B, Q, R, N)]
    k = Q.shape[0]
    I = np.identity(k)
    best, cur = None, np.inf
    BB, BTA = B.T @ B, B.T @ A
    for gamma in (0.01, 0.1, 0.25, 0.5, 1.0, 2.0, 10.0, 100.0, 10e5):
        Z = R + gamma * BB
        if np.linalg.cond(Z) * EPS < 1:
            Qt = -Q + N.T @ np.linalg.solve(Z, N + gamma * BTA) + gamma * I
            G0 = B @ np.linalg.solve(Z, B.T)
            A0 = (I - gamma * G0) @ A - B @ np.linalg.solve(Z, N)
            H0 = gamma * A.T @ A0 - Qt
            f1 = np.linalg.cond(Z, np.inf)
            fg = max(f1, gamma * f1, np.linalg.cond(I + G0 @ H0))
            if fg < cur:
                best, cur = gamma, fg
    return best


# ------------------------------------------------------------------ oracles (mpmath)
def lyap_oracle(A, B, X):
    """max-norm residual of A X A' - X + B relative to the scale of its terms"""
    A, B, X = mpm(A), mpm(B), mpm(X)
    res = A * X * A.T - X + B
    scale = 1 + mpmax(X) * (1 + mpmax(A)) ** 2 + mpmax(B)
    return float(mpmax(res) / scale)


def ricc_oracle(A, B, Q, R, N, X):
    """returns dict: res (relative residual), sym, mineig (relative), rho (closed-loop spectral radius)"""
    A, B, Q, R, N, X = [mpm(M) for M in (A, B, Q, R, N, X)]
    S1 = R + B.T * X * B
    S2 = N + B.T * X * A
    Fm = mp.inverse(S1) * S2
    res = A.T * X * A - S2.T * Fm + Q - X
    sx = mpmax(X)
    scale = 1 + sx * (1 + mpmax(A)) ** 2 + mpmax(Q) + mpmax(S2.T * Fm)
    sym = mpmax(X - X.T) / (1 + sx)
    ev = mp.eigsy((X + X.T) / 2, eigvals_only=True)
    mineig = min([ev[i] for i in range(len(ev))]) / (1 + sx)
    cl = A - B * Fm
    evc = [cl[0, 0]] if cl.rows == 1 else mp.eig(cl, left=False, right=False)
    rho = max([abs(e) for e in evc] + [mp.mpf(0)])
    return {"res": float(mpmax(res) / scale), "sym": float(sym), "mineig": float(mineig), "rho": float(rho)}


def pbh_margin(A, M, rows=True):
    """min over eigenvalues lam of A with |lam| >= 0.98 of sigma_min([A - lam I; M]) (rows) / [A - lam I, M] (cols);
    +inf if no such eigenvalue. Used only to keep the generator inside the property's guard (stabilisable/detectable)."""
    A = np.array(A, dtype=float)
    M = np.array(M, dtype=float)
    out = np.inf
    for lam in np.linalg.eigvals(A):
        if abs(lam) >= 0.98:
            W = A - lam * np.eye(A.shape[0])
            S = np.vstack([W, M]) if rows else np.hstack([W, M])
            out = min(out, np.linalg.svd(S, compute_uv=False)[-1])
    return out


# ------------------------------------------------------------------ generators
def gen_lyap(rng, kind, n):
    if kind == "nilpotent_int":
        # strictly upper triangular integer matrix conjugated by a unimodular integer matrix: exact in binary64
        U = [[rng.randint(-3, 3) if j > i else 0 for j in range(n)] for i in range(n)]
        A = [[F(x) for x in row] for row in U]
        if n >= 2 and rng.random() < 0.5:   # swap coordinates (still nilpotent)
            p = list(range(n)); rng.shuffle(p)
            A = [[A[p[i]][p[j]] for j in range(n)] for i in range(n)]
        B = [[F(rng.randint(-4, 4)) for _ in range(n)] for _ in range(n)]
        return A, B
    if kind == "diag":
        A = [[(Fraction(rng.randint(-7, 7), 8) if i == j else F(0)) for j in range(n)] for i in range(n)]
    elif kind == "slow":
        A = scale_to_radius(rng, rnd_mat(rng, n, n), rng.choice([0.9, 0.95, 0.97]))
    else:
        A = scale_to_radius(rng, rnd_mat(rng, n, n), rng.choice([0.1, 0.3, 0.5, 0.7, 0.85]))
    if spec_radius(fl(A)) >= 0.985:
        A = [[x / 2 for x in row] for row in A]
    W = rnd_mat(rng, n, rng.randint(1, n))
    if kind == "zeroB":
        B = [[F(0)] * n for _ in range(n)]
    elif rng.random() < 0.6:   # PSD, possibly singular
        B = [[sum(W[i][l] * W[j][l] for l in range(len(W[0]))) for j in range(n)] for i in range(n)]
    else:                      # the equation does not need symmetry
        B = rnd_mat(rng, n, n)
    return A, B


def gen_ricc(rng, kind, ns, nc):
    """rational (A,B,Q,R,N) with [[Q,N'],[N,R]] = W'W + diag(0, eps I) (so the stage cost is PSD and R > 0)"""
    for _attempt in range(200):
        A = rnd_mat(rng, ns, ns, lo=-4, hi=4)
        if kind == "unstable":
            A = scale_to_radius(rng, A, rng.choice([1.05, 1.2, 1.5, 2.0]))
        elif kind == "stable":
            A = scale_to_radius(rng, A, rng.choice([0.3, 0.6, 0.9]))
        else:
            A = scale_to_radius(rng, A, rng.choice([0.5, 0.9, 1.0, 1.1, 1.3]))
        B = rnd_mat(rng, ns, nc, lo=-3, hi=3)
        rank = rng.randint(1, ns + nc) if kind != "singularQ" else rng.randint(1, max(1, ns - 1))
        W = rnd_mat(rng, rank, ns + nc, lo=-3, hi=3, dens=(1, 1, 2, 2, 4))
        if kind == "noN":
            for r in W:   # block structure: no cross term
                if rng.random() < 0.5:
                    for j in range(ns, ns + nc): r[j] = F(0)
                else:
                    for j in range(ns): r[j] = F(0)
        G = [[sum(W[l][i] * W[l][j] for l in range(rank)) for j in range(ns + nc)] for i in range(ns + nc)]
        Q = [row[:ns] for row in G[:ns]]
        N = [row[:ns] for row in G[ns:]]
        R = [row[ns:] for row in G[ns:]]
        eps = rng.choice([F(1, 4), F(1, 2), F(1), F(2)])
        for i in range(nc):
            R[i][i] += eps
        if kind == "singularQ" and ns >= 2 and rng.random() < 0.3:
            Q = [[F(0)] * ns for _ in range(ns)]; N = [[F(0)] * ns for _ in range(nc)]
            kindQ0 = True
        # guard of the property: stabilisable, detectable, well conditioned
        An, Bn, Qn, Rn, Nn = npf(A), npf(B), npf(Q), npf(R), npf(N)
        if np.linalg.cond(Rn) > 1e4:
            continue
        Ab = An - Bn @ np.linalg.solve(Rn, Nn)
        Qb = Qn - Nn.T @ np.linalg.solve(Rn, Nn)
        Qb = (Qb + Qb.T) / 2
        w, V = np.linalg.eigh(Qb)
        if w.min() < -1e-9:
            continue
        C = (V * np.sqrt(np.clip(w, 0, None))).T
        if pbh_margin(An, Bn, rows=False) < 5e-2 or pbh_margin(Ab, C, rows=True) < 5e-2:
            continue
        # eigenvalues on the unit circle of the closed loop make the problem ill conditioned: keep a margin
        return A, B, Q, R, N
    return None



# ------------------------------------------------------------------ dtype / argument forms
INT_FORMS = ("int64", "int32", "list", "float32")


def as_form(M, form):
    """integer-valued matrix M (list of lists) in the requested argument form"""
    ints = [[int(x) for x in row] for row in M]
    if form == "int64":
        return np.array(ints, dtype=np.int64)
    if form == "int32":
        return np.array(ints, dtype=np.int32)
    if form == "list":
        return ints
    if form == "float32":
        return np.array(ints, dtype=np.float32)
    if form == "scalar":
        return ints[0][0]
    return np.array(ints, dtype=float)


def gen_ricc_int(rng, ns, nc):
    """integer-valued (A,B,Q,R,N) inside the property's guard"""
    for _ in range(300):
        A = [[Fraction(rng.randint(-2, 2)) for _ in range(ns)] for _ in range(ns)]
        B = [[Fraction(rng.randint(-2, 2)) for _ in range(nc)] for _ in range(ns)]
        W = [[Fraction(rng.randint(-2, 2)) for _ in range(ns + nc)] for _ in range(rng.randint(1, ns + nc))]
        G = [[sum(W[l][i] * W[l][j] for l in range(len(W))) for j in range(ns + nc)] for i in range(ns + nc)]
        Q = [row[:ns] for row in G[:ns]]; N = [row[:ns] for row in G[ns:]]; R = [row[ns:] for row in G[ns:]]
        for i in range(nc):
            R[i][i] += rng.choice([1, 2])
        An, Bn, Qn, Rn, Nn = npf(A), npf(B), npf(Q), npf(R), npf(N)
        if np.linalg.cond(Rn) > 1e3 or spec_radius(An) > 2.5:
            continue
        Ab = An - Bn @ np.linalg.solve(Rn, Nn)
        Qb = Qn - Nn.T @ np.linalg.solve(Rn, Nn); Qb = (Qb + Qb.T) / 2
        w, V = np.linalg.eigh(Qb)
        if w.min() < -1e-9:
            continue
        C = (V * np.sqrt(np.clip(w, 0, None))).T
        if pbh_margin(An, Bn, rows=False) < 1e-1 or pbh_margin(Ab, C, rows=True) < 1e-1:
            continue
        return A, B, Q, R, N
    return None


# ------------------------------------------------------------------ hardening audit helpers (classes 1-6 of the audit)
ARRAY_DRESS = ("list", "tuple", "int64", "int32", "float32", "float64", "noncontig", "fortran", "rowslice")
SCALAR_DRESS = ("int", "float", "np.int64", "np.int32", "np.intp", "np.uint8", "np.float64", "np.float32")


def dress_array(M, form):
    """integer-valued matrix in one of the audit's array 'dresses'"""
    ints = [[int(x) for x in row] for row in M]
    r_, c_ = len(ints), len(ints[0])
    if form == "list":
        return ints
    if form == "tuple":
        return tuple(tuple(row) for row in ints)
    if form in ("int64", "int32", "float32", "float64"):
        return np.array(ints, dtype=form)
    if form == "noncontig":
        big = np.full((2 * r_, 2 * c_), 7.0); big[::2, ::2] = ints
        return big[::2, ::2]
    if form == "fortran":
        return np.asfortranarray(np.array(ints, dtype=float))
    if form == "rowslice":
        big = np.full((r_ + 2, c_), -3.0); big[1:1 + r_, :] = ints
        return big[1:1 + r_, :]
    raise KeyError(form)


def dress_scalar(v, form):
    return {"int": int, "float": float, "np.int64": np.int64, "np.int32": np.int32, "np.intp": np.intp, "np.uint8": np.uint8,
            "np.float64": np.float64, "np.float32": np.float32}[form](v)


def _snap(x):
    return x.copy() if isinstance(x, np.ndarray) else np.array(x, dtype=object if isinstance(x, str) else None).copy() if isinstance(x, (list, tuple)) else x


def _same(a, b):
    try:
        return bool(np.array_equal(np.asarray(a), np.asarray(b)))
    except Exception:
        return a is b


def _arrays(out):
    if isinstance(out, np.ndarray):
        return [out]
    if isinstance(out, (tuple, list)):
        return [o for x in out for o in _arrays(x)]
    return []


def checked_call(ctx, kind, fn, args, inp):
    """call fn(); an exception, a mutated argument or a result sharing memory with an argument is an oracle failure"""
    snaps = {k_: _snap(v) for k_, v in args.items()}
    try:
        out = fn()
    except Exception as e:     # noqa
        ctx.fail(kind + "_raises", "raises on a valid input", inp, repr(e), None)
        return None
    for k_, v in args.items():
        if not _same(v, snaps[k_]):
            ctx.fail(kind + "_mutates_argument", "argument %s is modified by the call" % k_, dict(inp, argument=k_), jsonable(v), jsonable(snaps[k_]))
    for o in _arrays(out):
        for k_, v in args.items():
            if isinstance(v, np.ndarray) and np.shares_memory(o, v):
                ctx.fail(kind + "_aliases_argument", "result shares memory with argument %s" % k_, dict(inp, argument=k_), None, None)
    return out


def harden_c06(ctx, me, thorough):
    rng = ctx.rng
    reldev = lambda X, Y: (float(np.max(np.abs(np.asarray(X, float) - Y)) / (1 + np.max(np.abs(Y)))) if np.shape(X) == np.shape(Y) else float("inf"))   # noqa
    # ================= Lyapunov
    for t in range(30 if thorough else 10):
        n = rng.randint(1, 3)
        A, B = gen_lyap(rng, "nilpotent_int", n)
        degenerate = None
        if t % 5 == 0:
            degenerate = rng.choice(["A=0", "B=0", "n=1"])
            if degenerate == "A=0":
                A = [[Fraction(0)] * n for _ in range(n)]
            elif degenerate == "B=0":
                B = [[Fraction(0)] * n for _ in range(n)]
            else:
                n = 1; A = [[Fraction(0)]]; B = [[Fraction(rng.randint(-4, 4))]]
            ctx.count("degenerate:lyapunov_%s" % degenerate)
        ref = me.solve_discrete_lyapunov(npf(A), npf(B))
        exact = npf(B) if degenerate == "A=0" else None
        for v in range(4):
            fa, fb = rng.choice(ARRAY_DRESS), rng.choice(ARRAY_DRESS)
            fm = rng.choice(SCALAR_DRESS + ("omitted",))
            meth = rng.choice(["omitted", "doubling", "bartels-stewart"])
            Aa, Ba = dress_array(A, fa), dress_array(B, fb)
            kw = {}
            if fm != "omitted" and meth != "bartels-stewart":
                kw["max_it"] = dress_scalar(50, fm)
            if meth != "omitted":
                kw["method"] = meth
            inp = {"fn": "solve_discrete_lyapunov", "kind": "hardening", "A": A, "B": B, "dress_A": fa, "dress_B": fb, "max_it_dress": fm, "method": meth}
            ctx.count("dress:%s" % fa); ctx.count("dress:%s" % fb); ctx.count("dress:max_it=%s" % fm); ctx.count("optional:method=%s" % meth)
            ctx.case(("h_lyap", str(A), str(B), fa, fb, fm, meth), nontrivial=True)
            X = checked_call(ctx, "lyap", lambda: me.solve_discrete_lyapunov(Aa, Ba, **kw), {"A": Aa, "B": Ba}, inp)
            if X is None:
                continue
            d_ = reldev(X, ref)
            if d_ > 1e-9 or (exact is not None and reldev(X, exact) > 1e-12):
                ctx.fail("lyap_dress", "result differs from the canonical float64 call by %.3g" % d_, inp, np.asarray(X).tolist(), ref.tolist())
        # successive results do not alias each other
        Aa, Ba = npf(A), npf(B)
        X1 = me.solve_discrete_lyapunov(Aa, Ba); X2 = me.solve_discrete_lyapunov(Aa, Ba)
        keep = X2.copy(); X1 += 1.0
        ctx.count("alias:successive_results")
        if np.shares_memory(X1, X2) or not np.array_equal(X2, keep):
            ctx.fail("lyap_aliases_results", "two successive results share memory", {"fn": "solve_discrete_lyapunov", "A": A, "B": B}, None, None)
    for bad in ("Doubling", "bartels", ""):
        ctx.count("expected_error:lyapunov_method")
        try:
            me.solve_discrete_lyapunov(np.zeros((1, 1)), np.ones((1, 1)), method=bad)
            ctx.fail("lyap_accepts_bad_method", "unknown method name accepted", {"fn": "solve_discrete_lyapunov", "method": bad}, "no error", "ValueError")
        except ValueError:
            pass
        except Exception as e:     # noqa
            ctx.fail("lyap_accepts_bad_method", "unknown method name: wrong exception", {"fn": "solve_discrete_lyapunov", "method": bad}, repr(e), "ValueError")
    # ================= Riccati
    tol_d = float(inspect.signature(me.solve_discrete_riccati).parameters["tolerance"].default)
    mi_d = int(inspect.signature(me.solve_discrete_riccati).parameters["max_iter"].default)
    for t in range(24 if thorough else 8):
        ns, nc = rng.randint(1, 3), rng.randint(1, 2)
        g = gen_ricc_int(rng, ns, nc)
        if g is None:
            continue
        A, B, Q, R, N = g
        degenerate = None
        if t % 4 == 0:
            degenerate = rng.choice(["N=0", "Q=0,N=0,A nilpotent", "B=0,N=0,A nilpotent", "ns=nc=1"])
            ctx.count("degenerate:riccati_%s" % degenerate)
            if degenerate == "ns=nc=1":
                g1 = gen_ricc_int(rng, 1, 1)
                if g1 is None:
                    continue
                ns, nc = 1, 1; A, B, Q, R, N = g1
            else:
                N = [[Fraction(0)] * ns for _ in range(nc)]
                if degenerate != "N=0":
                    A = [[A[a][b] if b > a else Fraction(0) for b in range(ns)] for a in range(ns)]
                if degenerate.startswith("Q=0"):
                    Q = [[Fraction(0)] * ns for _ in range(ns)]
                if degenerate.startswith("B=0"):
                    B = [[Fraction(0)] * nc for _ in range(ns)]
        zeroN = all(x == 0 for r in N for x in r)
        mats = {"A": A, "B": B, "Q": Q, "R": R, "N": N}
        for method in ("doubling", "qz"):
            try:
                ref = np.atleast_2d(me.solve_discrete_riccati(*[npf(mats[k_]) for k_ in "ABQRN"], method=method))
            except Exception as e:     # noqa
                ctx.fail("ricc_raises", "canonical float64 call raises on a valid (degenerate: %s) input" % degenerate,
                         dict({"fn": "solve_discrete_riccati", "kind": "hardening", "method": method}, **mats), repr(e), None)
                continue
            if degenerate and degenerate.startswith("Q=0") and np.max(np.abs(ref)) > 1e-12:
                ctx.fail("ricc_degenerate", "Q = 0, N = 0, nilpotent A: the stabilising solution is X = 0", dict({"fn": "solve_discrete_riccati", "method": method}, **mats), ref.tolist(), 0)
            for v in range(3):
                forms = {k_: rng.choice(ARRAY_DRESS) for k_ in "ABQRN"}
                args = {k_: dress_array(mats[k_], forms[k_]) for k_ in "ABQRN"}
                nmode = rng.choice(["omitted", "None", "zeros"]) if zeroN else "given"
                kw = {"method": method} if (method == "qz" or rng.random() < 0.5) else {}
                ft, fmx = rng.choice(("omitted", "float", "np.float64")), rng.choice(SCALAR_DRESS + ("omitted",))
                if ft != "omitted":
                    kw["tolerance"] = dress_scalar(tol_d, ft)
                if fmx != "omitted":
                    kw["max_iter"] = dress_scalar(mi_d if fmx != "np.uint8" else 200, fmx)
                pos = [args["A"], args["B"], args["Q"], args["R"]]
                if nmode == "None":
                    pos.append(None)
                elif nmode in ("given", "zeros"):
                    pos.append(args["N"])
                inp = dict({"fn": "solve_discrete_riccati", "kind": "hardening", "dress": forms, "N_mode": nmode, "kwargs": {k_: repr(v_) for k_, v_ in kw.items()}, "method": method}, **mats)
                for f_ in forms.values():
                    ctx.count("dress:%s" % f_)
                ctx.count("optional:N=%s" % nmode); ctx.count("optional:tolerance=%s" % ft); ctx.count("dress:max_iter=%s" % fmx)
                ctx.case(("h_ricc", str(mats), str(forms), nmode, str(kw)), nontrivial=True)
                X = checked_call(ctx, "ricc", lambda: me.solve_discrete_riccati(*pos, **kw), args, inp)
                if X is None:
                    continue
                d_ = reldev(np.atleast_2d(X), ref)
                if d_ > (1e-5 if "float32" in forms.values() else 1e-9):
                    ctx.fail("ricc_dress", "result differs from the canonical float64 call by %.3g" % d_, inp, np.asarray(X).tolist(), ref.tolist())
            X1 = me.solve_discrete_riccati(*[npf(mats[k_]) for k_ in "ABQRN"], method=method)
            X2 = me.solve_discrete_riccati(*[npf(mats[k_]) for k_ in "ABQRN"], method=method)
            ctx.count("alias:successive_results")
            if np.shares_memory(X1, X2):
                ctx.fail("ricc_aliases_results", "two successive results share memory", dict({"fn": "solve_discrete_riccati", "method": method}, **mats), None, None)
    ctx.count("expected_error:riccati_method")
    try:
        me.solve_discrete_riccati(np.eye(1), np.eye(1), np.eye(1), np.eye(1), method="QZ")
        ctx.fail("ricc_accepts_bad_method", "unknown method name accepted", {"fn": "solve_discrete_riccati", "method": "QZ"}, "no error", "ValueError")
    except ValueError:
        pass

# ------------------------------------------------------------------ main
def run(ctx):
    import quantecon as qe
    import quantecon._matrix_eqn as me
    thorough = ctx.tier == "thorough"
    ctx.proofs()
    rng = ctx.rng
    lyap_tol = source_literal_lyap_tol()
    PRE = ("Definition LYAP_TOL : float := %s.\nDefinition LYAP_TOLQ : Q := %s.\nDefinition VTOL : float := %s.\n"
           % (f1(lyap_tol), qlit(frac(lyap_tol)), f1(TOL_VAL)))

    # ================================================================ Lyapunov
    kinds = ["random"] * 6 + ["slow", "diag", "zeroB", "scalar", "scalar", "cap", "cap"]
    n_lyap = 700 if thorough else 110
    cases, meta = [], []
    worst = {"lyap_res": 0.0, "lyap_agree": 0.0, "ricc_res": 0.0, "ricc_sym": 0.0, "ricc_agree": 0.0, "ricc_rho": 0.0}
    for t in range(n_lyap):
        kind = rng.choice(kinds)
        n = 1 if kind == "scalar" else rng.randint(1, 5)
        A, B = gen_lyap(rng, "random" if kind in ("scalar", "cap") else kind, n)
        max_it = 50
        if kind == "cap":
            max_it = rng.choice([0, 1, 2, 3, 4])
            if rng.random() < 0.5:
                A = scale_to_radius(rng, A, 0.97)
        Af, Bf = fl(A), fl(B)
        args = (Af[0][0], Bf[0][0]) if kind == "scalar" else (np.array(Af), np.array(Bf))
        try:
            X = me.solve_discrete_lyapunov(args[0], args[1], max_it=max_it) if kind == "cap" else \
                me.solve_discrete_lyapunov(*args)
            status = "ok"
        except ValueError:
            X, status = None, "ValueError"
        inp = {"fn": "solve_discrete_lyapunov", "kind": kind, "n": n, "A": A, "B": B, "max_it": max_it}
        ctx.count("lyap:kind=%s" % kind); ctx.count("lyap:n=%d" % n); ctx.count("lyap:status=%s" % status)
        nontriv = status == "ok" and any(x != 0 for r in A for x in r)
        ctx.case(("lyap", kind, n, str(A), str(B), max_it), nontrivial=nontriv,
                 sample={"solve_discrete_lyapunov": {"A": Af, "B": Bf, "max_it": max_it}, "impl": X if X is None else np.asarray(X).tolist()})
        Xl = np.atleast_2d(X).tolist() if status == "ok" else []
        cases.append(tup(zl(max_it), natlit(n), flist2(Af), flist2(Bf), blit(status == "ok"), flist2(Xl) if Xl else "(@nil (list float))"))
        meta.append(inp)
        # ---- oracle (only inside the property's guard: stable A, default cap)
        if kind != "cap":
            if status != "ok" or not np.all(np.isfinite(X)):
                ctx.fail("lyap_no_solution", "solve_discrete_lyapunov(doubling) fails on a stable A", inp, status, "a solution")
                continue
            r = lyap_oracle(Af, Bf, X)
            worst["lyap_res"] = max(worst["lyap_res"], r)
            if not r <= TOL_RES_LYAP:
                ctx.fail("lyap_residual", "doubling: A X A' - X + B is not 0 up to rounding", inp, np.asarray(X).tolist(), "relative residual %.3g > %g" % (r, TOL_RES_LYAP))
            Xb = me.solve_discrete_lyapunov(np.array(Af), np.array(Bf), method="bartels-stewart")
            rb = lyap_oracle(Af, Bf, Xb)
            worst["lyap_res"] = max(worst["lyap_res"], rb)
            if not rb <= TOL_RES_LYAP:
                ctx.fail("lyap_residual", "bartels-stewart: A X A' - X + B is not 0 up to rounding", dict(inp, method="bartels-stewart"), np.asarray(Xb).tolist(), "relative residual %.3g" % rb)
            ag = float(np.max(np.abs(np.atleast_2d(X) - Xb)) / (1 + np.max(np.abs(Xb))))
            worst["lyap_agree"] = max(worst["lyap_agree"], ag)
            if not ag <= TOL_AGREE:
                ctx.fail("lyap_methods_disagree", "doubling and bartels-stewart differ", inp, [np.asarray(X).tolist(), Xb.tolist()], "relative difference %.3g" % ag)
    # ---- dtype / argument forms: integer-dtype, nested-list, float32 and scalar arguments must give the float64 answer
    for t in range(36 if thorough else 14):
        variant = t % 3
        n = rng.randint(1, 4)
        fa = rng.choice(INT_FORMS); fb = rng.choice(INT_FORMS)
        if variant == 0:     # integer (nilpotent, hence stable) A in an integer form, REAL-valued float64 B
            A, _B = gen_lyap(rng, "nilpotent_int", n); B = rnd_mat(rng, n, n, lo=-9, hi=9, dens=(2, 3, 4, 5, 8))
            if n == 1 and rng.random() < 0.5:
                fa = "scalar"
            Aarg, Barg, fb = as_form(A, fa), (np.array(fl(B)) if fa != "scalar" else fl(B)[0][0]), "float64"
        elif variant == 1:   # float64 stable A, integer-valued B in an integer form
            A, _B = gen_lyap(rng, "random", n); B = [[Fraction(rng.randint(-5, 5)) for _ in range(n)] for _ in range(n)]
            Aarg, Barg, fa = np.array(fl(A)), as_form(B, fb), "float64"
        else:                # both integer-valued, both in integer forms
            A, B = gen_lyap(rng, "nilpotent_int", n)
            if n == 1 and rng.random() < 0.5:
                fa = fb = "scalar"
            Aarg, Barg = as_form(A, fa), as_form(B, fb)
        Af, Bf = fl(A), fl(B)
        inp = {"fn": "solve_discrete_lyapunov", "kind": "dtype_forms", "n": n, "A": A, "B": B, "form_A": fa, "form_B": fb, "max_it": 50}
        ctx.count("lyap:forms=%s/%s" % (fa, fb)); ctx.count("lyap:kind=dtype_forms")
        ctx.case(("lyap_forms", n, str(A), str(B), fa, fb), nontrivial=True)
        ref = me.solve_discrete_lyapunov(np.array(Af), np.array(Bf))
        for method in ("doubling", "bartels-stewart"):
            minp = dict(inp, method=method)
            if method == "bartels-stewart" and "scalar" in (fa, fb):
                # the bartels-stewart branch hands its arguments to SciPy unchanged, which does not accept 0-d input
                # (true of the pinned tree for float scalars as well): scalars are an accepted form of the doubling branch only
                ctx.count("observation:bartels-stewart_does_not_accept_scalars"); continue
            try:
                X = np.atleast_2d(np.asarray(me.solve_discrete_lyapunov(Aarg, Barg, method=method), dtype=float))
            except Exception as e:
                ctx.fail("lyap_dtype_forms", "%s raises for %s A / %s B" % (method, fa, fb), minp, repr(e), ref.tolist()); continue
            dev = float(np.max(np.abs(X - ref)) / (1 + np.max(np.abs(ref)))) if X.shape == ref.shape else float("inf")
            r = lyap_oracle(Af, Bf, X) if X.shape == ref.shape else float("inf")
            if dev > 1e-9 or not r <= (1e-6 if "float32" in (fa, fb) else TOL_RES_LYAP):
                ctx.fail("lyap_dtype_forms", "%s with %s A / %s B does not solve the equation of the values passed (float64 run differs by %.3g, residual %.3g)"
                         % (method, fa, fb, dev, r), minp, X.tolist(), ref.tolist())
            if method == "doubling" and X.shape == ref.shape:
                cases.append(tup(zl(50), natlit(n), flist2(Af), flist2(Bf), blit(True), flist2(X.tolist())))
                meta.append(inp)
    # exact iteration cap: smallest max_it that does not raise, on systems whose arithmetic is the same in BLAS and
    # in the model (1x1 or integer nilpotent), then max_it = that, one less, one more
    for t in range(16 if thorough else 8):
        if rng.random() < 0.5:
            n = 1
            A = [[Fraction(rng.randint(-7, 7), 8)]]; B = [[Fraction(rng.randint(1, 9), 2)]]
        else:
            n = rng.randint(2, 4)
            A, B = gen_lyap(rng, "nilpotent_int", n)
        Af, Bf = fl(A), fl(B)
        need = None
        for mi in range(1, 61):
            try:
                me.solve_discrete_lyapunov(np.array(Af), np.array(Bf), max_it=mi); need = mi; break
            except ValueError:
                pass
        ctx.count("lyap:cap_exact_needed=%s" % need)
        if need is None:
            continue
        for mi in (need - 1, need, need + 1):
            try:
                X = me.solve_discrete_lyapunov(np.array(Af), np.array(Bf), max_it=mi); status = "ok"
            except ValueError:
                X, status = None, "ValueError"
            Xl = np.atleast_2d(X).tolist() if status == "ok" else []
            cases.append(tup(zl(mi), natlit(n), flist2(Af), flist2(Bf), blit(status == "ok"), flist2(Xl) if Xl else "(@nil (list float))"))
            meta.append({"fn": "solve_discrete_lyapunov", "kind": "cap_exact", "n": n, "A": A, "B": B, "max_it": mi})
            ctx.case(("lyap_cap", n, str(A), str(B), mi), nontrivial=(status == "ok"))
            ctx.count("lyap:kind=cap_exact"); ctx.count("lyap:status=%s" % status)
    ok = ("fun c => let '(max_it, n, A, B, okf, X) := c in "
          "match solve_discrete_lyapunov LYAP_TOL max_it n A B with "
          "| Some (_, G) => okf && Fss_close VTOL G X | None => negb okf end")
    bad = ctx.coq_check("lyapunov_doubling_float", IMPORTS, "Z * nat * list (list float) * list (list float) * bool * list (list float)",
                        ok, cases, chunk=12, preamble=PRE)
    for i in bad:
        m = meta[i]
        ctx.mismatch("C06.Model.solve_discrete_lyapunov (NumF) vs _matrix_eqn.solve_discrete_lyapunov(doubling)", m,
                     model=ctx.coq_eval(IMPORTS, "solve_discrete_lyapunov LYAP_TOL %s %s %s %s" % (
                         zl(m["max_it"]), natlit(m["n"]), flist2(fl(m["A"])), flist2(fl(m["B"]))), preamble=PRE)[:1500])

    # exact Q instance: integer nilpotent A (A^n = 0): doubling terminates with diff = 0 and binary64 is exact
    cases, meta = [], []
    for t in range(40 if thorough else 16):
        n = rng.randint(1, 5)
        A, B = gen_lyap(rng, "nilpotent_int", n)
        X = me.solve_discrete_lyapunov(npf(A), npf(B))
        exact = [[F(0)] * n for _ in range(n)]   # oracle: finite sum  sum_{j<n} A^j B A'^j  in Fractions
        P = [[F(int(i == j)) for j in range(n)] for i in range(n)]
        mul = lambda X_, Y_: [[sum(X_[i][l] * Y_[l][j] for l in range(len(Y_))) for j in range(len(Y_[0]))] for i in range(len(X_))]
        tr = lambda X_: [list(r) for r in zip(*X_)]
        for j in range(n):
            T_ = mul(mul(P, B), tr(P))
            exact = [[exact[a][b] + T_[a][b] for b in range(n)] for a in range(n)]
            P = mul(P, A)
        inp = {"fn": "solve_discrete_lyapunov", "kind": "nilpotent_int", "n": n, "A": A, "B": B, "max_it": 50}
        ctx.count("lyap:kind=nilpotent_int"); ctx.count("lyap:n=%d" % n)
        ctx.case(("lyapQ", n, str(A), str(B)), nontrivial=any(x != 0 for r in A for x in r))
        if [[frac(x) for x in row] for row in np.atleast_2d(X).tolist()] != exact:
            ctx.fail("lyap_exact", "nilpotent integer system: result is not the finite sum of A^j B A'^j", inp, np.asarray(X).tolist(), fl(exact))
        cases.append(tup(natlit(n), qlist2(A), qlist2(B), qlist2([[frac(x) for x in row] for row in np.atleast_2d(X).tolist()])))
        meta.append(inp)
    ok = ("fun c => let '(n, A, B, X) := c in match solve_discrete_lyapunov LYAP_TOLQ 50%Z n A B with "
          "| Some (_, G) => Qss_eqb G X | None => false end")
    bad = ctx.coq_check("lyapunov_doubling_Q_exact", IMPORTS, "nat * list (list Q) * list (list Q) * list (list Q)", ok, cases, chunk=8, preamble=PRE)
    for i in bad:
        ctx.mismatch("C06.Model.solve_discrete_lyapunov (NumQ, exact) vs implementation on integer nilpotent systems", meta[i])

    # m_quadratic_sum is the same routine (observe_at): residual oracle only
    for t in range(12 if thorough else 6):
        n = rng.randint(1, 4)
        A, B = gen_lyap(rng, "random", n)
        X = qe.m_quadratic_sum(npf(A), npf(B))
        r = lyap_oracle(fl(A), fl(B), X)
        ctx.case(("mqs", str(A), str(B)), nontrivial=True)
        if not r <= TOL_RES_LYAP:
            ctx.fail("lyap_residual", "m_quadratic_sum: A X A' - X + B is not 0", {"fn": "m_quadratic_sum", "A": A, "B": B}, X.tolist(), "relative residual %.3g" % r)
    # var_quadratic_sum: q0 = sum_t beta^t E[x_t' H x_t] (mpmath truncated series, stable sqrt(beta) A)
    for t in range(10 if thorough else 5):
        n = rng.randint(1, 3); j = rng.randint(1, 2)
        A = scale_to_radius(rng, rnd_mat(rng, n, n), rng.choice([0.3, 0.6]))
        C = rnd_mat(rng, n, j, lo=-2, hi=2)
        Wm = rnd_mat(rng, n, n, lo=-2, hi=2)
        H = [[sum(Wm[l][a] * Wm[l][b] for l in range(n)) for b in range(n)] for a in range(n)]
        beta = rng.choice([F(1, 2), F(9, 10), F(19, 20)])
        x0 = [rnd_frac(rng) for _ in range(n)]
        q0 = float(qe.var_quadratic_sum(npf(A), npf(C), npf(H), float(beta), np.array([float(x) for x in x0])))
        Am, Cm, Hm = mpm(fl(A)), mpm(fl(C)), mpm(fl(H))
        xv = mp.matrix([mp.mpf(float(x)) for x in x0]); b = mp.mpf(float(beta))
        total, Ap, acc, bt = mp.mpf(0), mp.eye(n), mp.mpf(0), mp.mpf(1)
        for s in range(1500):
            xs = Ap * xv
            total += bt * ((xs.T * Hm * xs)[0, 0] + acc)
            M_ = Cm.T * Ap.T * Hm * Ap * Cm
            acc += sum(M_[i, i] for i in range(j))
            Ap = Am * Ap; bt *= b
        ctx.case(("vqs", str(A), str(C), str(H), str(beta), str(x0)), nontrivial=True)
        if not abs(q0 - float(total)) <= 1e-8 * (1 + abs(float(total))):
            ctx.fail("var_quadratic_sum", "var_quadratic_sum differs from the discounted series", {"fn": "var_quadratic_sum", "A": A, "C": C, "H": H, "beta": beta, "x0": x0}, q0, float(total))

    # ================================================================ Riccati
    ricc_tol = float(inspect.signature(me.solve_discrete_riccati).parameters["tolerance"].default)
    ricc_maxit = int(inspect.signature(me.solve_discrete_riccati).parameters["max_iter"].default)
    kinds = ["random", "random", "unstable", "unstable", "stable", "singularQ", "noN", "scalar", "scalar"]
    n_ricc = 600 if thorough else 90
    cases, meta, qcases, qmeta = [], [], [], []
    n_gamma_same = 0
    for t in range(n_ricc):
        kind = rng.choice(kinds)
        if kind == "scalar":
            ns, nc = 1, 1
        else:
            ns, nc = rng.randint(1, 5), rng.randint(1, 4)
        g = gen_ricc(rng, "random" if kind == "scalar" else kind, ns, nc)
        if g is None:
            ctx.count("ricc:generator_gave_up"); continue
        A, B, Q, R, N = g
        Af, Bf, Qf, Rf, Nf = fl(A), fl(B), fl(Q), fl(R), fl(N)
        zeroN = all(x == 0 for r in N for x in r)
        passN = None if (zeroN and rng.random() < 0.7) else np.array(Nf)
        if kind == "scalar":
            pargs = (Af[0][0], Bf[0][0], Qf[0][0], Rf[0][0], None if passN is None else Nf[0][0])
        else:
            pargs = (np.array(Af), np.array(Bf), np.array(Qf), np.array(Rf), passN)
        status, X, rec = call_riccati(me, *pargs)
        inp = {"fn": "solve_discrete_riccati", "kind": kind, "ns": ns, "nc": nc, "A": A, "B": B, "Q": Q, "R": R, "N": N,
               "N_passed": passN is not None}
        gamma = rec.get("gamma")
        g2 = recompute_gamma(Af, Bf, Qf, Rf, Nf)
        if gamma is None:
            gamma = g2
            ctx.count("ricc:gamma_from_recomputation")
        n_gamma_same += int(gamma == g2)
        its = (rec.get("i") or 1) - 1
        ctx.count("ricc:kind=%s" % kind); ctx.count("ricc:ns=%d,nc=%d" % (ns, nc)); ctx.count("ricc:status=%s" % status)
        ctx.count("ricc:gamma=%s" % gamma); ctx.count("ricc:crossterm=%s" % ("no" if zeroN else "yes"))
        ctx.count("ricc:A=%s" % ("unstable" if spec_radius(Af) >= 1 else "stable"))
        ctx.count("ricc:iterations=%s" % (its if its < 12 else ">=12"))
        ctx.case(("ricc", ns, nc, str(g)), nontrivial=(status == "ok" and its >= 2),
                 sample={"solve_discrete_riccati": {"A": Af, "B": Bf, "Q": Qf, "R": Rf, "N": Nf}, "gamma": gamma, "impl": None if X is None else np.asarray(X).tolist()})
        Xl = np.atleast_2d(X).tolist() if status == "ok" else []
        scode = {"ok": 0, "ValueError": 1, "LinAlgError": 2}[status]
        if gamma is not None:
            cases.append(tup(natlit(ns), natlit(nc), f1(gamma), flist2(Af), flist2(Bf), flist2(Qf), flist2(Rf), flist2(Nf),
                             zl(scode), flist2(Xl) if Xl else "(@nil (list float))"))
            meta.append(dict(inp, gamma=gamma))
            if ns <= 2 and nc <= 2 and its <= (6 if ns == 1 else 4) and status == "ok" and len(qcases) < (30 if thorough else 12):
                qcases.append(tup(natlit(ns), natlit(nc), qlit(frac(gamma)), qlist2(A), qlist2(B), qlist2(Q), qlist2(R), qlist2(N),
                                  qlist2([[frac(x) for x in row] for row in Xl])))
                qmeta.append(dict(inp, gamma=gamma))
        # ---- oracle
        if status != "ok" or not np.all(np.isfinite(X)):
            ctx.fail("ricc_no_solution", "solve_discrete_riccati(doubling) fails on a stabilisable/detectable well-conditioned system", inp, status, "a solution")
            continue
        for method, Xm in (("doubling", np.atleast_2d(X)), ("qz", None)):
            if Xm is None:
                try:
                    Xm = np.atleast_2d(me.solve_discrete_riccati(*pargs, method="qz"))
                except Exception as e:
                    ctx.fail("ricc_no_solution", "solve_discrete_riccati(qz) raises", dict(inp, method="qz"), repr(e), "a solution")
                    continue
                ag = float(np.max(np.abs(Xm - np.atleast_2d(X))) / (1 + np.max(np.abs(Xm))))
                worst["ricc_agree"] = max(worst["ricc_agree"], ag)
                if not ag <= TOL_AGREE:
                    ctx.fail("ricc_methods_disagree", "doubling and qz differ", inp, [np.asarray(X).tolist(), Xm.tolist()], "relative difference %.3g" % ag)
            o = ricc_oracle(Af, Bf, Qf, Rf, Nf, Xm)
            worst["ricc_res"] = max(worst["ricc_res"], o["res"]); worst["ricc_sym"] = max(worst["ricc_sym"], o["sym"])
            worst["ricc_rho"] = max(worst["ricc_rho"], o["rho"])
            minp = dict(inp, method=method)
            if not o["res"] <= TOL_RES:
                ctx.fail("ricc_residual", "%s: X does not satisfy the Riccati equation up to rounding" % method, minp, Xm.tolist(), "relative residual %.3g > %g" % (o["res"], TOL_RES))
            if not o["sym"] <= TOL_SYM:
                ctx.fail("ricc_symmetry", "%s: X is not symmetric" % method, minp, Xm.tolist(), "asymmetry %.3g" % o["sym"])
            if not o["mineig"] >= -TOL_SYM:
                ctx.fail("ricc_psd", "%s: X is not positive semidefinite" % method, minp, Xm.tolist(), "min eigenvalue (relative) %.3g" % o["mineig"])
            if not o["rho"] < 1:
                ctx.fail("ricc_not_stabilising", "%s: closed loop spectral radius >= 1" % method, minp, Xm.tolist(), "rho = %.6g" % o["rho"])
    # ---- dtype / argument forms for the Riccati solver (integer-valued data, every argument in its own form)
    for t in range(30 if thorough else 10):
        ns, nc = rng.randint(1, 3), rng.randint(1, 2)
        g = gen_ricc_int(rng, ns, nc)
        if g is None:
            ctx.count("ricc:forms_generator_gave_up"); continue
        scal = ns == 1 and nc == 1 and rng.random() < 0.4
        forms = ["scalar"] * 5 if scal else [rng.choice(INT_FORMS + ("float64",)) for _ in range(5)]
        if all(f == "float64" for f in forms):
            forms[rng.randrange(5)] = "int64"
        args = [as_form(M, f) for M, f in zip(g, forms)]
        fargs = [np.array(fl(M)) for M in g]
        inp = {"fn": "solve_discrete_riccati", "kind": "dtype_forms", "ns": ns, "nc": nc, "A": g[0], "B": g[1], "Q": g[2], "R": g[3], "N": g[4],
               "forms": forms, "N_passed": True}
        ctx.count("ricc:kind=dtype_forms"); ctx.count("ricc:forms_has_float32=%s" % ("float32" in forms))
        ctx.case(("ricc_forms", str(g), str(forms)), nontrivial=True)
        tolf = 1e-5 if "float32" in forms else 1e-9
        for method in ("doubling", "qz"):
            minp = dict(inp, method=method)
            try:
                ref = np.atleast_2d(me.solve_discrete_riccati(*fargs, method=method))
            except Exception:
                ctx.count("ricc:forms_float64_run_raised"); continue
            try:
                if method == "doubling":
                    status, X, rec = call_riccati(me, *args)
                    if status != "ok":
                        raise ValueError(status)
                else:
                    X = me.solve_discrete_riccati(*args, method=method)
                X = np.atleast_2d(np.asarray(X, dtype=float))
            except Exception as e:
                ctx.fail("ricc_dtype_forms", "%s raises for argument forms %s" % (method, forms), minp, repr(e), ref.tolist()); continue
            dev = float(np.max(np.abs(X - ref)) / (1 + np.max(np.abs(ref)))) if X.shape == ref.shape else float("inf")
            o = ricc_oracle(*[fl(M) for M in g], X) if X.shape == ref.shape else {"res": float("inf")}
            if dev > tolf or not o["res"] <= (1e-5 if "float32" in forms else TOL_RES):
                ctx.fail("ricc_dtype_forms", "%s with argument forms %s does not solve the equation of the values passed (float64 run differs by %.3g, residual %.3g)"
                         % (method, forms, dev, o["res"]), minp, X.tolist(), ref.tolist())
            if method == "doubling" and "float32" not in forms and rec.get("gamma") is not None and X.shape == ref.shape:
                cases.append(tup(natlit(ns), natlit(nc), f1(rec["gamma"]), *[flist2(fl(M)) for M in g], zl(0), flist2(X.tolist())))
                meta.append(dict(inp, gamma=rec["gamma"]))
    ctx.count("ricc:gamma_equals_independent_recomputation", n_gamma_same)
    PRE2 = PRE + "Definition RTOL : float := %s.\nDefinition RTOLQ : Q := %s.\nDefinition RMAX : Z := %s.\n" % (
        f1(ricc_tol), qlit(frac(ricc_tol)), zl(ricc_maxit))
    ok = ("fun c => let '(ns, nc, gamma, A, B, Q, R, N, sc, X) := c in "
          "match solve_discrete_riccati RTOL RMAX ns nc gamma A B Q R N with "
          "| RiccOk _ G => Z.eqb sc 0%Z && Fss_close VTOL G X | RiccMaxIter => Z.eqb sc 1%Z | RiccSingular => Z.eqb sc 2%Z | RiccNoIter => false end")
    ty = "nat * nat * float * list (list float) * list (list float) * list (list float) * list (list float) * list (list float) * Z * list (list float)"
    bad = ctx.coq_check("riccati_doubling_float", IMPORTS, ty, ok, cases, chunk=8, preamble=PRE2)
    for i in bad:
        m = meta[i]
        ctx.mismatch("C06.Model.solve_discrete_riccati (NumF) vs _matrix_eqn.solve_discrete_riccati(doubling)", m,
                     model=ctx.coq_eval(IMPORTS, "solve_discrete_riccati RTOL RMAX %s %s %s %s %s %s %s %s" % (
                         natlit(m["ns"]), natlit(m["nc"]), f1(m["gamma"]), flist2(fl(m["A"])), flist2(fl(m["B"])),
                         flist2(fl(m["Q"])), flist2(fl(m["R"])), flist2(fl(m["N"]))), preamble=PRE2)[:1500])
    # the same text at Q (exact arithmetic) on small systems with few doubling steps
    okq = ("fun c => let '(ns, nc, gamma, A, B, Q, R, N, X) := c in "
           "match solve_discrete_riccati RTOLQ RMAX ns nc gamma A B Q R N with "
           "| RiccOk _ G => Qss_close (1 # 100000000) G X | _ => false end")
    tyq = "nat * nat * Q * list (list Q) * list (list Q) * list (list Q) * list (list Q) * list (list Q) * list (list Q)"
    bad = ctx.coq_check("riccati_doubling_Q", IMPORTS, tyq, okq, qcases, chunk=2, preamble=PRE2)
    for i in bad:
        ctx.mismatch("C06.Model.solve_discrete_riccati (NumQ) vs implementation", qmeta[i])
    harden_c06(ctx, me, thorough)
    ctx.notes.append("largest oracle ratios seen (tolerances %g / %g / %g): %s" % (TOL_RES, TOL_SYM, TOL_AGREE, json.dumps(worst)))
    ctx.trusted += ["mpmath (50 digits) oracle arithmetic", "Riccati gamma observed through a sys.setprofile return hook (frame locals), cross-checked by recomputation"]


def replay(data):
    import quantecon._matrix_eqn as me
    first = data.get("first") or (data.get("mismatches") or [{}])[0]
    print("replay:", json.dumps(first)[:3000])
    inp = first.get("input", {})
    toF = lambda M: np.array([[float(Fraction(x)) if isinstance(x, str) else float(x) for x in row] for row in M])
    if inp.get("fn") == "solve_discrete_lyapunov":
        A, B = toF(inp["A"]), toF(inp["B"])
        for method in ("doubling", "bartels-stewart"):
            try:
                X = me.solve_discrete_lyapunov(A, B, max_it=inp.get("max_it", 50), method=method) if method == "doubling" else me.solve_discrete_lyapunov(A, B, method=method)
                print(method, "X =", X.tolist(), "relative residual", lyap_oracle(A, B, X))
            except Exception as e:
                print(method, "raises", repr(e))
    elif inp.get("fn") == "solve_discrete_riccati":
        A, B, Q, R, N = [toF(inp[k]) for k in "ABQRN"]
        for method in ("doubling", "qz"):
            try:
                X = me.solve_discrete_riccati(A, B, Q, R, N, method=method)
                print(method, "X =", X.tolist(), ricc_oracle(A, B, Q, R, N, X))
            except Exception as e:
                print(method, "raises", repr(e))
    return 0

#!/bin/bash
# harness/seedtest.sh <Cxx> <dir with patch.diff [demo.py]> [tier]
# Applies a seeded change to a scratch worktree of /repo (never to /repo itself),
# runs the demo (must fail) and the check (must exit 1 with a VIOLATION line), cleans up.
id=$1; dir=$2; tier=${3:-quick}
wt=/tmp/wt_seedtest_$$
git -C /repo worktree add --detach $wt HEAD >/dev/null 2>&1 || exit 2
if ! git -C $wt apply "$dir/patch.diff" 2>/dev/null; then
  if ! git -C $wt apply --3way "$dir/patch.diff" 2>/dev/null; then echo "SEEDTEST $id $dir: PATCH DOES NOT APPLY"; git -C /repo worktree remove --force $wt; exit 3; fi
fi
demo="-"
if [ -f "$dir/demo.py" ]; then
  (cd $dir && PYTHONPATH=$wt NUMBA_CACHE_DIR=/tmp/seedtest_nbcache timeout 600 /venv/bin/python demo.py >/dev/null 2>&1); demo=$?
fi
out=$(cd /verif && VERIF_REPO=$wt timeout 1800 ./check $id --tier $tier 2>&1); rc=$?
git -C /repo worktree remove --force $wt
echo "SEEDTEST $id $dir: demo_exit=$demo check_exit=$rc $(echo "$out" | grep -c '^VIOLATION') violation-lines"
echo "$out" | grep "^VIOLATION\|^C[0-9][0-9] " | head -3

"""C18: random generators produce valid objects and are reproducible from a seed."""
import itertools, math, sys, os
import numpy as np
from common import *

IMPORTS = "From QE Require Import C16.Model C18.Model."
MAXU = 1.0 - 2.0 ** -53
FINISH = dict(level="proof", technique_note=(
    "Coq theorems (coq/C18/Props.v) about the model coq/C18/Model.v in which every generator is a pure function of the "
    "numbers drawn; the jitted kernels are called directly with scripted uniform arrays (extremes 0 and 1-2^-53, ties) and "
    "compared bit-exactly with the binary64 instance of the model (vm_compute), whole generators through a scripted "
    "RandomState; independent oracle: validity of every generated object, bimatrix generators against their definitions, "
    "seed reproducibility and advancement of a passed RandomState/Generator. non-trivial = size >= 2 / k >= 2"))


class Scripted(np.random.RandomState):
    """RandomState whose random()/standard_normal() return queued arrays (records what was asked for)"""

    def __init__(self, uniforms=(), normals=()):
        super().__init__(12345)
        self.u = [np.asarray(a, dtype=float) for a in uniforms]
        self.nrm = [np.asarray(a, dtype=float) for a in normals]
        self.asked = []

    def _pop(self, q, size, what):
        self.asked.append((what, size))
        a = q.pop(0)
        shp = () if size is None else ((size,) if isinstance(size, (int, np.integer)) else tuple(size))
        if a.shape != shp:
            raise AssertionError("scripted stream: %s asked for shape %r, next queued array has %r" % (what, shp, a.shape))
        return a.copy() if shp else float(a)

    def random(self, size=None):
        return self._pop(self.u, size, "random")

    random_sample = random

    def standard_normal(self, size=None):
        return self._pop(self.nrm, size, "standard_normal")


def uniforms(rng, shape, mode):
    """scripted uniform draws in [0,1): mode 'float' generic doubles, 'dyadic' multiples of 2^-10,
    'extreme' mixes in 0 and 1-2^-53, 'ties' repeats values"""
    n = int(np.prod(shape)) if shape else 1
    out = []
    for _ in range(n):
        if mode == "float":
            out.append(rng.random())
        elif mode == "dyadic":
            out.append(rng.randrange(1, 1024) / 1024.0)
        elif mode == "extreme":
            out.append(rng.choice([0.0, MAXU, MAXU, rng.random(), rng.randrange(0, 1024) / 1024.0, 0.5, np.nextafter(0.5, 0)]))
        else:
            out.append(rng.choice([0.25, 0.5, 0.75, rng.randrange(0, 8) / 8.0]))
    return np.array(out, dtype=float).reshape(shape)


def degenerate(row):
    row = list(row)
    return any(v == 0.0 for v in row) or len(set(row)) < len(row)


def ll(a, f=qlist):
    a = [list(r) for r in a]
    return "[" + "; ".join(f(r) for r in a) + "]" if a else "(@nil (list _))"

def _nonfinite(o, depth=0):
    """description of the first non-finite numeric content of a generator's output, else None"""
    import scipy.sparse as _sp
    if depth > 4 or o is None or isinstance(o, (str, bool)):
        return None
    if _sp.issparse(o):
        return _nonfinite(o.tocoo().data, depth + 1)
    if not isinstance(o, np.ndarray):
        for attr in ("payoff_array", "P", "csgraph"):
            if hasattr(o, attr):
                return _nonfinite(getattr(o, attr), depth + 1)
        if hasattr(o, "players"):
            return _nonfinite(tuple(o.players), depth + 1)
        if hasattr(o, "polymatrix"):
            return _nonfinite(tuple(o.polymatrix.values()), depth + 1)
        if hasattr(o, "R") and hasattr(o, "Q") and hasattr(o, "beta"):
            return _nonfinite((o.R, o.Q, o.beta), depth + 1)
    if isinstance(o, (tuple, list)):
        for v in o:
            r = _nonfinite(v, depth + 1)
            if r:
                return r
        return None
    try:
        a = np.asarray(o)
    except Exception:
        return None
    if a.dtype != object and np.issubdtype(a.dtype, np.number) and not np.isfinite(a).all():
        return "%d non-finite entries (nan/inf)" % int((~np.isfinite(a)).sum())
    return None


def run(ctx):
    """never let a malformed implementation output crash the harness: it is reported as an oracle failure with the last call"""
    state = {"last": None}
    import random as _random
    for attempt in range(3):
        if attempt:      # start over after an I/O error of the shared numba cache (infrastructure, not the implementation)
            ctx.rng = _random.Random(ctx.seed * 1000003 + int(ctx.prop[1:]))
            ctx.evaluations, ctx.nontrivial, ctx.samples, ctx.dist, ctx.corr, ctx.coq_cases_total = 0, set(), [], {}, {}, 0
            ctx.failures, ctx.mismatches, ctx.known_hits, ctx.obligations = [], [], [], []
            ctx.notes.append('restarted after an I/O error of the shared numba cache')
        try:
            _run(ctx, state)
            break
        except OSError:
            if attempt == 2:
                raise
            continue
        except Exception as e:
            import traceback as _tb
            if state["last"] is not None:
                ctx.fail("harness_exception_after_call", "the oracle could not process the output of this call: %r (%s)"
                         % (e, _tb.format_exc().strip().splitlines()[-3].strip()[:120]), state["last"])
            else:
                raise
        break


def _run(ctx, state):
    import scipy.sparse as sp
    import quantecon as qe
    from quantecon.random import probvec, sample_without_replacement
    from quantecon.random.utilities import _probvec_cpu, _probvec_parallel, _sample_without_replacement
    from quantecon.markov import random_markov_chain, random_stochastic_matrix, random_discrete_dp
    from quantecon.markov.ddp import DiscreteDP
    from quantecon._graph_tools import random_tournament_graph, _populate_random_tournament_row_col
    from quantecon._gridtools import simplex_grid
    from quantecon.util import rng_integers
    from quantecon.game_theory import (random_game, covariance_game, random_pure_actions, random_mixed_actions,
                                       blotto_game, ranking_game, sgc_game, tournament_game, unit_vector_game,
                                       support_enumeration, pure_nash_brute, NormalFormGame)
    from quantecon.game_theory.random import random_polymatrix_game
    import quantecon.game_theory.game_generators.bimatrix_generators as bg
    _plain = (int, float, str, bool, list, tuple, type(None), np.ndarray, np.generic)

    def _guarded(fn, name):
        def call(*args, **kwargs):
            inp = {"call": name, "args": [a if isinstance(a, _plain) else repr(a)[:60] for a in args],
                   "kwargs": {k: (v if isinstance(v, _plain) else repr(v)[:60]) for k, v in kwargs.items()}}
            state["last"] = inp
            out = fn(*args, **kwargs)
            bad = _nonfinite(out)
            if bad:
                ctx.fail("nonfinite_output", "%s returns %s" % (name, bad), inp)
            return out
        call.__name__ = name
        return call
    probvec, sample_without_replacement = _guarded(probvec, "probvec"), _guarded(sample_without_replacement, "sample_without_replacement")
    random_markov_chain, random_stochastic_matrix = _guarded(random_markov_chain, "random_markov_chain"), _guarded(random_stochastic_matrix, "random_stochastic_matrix")
    random_discrete_dp, random_tournament_graph = _guarded(random_discrete_dp, "random_discrete_dp"), _guarded(random_tournament_graph, "random_tournament_graph")
    random_game, covariance_game = _guarded(random_game, "random_game"), _guarded(covariance_game, "covariance_game")
    random_pure_actions, random_mixed_actions = _guarded(random_pure_actions, "random_pure_actions"), _guarded(random_mixed_actions, "random_mixed_actions")
    random_polymatrix_game = _guarded(random_polymatrix_game, "random_polymatrix_game")
    blotto_game, ranking_game, sgc_game = _guarded(blotto_game, "blotto_game"), _guarded(ranking_game, "ranking_game"), _guarded(sgc_game, "sgc_game")
    tournament_game, unit_vector_game = _guarded(tournament_game, "tournament_game"), _guarded(unit_vector_game, "unit_vector_game")
    thorough = ctx.tier == "thorough"
    rng = ctx.rng
    ctx.proofs(["C18/Props.v", "C18/PropsTie.v"])
    reps = 4 if thorough else 1
    jobs = []

    def queue(name, ctype, ok, cases, meta, label, chunk):
        jobs.append((name, ctype, ok, list(cases), list(meta), label, chunk))

    # ================================================================ _probvec kernels
    if os.environ.get("VERIF_DEBUG"): sys.stderr.write("[%6.1fs] _probvec kernels\n" % (__import__("time").time() - ctx.t0))
    fcases, fmeta, qcases, qmeta = [], [], [], []
    for n in range(1, 12):
        for mode in ["float", "dyadic", "extreme", "ties"] * (3 * reps):
            r = uniforms(rng, (n,), mode)
            outs = []
            for kern in (_probvec_cpu, _probvec_parallel):
                rr = r.copy()
                out = np.empty(n + 1)
                kern(rr, out)
                outs.append(out)
            inp = {"call": "_probvec", "r": r.tolist()}
            ctx.case(("probvec", tuple(r.tolist())), nontrivial=n >= 2, sample={"call": "_probvec", "r": r.tolist()[:4], "out": outs[0].tolist()[:4]})
            ctx.count("probvec:%s" % mode)
            if not np.array_equal(outs[0], outs[1]):
                ctx.fail("probvec_targets", "cpu and parallel targets of _probvec disagree", inp, outs[0].tolist(), outs[1].tolist())
            out = outs[0]
            fo = [frac(v) for v in out]
            srt = sorted(frac(v) for v in r)
            exact = [srt[0]] + [srt[i] - srt[i - 1] for i in range(1, n)] + [1 - srt[-1]]
            if any(v < 0 for v in fo) or abs(sum(fo) - 1) > Fraction(n + 1, 2 ** 53) or \
                    any(abs(a - b) > Fraction(1, 2 ** 53) for a, b in zip(fo, exact)):
                ctx.fail("probvec_simplex", "_probvec output is not the vector of sorted-uniform spacings on the unit simplex", inp, out.tolist(),
                         [float(v) for v in exact])
            fcases.append(tup(flist(r), flist(out)))
            fmeta.append(inp)
            if mode in ("dyadic", "ties"):
                qcases.append(tup(qlist([frac(v) for v in r]), qlist(fo)))
                qmeta.append(inp)
    queue("probvec_binary64", "list float * list float", "fun c => Fs_eqb (@probvec_row float _ (fst c)) (snd c)", fcases, fmeta,
          "C18.Model.probvec_row (binary64 instance) vs random.utilities._probvec", 60)
    queue("probvec_exact", "list Q * list Q", "fun c => Qs_eqb (@probvec_row Q _ (fst c)) (snd c)", qcases, qmeta,
          "C18.Model.probvec_row (exact instance) vs random.utilities._probvec", 60)
    # public probvec: shape, simplex, k = 1
    for m, k in [(1, 1), (3, 1), (1, 2), (4, 2), (5, 7), (2, 12)]:
        for parallel in (True, False):
            x = probvec(m, k, random_state=rng.randrange(10**6), parallel=parallel)
            ctx.case(("probvec-public", m, k, parallel), nontrivial=k >= 2)
            if x.shape != (m, k) or (x < 0).any() or not np.allclose(x.sum(axis=1), 1, atol=1e-14, rtol=0):
                ctx.fail("probvec_simplex", "probvec(m,k) is not m points of the unit simplex", {"call": "probvec", "m": m, "k": k, "parallel": parallel}, x.tolist())

    # ================================================================ _sample_without_replacement kernel
    if os.environ.get("VERIF_DEBUG"): sys.stderr.write("[%6.1fs] _sample_without_replacement kernel\n" % (__import__("time").time() - ctx.t0))
    cases, meta = [], []
    for n in range(1, 13):
        ks = sorted({1, n, rng.randrange(1, n + 1), max(1, n - 1)})
        for k in ks:
            for mode in ["float", "extreme", "dyadic"] * reps + ["zeros", "max"]:
                if mode == "zeros":
                    r = np.zeros(k)
                elif mode == "max":
                    r = np.full(k, MAXU)
                else:
                    r = uniforms(rng, (k,), mode)
                out = _sample_without_replacement(n, r.copy())
                inp = {"call": "_sample_without_replacement", "n": n, "r": r.tolist()}
                ctx.case(("swr", n, tuple(r.tolist())), nontrivial=k >= 2, sample={"call": "_sample_without_replacement", "n": n, "r": r.tolist()[:4], "out": out.tolist()[:4]})
                ctx.count("swr:%s" % mode)
                o = out.tolist()
                if len(o) != k or len(set(o)) != k or any(not (0 <= v < n) for v in o):
                    ctx.fail("swr_distinct", "sample is not k distinct integers in [0,n)", inp, o)
                cases.append(tup(natlit(n), flist(r), zlist(o)))
                meta.append(inp)
    # exhaustive small scope: every index sequence (idx_j in [0, n-j)) for n <= 4 (quick) / 6 (thorough), all k <= n
    for n in range(1, 7 if thorough else 5):
        for k in range(1, n + 1):
            for idxs in itertools.product(*[range(n - j) for j in range(k)]):
                r = np.array([(idx + 0.5) / (n - j) for j, idx in enumerate(idxs)])
                out = _sample_without_replacement(n, r.copy()).tolist()
                ctx.case(("swr-exhaustive", n, idxs), nontrivial=k >= 2)
                ctx.count("swr:exhaustive")
                pool = list(range(n))
                exp = []
                for j, idx in enumerate(idxs):          # independent definition: draw position idx of the remaining pool,
                    exp.append(pool[idx])               # move the last remaining element into the hole
                    pool[idx] = pool[n - j - 1]
                if out != exp or len(set(out)) != k:
                    ctx.fail("swr_distinct", "sample differs from the pool-swap definition / not distinct", {"call": "_sample_without_replacement", "n": n, "r": r.tolist()}, out, exp)
                cases.append(tup(natlit(n), flist(r), zlist(out)))
                meta.append({"call": "_sample_without_replacement", "n": n, "r": r.tolist()})
    queue("swr_binary64", "nat * list float * list Z", "fun c => let '(n, r, out) := c in Zs_eqb (swr_F n r) out", cases, meta,
          "C18.Model.swr_F vs random.utilities._sample_without_replacement", 150)
    for n, k, trials in [(1, 1, None), (5, 5, None), (12, 3, 4), (7, 7, 3), (9, 1, 2)]:
        x = sample_without_replacement(n, k, num_trials=trials, random_state=rng.randrange(10**6))
        ctx.case(("swr-public", n, k, trials), nontrivial=k >= 2)
        rows = np.atleast_2d(x)
        if rows.shape != ((trials or 1), k) or any(len(set(r.tolist())) != k or r.min() < 0 or r.max() >= n for r in rows):
            ctx.fail("swr_distinct", "sample_without_replacement: not k distinct integers in range per trial", {"call": "sample_without_replacement", "n": n, "k": k, "num_trials": trials}, x.tolist())
    for bad in [(0, 0), (3, 4), (-1, 1)]:
        try:
            sample_without_replacement(*bad)
            ctx.fail("swr_guard", "sample_without_replacement accepts n<=0 or k>n", {"call": "sample_without_replacement", "n": bad[0], "k": bad[1]})
        except ValueError:
            ctx.count("swr:rejected")

    # ================================================================ random_stochastic_matrix through a scripted stream
    if os.environ.get("VERIF_DEBUG"): sys.stderr.write("[%6.1fs] random_stochastic_matrix through a scrip\n" % (__import__("time").time() - ctx.t0))
    cases, meta = [], []

    def check_stochastic(P, n_rows, n, k, inp, degenerate_rows):
        """oracle: P (dense array) is row-stochastic with exactly k strictly positive entries per row"""
        if P.shape != (n_rows, n) or (P < 0).any() or not np.allclose(P.sum(axis=1), 1, atol=1e-14, rtol=0):
            ctx.fail("stochastic_matrix", "rows are not probability vectors of the requested shape", inp, P.tolist())
            return
        pos = (P > 0).sum(axis=1)
        for i in range(n_rows):
            if pos[i] != k:
                if degenerate_rows is not None and degenerate_rows[i]:
                    ctx.fail("probvec_zero_spacing", "row %d has %d < k=%d strictly positive entries" % (i, pos[i], k),
                             dict(inp, degenerate_draws=True, row=i), P[i].tolist(), k)
                else:
                    ctx.fail("k_positive_entries", "row %d has %d strictly positive entries, k=%d (draws distinct and non-zero)" % (i, pos[i], k),
                             dict(inp, degenerate_draws=False, row=i), P[i].tolist(), k)
    for n in range(1, 13):
        ks = sorted({1, n, rng.randrange(1, n + 1), max(1, n - 1), min(2, n)})
        for k in ks:
            for mode in ["float"] * (2 * reps) + ["extreme", "ties"]:
                sparse = rng.random() < 0.5
                fmt = rng.choice(["csr", "csc", "coo"])
                u1 = uniforms(rng, (n, k - 1), mode if k > 1 else "float") if k > 1 else None
                u2 = uniforms(rng, (n, k), "extreme" if mode != "float" else "float") if k != n else None
                rs = Scripted([a for a in (u1, u2) if a is not None])
                inp = {"call": "random_stochastic_matrix", "n": n, "k": k, "sparse": sparse, "format": fmt, "stream": mode,
                       "u1": None if u1 is None else u1.tolist(), "u2": None if u2 is None else u2.tolist()}
                try:
                    P = random_stochastic_matrix(n, k, sparse=sparse, format=fmt, random_state=rs)
                except AssertionError as e:
                    ctx.mismatch("draw protocol of _random_stochastic_matrix (probvec block m x (k-1), then sample block m x k unless k = n)", inp, repr(e))
                    continue
                if rs.u:
                    ctx.mismatch("draw protocol of _random_stochastic_matrix", inp, "unused scripted draws")
                ctx.case(("rsm", n, k, sparse, fmt, mode, None if u1 is None else tuple(u1.ravel()), None if u2 is None else tuple(u2.ravel())),
                         nontrivial=n >= 2, sample={"call": "random_stochastic_matrix", "n": n, "k": k, "sparse": sparse, "stream": mode})
                ctx.count("rsm:%s:%s" % ("sparse-" + fmt if sparse else "dense", mode))
                if sparse:
                    if not sp.issparse(P) or P.format != fmt:
                        ctx.fail("stochastic_matrix", "sparse=True does not return the requested sparse format", inp, repr(P))
                    Pc = P.tocsr()
                    if k != n and ((np.diff(Pc.indptr) != k).any()):
                        ctx.fail("k_stored_entries", "sparse matrix does not store exactly k entries per row", inp, np.diff(Pc.indptr).tolist(), k)
                    D = P.toarray()
                else:
                    D = np.asarray(P)
                deg = [k > 1 and degenerate(u1[i]) for i in range(n)]
                check_stochastic(D, n, n, k, inp, deg)
                cases.append(tup(natlit(n), natlit(k), ll(u1 if u1 is not None else [[] for _ in range(n)], flist) if k > 1 else
                                 "[" + "; ".join("(@nil float)" for _ in range(n)) + "]",
                                 ll(u2, flist) if u2 is not None else "(@nil (list float))", ll(D, flist)))
                meta.append(inp)
    queue("random_stochastic_matrix", "nat * nat * list (list float) * list (list float) * list (list float)",
          "fun c => let '(n, k, u1, u2, P) := c in Fss_eqb (rsm_F n k u1 u2) P", cases, meta,
          "C18.Model.rsm_F (probvec rows placed at sampled columns) vs markov.random.random_stochastic_matrix", 25)
    # seeded (NumPy streams): validity, reproducibility
    for n in range(1, 13):
        for k in sorted({None, 1, n, rng.randrange(1, n + 1)}, key=lambda v: -1 if v is None else v):
            for sparse in (False, True):
                seed = rng.randrange(10**6)
                inp = {"call": "random_stochastic_matrix", "n": n, "k": k, "sparse": sparse, "seed": seed}
                P1 = random_stochastic_matrix(n, k, sparse=sparse, random_state=seed)
                P2 = random_stochastic_matrix(n, k, sparse=sparse, random_state=seed)
                D1, D2 = (P1.toarray(), P2.toarray()) if sparse else (P1, P2)
                ctx.case(("rsm-seed", n, k, sparse, seed), nontrivial=n >= 2)
                check_stochastic(D1, n, n, k or n, inp, None)
                if not np.array_equal(D1, D2):
                    ctx.fail("seed_reproducible", "same integer seed, different matrices", inp)
                mc = random_markov_chain(n, k, sparse=sparse, random_state=seed)
                Dm = mc.P.toarray() if sparse else mc.P
                if not np.array_equal(Dm, D1):
                    ctx.fail("seed_reproducible", "random_markov_chain(seed) differs from random_stochastic_matrix(seed)", inp)

    # ================================================================ random_discrete_dp assembly
    if os.environ.get("VERIF_DEBUG"): sys.stderr.write("[%6.1fs] random_discrete_dp assembly\n" % (__import__("time").time() - ctx.t0))
    cases, meta, scases, smeta = [], [], [], []
    for _ in range(20 * reps):
        ns, na = rng.randrange(1, 5), rng.randrange(1, 4)
        k = rng.choice([None, 1, ns, rng.randrange(1, ns + 1)])
        kk = ns if k is None else k
        sparse = rng.random() < 0.3
        sa_pair = sparse or rng.random() < 0.5
        L = ns * na
        scale = rng.choice([1, 2, 0.5])
        normals = np.array([rng.randrange(-64, 64) / 16.0 for _ in range(L)])
        u1 = uniforms(rng, (L, kk - 1), "float") if kk > 1 else None
        u2 = uniforms(rng, (L, kk), "float") if kk != ns else None
        ub = np.array(rng.randrange(1, 1024) / 1024.0)
        rs = Scripted([a for a in (u1, u2, ub) if a is not None], [normals])
        inp = {"call": "random_discrete_dp", "num_states": ns, "num_actions": na, "k": k, "scale": scale, "sparse": sparse, "sa_pair": sa_pair}
        try:
            ddp = random_discrete_dp(ns, na, beta=None, k=k, scale=scale, sparse=sparse, sa_pair=sa_pair, random_state=rs)
        except AssertionError as e:
            ctx.mismatch("draw protocol of random_discrete_dp (normals L, probvec block, sample block, beta)", inp, repr(e))
            continue
        ctx.case(("ddp", ns, na, k, scale, sparse, sa_pair, tuple(normals)), nontrivial=L >= 2, sample=inp)
        ctx.count("ddp:%s" % ("sa_pair-sparse" if sparse else "sa_pair" if sa_pair else "product"))
        okv = isinstance(ddp, DiscreteDP) and ddp.beta == float(ub) and ddp.num_states == ns
        Qm = ddp.Q.toarray() if sp.issparse(ddp.Q) else np.asarray(ddp.Q)
        Q2 = Qm.reshape(L, ns)
        R1 = np.asarray(ddp.R).reshape(L)
        okv = okv and np.array_equal(R1, scale * normals) and (Q2 >= 0).all() and np.allclose(Q2.sum(axis=1), 1, atol=1e-14, rtol=0)
        okv = okv and ((Q2 > 0).sum(axis=1) == kk).all()
        if sa_pair:
            okv = okv and ddp.s_indices.tolist() == [s for s in range(ns) for _ in range(na)] and ddp.a_indices.tolist() == list(range(na)) * ns
        else:
            okv = okv and np.asarray(ddp.R).shape == (ns, na) and np.asarray(ddp.Q).shape == (ns, na, ns)
        if not okv:
            ctx.fail("discrete_dp_valid", "random_discrete_dp did not assemble a valid DiscreteDP from the draws", inp)
        cases.append(tup(natlit(ns), natlit(kk), ll(u1, flist) if u1 is not None else "[" + "; ".join("(@nil float)" for _ in range(L)) + "]",
                         ll(u2, flist) if u2 is not None else "(@nil (list float))", ll(Q2, flist)))
        meta.append(inp)
        if sa_pair:
            scases.append(tup(natlit(ns), natlit(na), zlist(ddp.s_indices.tolist()), zlist(ddp.a_indices.tolist()), "(@nil (list Q))", "(@nil Q)"))
        else:
            scases.append(tup(natlit(ns), natlit(na), "(@nil Z)", "(@nil Z)", ll(np.asarray(ddp.R).tolist()), qlist([frac(v) for v in R1])))
        smeta.append(inp)
    queue("random_discrete_dp_Q", "nat * nat * list (list float) * list (list float) * list (list float)",
          "fun c => let '(n, k, u1, u2, P) := c in Fss_eqb (rsm_F n k u1 u2) P", cases, meta,
          "C18.Model.rsm_F (L x n transition rows) vs markov.random.random_discrete_dp", 10)
    queue("random_discrete_dp_layout", "nat * nat * list Z * list Z * list (list Q) * list Q",
          "fun c => let '(ns, na, s, a, R2, R1) := c in match s with "
          "| [] => Qss_eqb (chunk ns na R1) R2 | _ => Zs_eqb (fst (sa_indices ns na)) s && Zs_eqb (snd (sa_indices ns na)) a end",
          scases, smeta, "C18.Model.sa_indices/chunk vs markov.random.random_discrete_dp layout", 20)
    for ns, na in [(1, 1), (3, 2), (4, 3)]:
        for kw in ({}, {"k": 1}, {"sparse": True}, {"sa_pair": True, "beta": 0.5}):
            seed = rng.randrange(10**6)
            d1 = random_discrete_dp(ns, na, random_state=seed, **kw)
            d2 = random_discrete_dp(ns, na, random_state=seed, **kw)
            ctx.case(("ddp-seed", ns, na, tuple(sorted(kw.items())), seed), nontrivial=ns * na >= 2)
            q1 = d1.Q.toarray() if sp.issparse(d1.Q) else d1.Q
            q2 = d2.Q.toarray() if sp.issparse(d2.Q) else d2.Q
            if not (np.array_equal(d1.R, d2.R) and np.array_equal(q1, q2) and d1.beta == d2.beta and 0 <= d1.beta < 1):
                ctx.fail("seed_reproducible", "random_discrete_dp: same seed, different DP (or beta outside [0,1))", {"call": "random_discrete_dp", "ns": ns, "na": na, "kw": kw, "seed": seed})

    # ================================================================ tournament orientation kernel + graphs
    if os.environ.get("VERIF_DEBUG"): sys.stderr.write("[%6.1fs] tournament orientation kernel + graphs\n" % (__import__("time").time() - ctx.t0))
    cases, meta = [], []
    for n in range(0, 8):
        ne = n * (n - 1) // 2
        for mode in ["float", "extreme", "ties"] * (2 * reps):
            r = uniforms(rng, (ne,), mode)
            row = np.empty(ne, dtype=int)
            col = np.empty(ne, dtype=int)
            _populate_random_tournament_row_col(n, r, row, col)
            inp = {"call": "_populate_random_tournament_row_col", "n": n, "r": r.tolist()}
            ctx.case(("tournament-kernel", n, tuple(r.tolist())), nontrivial=n >= 3, sample={"call": "tournament kernel", "n": n, "row": row.tolist()[:5], "col": col.tolist()[:5]})
            ctx.count("tournament:%s" % mode)
            A = np.zeros((n, n), dtype=int)
            A[row, col] += 1
            if not np.array_equal(A + A.T, 1 - np.eye(n, dtype=int)):
                ctx.fail("tournament", "kernel output is not a tournament (one orientation per pair, no loops)", inp, [row.tolist(), col.tolist()])
            cases.append(tup(natlit(n), qlist([frac(v) for v in r]), zlist2([[int(a), int(b)] for a, b in zip(row, col)])))
            meta.append(inp)
    queue("tournament_edges", "nat * list Q * list (list Z)",
          "fun c => let '(n, r, e) := c in Zss_eqb (map (fun p => [Z.of_nat (fst p); Z.of_nat (snd p)]) (tournament_edges n r)) e",
          cases, meta, "C18.Model.tournament_edges vs _graph_tools._populate_random_tournament_row_col", 40)
    for n in range(1, 8):
        seed = rng.randrange(10**6)
        g1 = random_tournament_graph(n, random_state=seed)
        g2 = random_tournament_graph(n, random_state=seed)
        A = g1.csgraph.toarray().astype(int)
        ctx.case(("tournament-graph", n, seed), nontrivial=n >= 3)
        if A.shape != (n, n) or not np.array_equal(A + A.T, 1 - np.eye(n, dtype=int)):
            ctx.fail("tournament", "random_tournament_graph is not a tournament", {"call": "random_tournament_graph", "n": n, "seed": seed}, A.tolist())
        if not np.array_equal(A, g2.csgraph.toarray().astype(int)):
            ctx.fail("seed_reproducible", "random_tournament_graph: same seed, different graph", {"call": "random_tournament_graph", "n": n, "seed": seed})

    # ================================================================ Blotto
    if os.environ.get("VERIF_DEBUG"): sys.stderr.write("[%6.1fs] Blotto\n" % (__import__("time").time() - ctx.t0))
    cases, meta = [], []
    hts = [(h, t) for h in range(1, 5) for t in range(0, 6)]
    if not thorough:
        hts = [ht for ht in hts if ht[0] * ht[1] <= 12 or ht == (4, 5)]
    for h, t in hts:
        actions = simplex_grid(h, t)
        n = actions.shape[0]
        values = np.array([[rng.randrange(-16, 17) / 4.0 for _ in range(2)] for _ in range(h)])
        pa = tuple(np.empty((n, n)) for _ in range(2))
        bg._populate_blotto_payoff_arrays(pa, actions, values)
        inp = {"call": "_populate_blotto_payoff_arrays", "h": h, "t": t, "values": values.tolist()}
        ctx.case(("blotto-kernel", h, t, tuple(values.ravel())), nontrivial=n >= 2, sample={"call": "blotto kernel", "h": h, "t": t, "n": n})
        ctx.count("blotto:kernel")
        if n <= 40 or thorough:
            cases.append(tup("(%d)%%Z" % h, "(%d)%%Z" % t, "[" + "; ".join(tup(qlit(frac(v[0])), qlit(frac(v[1]))) for v in values) + "]",
                             ll([[frac(v) for v in r] for r in pa[0]]), ll([[frac(v) for v in r] for r in pa[1]])))
            meta.append(inp)
        # the generator against the definition of the Blotto game
        seed = rng.randrange(10**6)
        rho = rng.choice([-0.5, 0, 0.3, 0.9])
        mu = rng.choice([0, 1.5])
        g = blotto_game(h, t, rho, mu, random_state=seed)
        g2 = blotto_game(h, t, rho, mu, random_state=seed)
        vals = np.random.RandomState(seed).multivariate_normal(np.array([mu, mu]), np.array([[1, rho], [rho, 1]]), h)
        inp = {"call": "blotto_game", "h": h, "t": t, "rho": rho, "mu": mu, "seed": seed}
        ctx.case(("blotto", h, t, rho, mu, seed), nontrivial=n >= 2)
        E0 = np.zeros((n, n))
        E1 = np.zeros((n, n))
        for i in range(n):
            for j in range(n):
                for kk in range(h):
                    # player 0 plays actions[i], player 1 plays actions[j]
                    if actions[i, kk] > actions[j, kk]:
                        E0[i, j] += vals[kk, 0]
                    elif actions[i, kk] < actions[j, kk]:
                        E1[j, i] += vals[kk, 1]
                    else:
                        E0[i, j] += vals[kk, 0] / 2
                        E1[j, i] += vals[kk, 1] / 2
        P0, P1 = g.players[0].payoff_array, g.players[1].payoff_array
        if P0.shape != (n, n) or not (np.allclose(P0, E0, atol=1e-12, rtol=0) and np.allclose(P1, E1, atol=1e-12, rtol=0)):
            ctx.fail("blotto_definition", "blotto_game payoffs differ from the definition (hill value to the side with more troops, split on ties)", inp)
        if not all(np.array_equal(a.payoff_array, b.payoff_array) for a, b in zip(g.players, g2.players)):
            ctx.fail("seed_reproducible", "blotto_game: same seed, different game", inp)
    queue("blotto", "Z * Z * list (Q * Q) * list (list Q) * list (list Q)",
          "fun c => let '(h, t, v, P0, P1) := c in match blotto_game h t v with Some (M0, M1) => Qss_eqb M0 P0 && Qss_eqb M1 P1 | None => false end",
          cases, meta, "C18.Model.blotto_game vs bimatrix_generators._populate_blotto_payoff_arrays over simplex_grid", 4)

    # ================================================================ ranking
    if os.environ.get("VERIF_DEBUG"): sys.stderr.write("[%6.1fs] ranking\n" % (__import__("time").time() - ctx.t0))
    cases, meta = [], []
    for n in range(1, 8):
        for rep in range(2 * reps):
            steps = rng.choice([1, 2, 5, 10])
            scores = np.cumsum(np.array([[rng.randrange(1, steps + 1) for _ in range(n)] for _ in range(2)]), axis=1)
            costs = np.cumsum(np.array([[float(rng.randrange(1, steps + 1)) for _ in range(n - 1)] for _ in range(2)]).reshape(2, n - 1), axis=1) / 64.0
            pa = tuple(np.empty((n, n)) for _ in range(2))
            bg._populate_ranking_payoff_arrays(pa, scores, costs)
            inp = {"call": "_populate_ranking_payoff_arrays", "n": n, "scores": scores.tolist(), "costs": costs.tolist()}
            ctx.case(("ranking-kernel", n, tuple(scores.ravel()), tuple(costs.ravel())), nontrivial=n >= 2)
            ctx.count("ranking:kernel")
            cases.append(tup(natlit(n), zlist(scores[0].tolist()), zlist(scores[1].tolist()), qlist([frac(v) for v in costs[0]]),
                             qlist([frac(v) for v in costs[1]]), ll([[frac(v) for v in r] for r in pa[0]]), ll([[frac(v) for v in r] for r in pa[1]])))
            meta.append(inp)
            seed = rng.randrange(10**6)
            g = ranking_game(n, steps, random_state=seed)
            g2 = ranking_game(n, steps, random_state=seed)
            rs = np.random.RandomState(seed)
            sc = rng_integers(rs, 1, steps + 1, size=(2, n)).cumsum(axis=1)
            cs = rng_integers(rs, 1, steps + 1, size=(2, n - 1)).cumsum(axis=1) / (n * steps)
            inp = {"call": "ranking_game", "n": n, "steps": steps, "seed": seed}
            ctx.case(("ranking", n, steps, seed), nontrivial=n >= 2)
            E0 = np.zeros((n, n))
            E1 = np.zeros((n, n))
            for i in range(n):
                for j in range(n):
                    # player 0 exerts effort i, player 1 effort j; higher score wins the prize 1, ties split it
                    c0 = cs[0, i - 1] if i else 0.0
                    c1 = cs[1, j - 1] if j else 0.0
                    w0 = 1.0 if sc[0, i] > sc[1, j] else 0.5 if sc[0, i] == sc[1, j] else 0.0
                    E0[i, j] = -c0 + w0
                    E1[j, i] = -c1 + (1.0 - w0)
            P0, P1 = g.players[0].payoff_array, g.players[1].payoff_array
            if P0.shape != (n, n) or not (np.allclose(P0, E0, atol=1e-12, rtol=0) and np.allclose(P1, E1, atol=1e-12, rtol=0)):
                ctx.fail("ranking_definition", "ranking_game payoffs differ from the definition (prize to the higher score minus effort cost)", inp)
            if not all(np.array_equal(a.payoff_array, b.payoff_array) for a, b in zip(g.players, g2.players)):
                ctx.fail("seed_reproducible", "ranking_game: same seed, different game", inp)
    queue("ranking", "nat * list Z * list Z * list Q * list Q * list (list Q) * list (list Q)",
          "fun c => let '(n, s0, s1, c0, c1, P0, P1) := c in let '(M0, M1) := ranking_payoffs n s0 s1 c0 c1 in Qss_eqb M0 P0 && Qss_eqb M1 P1",
          cases, meta, "C18.Model.ranking_payoffs vs bimatrix_generators._populate_ranking_payoff_arrays", 10)

    # ================================================================ SGC
    if os.environ.get("VERIF_DEBUG"): sys.stderr.write("[%6.1fs] SGC\n" % (__import__("time").time() - ctx.t0))
    cases, meta = [], []
    for k in range(1, 6 if thorough else 5):
        g = sgc_game(k)
        P0, P1 = g.players[0].payoff_array, g.players[1].payoff_array
        inp = {"call": "sgc_game", "k": k}
        ctx.case(("sgc", k), nontrivial=True, sample={"call": "sgc_game", "k": k, "row0": P0[0].tolist()})
        ctx.count("sgc")
        cases.append(tup(natlit(k), ll([[frac(v) for v in r] for r in P0]), ll([[frac(v) for v in r] for r in P1])))
        meta.append(inp)
        n, m = 4 * k - 1, 2 * k - 1
        if P0.shape != (n, n) or P1.shape != (n, n):
            ctx.fail("sgc_definition", "sgc_game(k) is not (4k-1) x (4k-1)", inp)
            continue
        if k <= 3:
            NE = support_enumeration(g)
            x = np.zeros(n)
            x[:m] = 1.0 / m
            good = len(NE) == 1 and np.allclose(NE[0][0], x, atol=1e-12) and np.allclose(NE[0][1], x, atol=1e-12)
            if not good:
                ctx.fail("sgc_unique_equilibrium", "support enumeration does not return the single equilibrium uniform on the first 2k-1 actions", inp,
                         [[v.tolist() for v in ne] for ne in NE][:3])
        # definition: cyclic block (k >= 2) and the 2x2 coordination-avoiding blocks
        if k >= 2:
            E = np.zeros((n, n))
            E[:m, :m] = 0.75
            E[:m, m:] = 0.5
            for i in range(m):
                E[i, (i - 1) % m] = 1
                E[i, (i + 1) % m] = 0.5
            E0, E1 = E.copy(), E.copy()
            for hh in range(k):
                i = m + 2 * hh
                E0[i, i] = E0[i + 1, i + 1] = 0.75
                E1[i, i + 1] = E1[i + 1, i] = 0.75
            if not (np.array_equal(P0, E0) and np.array_equal(P1, E1)):
                ctx.fail("sgc_definition", "sgc_game payoffs differ from the definition of Sandholm-Gilpin-Conitzer", inp)
    queue("sgc", "nat * list (list Q) * list (list Q)",
          "fun c => let '(k, P0, P1) := c in let '(M0, M1) := sgc_payoffs k in Qss_eqb M0 P0 && Qss_eqb M1 P1",
          cases, meta, "C18.Model.sgc_payoffs vs bimatrix_generators._populate_sgc_payoff_arrays", 2)

    # ================================================================ tournament game
    if os.environ.get("VERIF_DEBUG"): sys.stderr.write("[%6.1fs] tournament game\n" % (__import__("time").time() - ctx.t0))
    cases, meta = [], []
    for n in range(1, 8):
        for k in range(1, min(3, n) + 1):
            for mode in ["float", "extreme"] * reps:
                ne = n * (n - 1) // 2
                r = uniforms(rng, (ne,), mode)
                g = tournament_game(n, k, random_state=Scripted([r]))
                P0, P1 = g.players[0].payoff_array, g.players[1].payoff_array
                m = math.comb(n, k)
                inp = {"call": "tournament_game", "n": n, "k": k, "r": r.tolist()}
                ctx.case(("tournament-game", n, k, tuple(r.tolist())), nontrivial=n >= 3, sample={"call": "tournament_game", "n": n, "k": k})
                ctx.count("tournament_game:k=%d" % k)
                cases.append(tup(natlit(n), natlit(k), qlist([frac(v) for v in r]), ll([[frac(v) for v in row] for row in P0]),
                                 ll([[frac(v) for v in row] for row in P1])))
                meta.append(inp)
                # definition: row player picks a node i, column player a k-subset S (colexicographic order);
                # row player gets 1 iff i dominates every node of S, column player gets 1 iff i is in S
                A = np.zeros((n, n), dtype=int)
                kk = 0
                for i in range(n):
                    for j in range(i + 1, n):
                        if r[kk] < 0.5:
                            A[i, j] = 1
                        else:
                            A[j, i] = 1
                        kk += 1
                subsets = sorted(itertools.combinations(range(n), k), key=lambda s: s[::-1])
                E0 = np.array([[1.0 if all(A[i, v] for v in S) else 0.0 for S in subsets] for i in range(n)]).reshape(n, m)
                E1 = np.array([[1.0 if v in S else 0.0 for v in range(n)] for S in subsets]).reshape(m, n)
                if P0.shape != (n, m) or P1.shape != (m, n) or not (np.array_equal(P0, E0) and np.array_equal(P1, E1)):
                    ctx.fail("tournament_game_definition", "tournament_game payoffs differ from the definition", inp, [P0.tolist(), P1.tolist()], [E0.tolist(), E1.tolist()])
    queue("tournament_game", "nat * nat * list Q * list (list Q) * list (list Q)",
          "fun c => let '(n, k, r, P0, P1) := c in let '(M0, M1) := tournament_game n k r in Qss_eqb M0 P0 && Qss_eqb M1 P1",
          cases, meta, "C18.Model.tournament_game (next_k_array / k_array_rank_jit over the sampled tournament) vs bimatrix_generators.tournament_game", 8)

    # ================================================================ unit vector game
    if os.environ.get("VERIF_DEBUG"): sys.stderr.write("[%6.1fs] unit vector game\n" % (__import__("time").time() - ctx.t0))
    cases, meta = [], []
    for n in range(1, 8):
        for rep in range(2 * reps):
            seed = rng.randrange(10**6)
            g = unit_vector_game(n, random_state=seed)
            g2 = unit_vector_game(n, random_state=seed)
            rs = np.random.RandomState(seed)
            B = rs.random((n, n))
            ones = rng_integers(rs, n, size=n)
            P0, P1 = g.players[0].payoff_array, g.players[1].payoff_array
            inp = {"call": "unit_vector_game", "n": n, "seed": seed}
            ctx.case(("unit-vector", n, seed), nontrivial=n >= 2, sample={"call": "unit_vector_game", "n": n, "ones": np.atleast_1d(ones).tolist()})
            ctx.count("unit_vector")
            good = P0.shape == (n, n) and ((P0 == 0) | (P0 == 1)).all() and (P0.sum(axis=0) == 1).all() and (P1 >= 0).all() and (P1 < 1).all()
            if not good:
                ctx.fail("unit_vector_definition", "player 0's payoff columns are not unit vectors / player 1's payoffs not in [0,1)", inp, P0.tolist())
            if not all(np.array_equal(a.payoff_array, b.payoff_array) for a, b in zip(g.players, g2.players)):
                ctx.fail("seed_reproducible", "unit_vector_game: same seed, different game", inp)
            if np.array_equal(P1, B):
                cases.append(tup(natlit(n), zlist(np.atleast_1d(ones).tolist()), ll([[frac(v) for v in row] for row in P0])))
                meta.append(inp)
            if n >= 2:
                ga = unit_vector_game(n, avoid_pure_nash=True, random_state=seed)
                ctx.case(("unit-vector-avoid", n, seed), nontrivial=True)
                Pa = ga.players[0].payoff_array
                if not (((Pa == 0) | (Pa == 1)).all() and (Pa.sum(axis=0) == 1).all()) or len(pure_nash_brute(ga)) != 0:
                    ctx.fail("unit_vector_definition", "avoid_pure_nash=True: columns not unit vectors or a pure Nash equilibrium exists", inp)
    try:
        unit_vector_game(1, avoid_pure_nash=True)
        ctx.fail("unit_vector_definition", "unit_vector_game(1, avoid_pure_nash=True) does not raise", {"call": "unit_vector_game", "n": 1})
    except ValueError:
        ctx.count("unit_vector:rejected")
    queue("unit_vector", "nat * list Z * list (list Q)", "fun c => let '(n, ones, P0) := c in Qss_eqb (unit_vector_payoff0 n ones) P0",
          cases, meta, "C18.Model.unit_vector_payoff0 vs bimatrix_generators.unit_vector_game", 20)

    # all Coq cases are queued by now: evaluate them in the background while the Python-only oracles below run
    from concurrent.futures import ThreadPoolExecutor as _TPE

    def _one(job):
        name, ctype, ok, cases, meta, label, chunk = job
        return job, ctx.coq_check(name, IMPORTS, ctype, ok, cases, chunk=chunk)
    _ex = _TPE(max_workers=4)
    futures = [_ex.submit(_one, job) for job in jobs]

    # ================================================================ degenerate sizes + exact draw accounting
    if os.environ.get("VERIF_DEBUG"): sys.stderr.write("[%6.1fs] degenerate sizes + exact draw accounting\n" % (__import__("time").time() - ctx.t0))
    # Every generator is run on a passed RandomState and a passed Generator; a reference stream with the same seed
    # consumes the documented draws, a pure-Python reference computes the value from them, and the NEXT draw of both
    # streams must coincide (the generator advanced the stream by exactly the documented amount).
    def ref_probvec(U):
        U = np.asarray(U, dtype=float)
        out = np.empty((U.shape[0], U.shape[1] + 1))
        for i, row in enumerate(U):
            r = sorted(row.tolist())
            out[i] = [r[0]] + [r[t] - r[t - 1] for t in range(1, len(r))] + [1 - r[-1]]
        return out

    def ref_swr_row(n, r):
        pool = list(range(n))
        out = []
        for j, u in enumerate(r):
            idx = int(math.floor(float(u) * (n - j)))
            out.append(pool[idx])
            pool[idx] = pool[n - j - 1]
        return out

    def ref_swr(n, U):
        out = np.empty(U.shape, dtype=np.int64)
        if U.ndim == 1:
            out[:] = ref_swr_row(n, U)
        else:
            for i in range(U.shape[0]):
                out[i, :] = ref_swr_row(n, U[i])
        return out

    def ref_rsm(ref, m, n, k):
        kk = n if k is None else k
        pv = np.ones((m, 1)) if kk == 1 else ref_probvec(ref.random(size=(m, kk - 1)))
        if kk == n:
            return pv
        U = ref.random(size=(m, kk))
        P = np.zeros((m, n))
        for i in range(m):
            for c, v in zip(ref_swr_row(n, U[i]), pv[i]):
                P[i, c] = v
        return P

    def both_streams(seed):
        yield "RandomState", np.random.RandomState(seed), np.random.RandomState(seed)
        yield "Generator", np.random.default_rng(seed), np.random.default_rng(seed)

    def degenerate_case(name, args, call, reference, expect_error=False, dtype=None, fixed_seed=None):
        """call(rs) -> array-like (or tuple of arrays); reference(ref) -> expected value from the documented draws"""
        seed0 = fixed_seed if fixed_seed is not None else rng.randrange(10**6)
        if not expect_error:
            # equal integer seeds with DIFFERENT global numpy streams must give identical output
            try:
                np.random.seed(rng.randrange(2**31))
                o1 = call(seed0)
                np.random.seed(rng.randrange(2**31))
                o2 = call(seed0)
                l1 = list(o1) if isinstance(o1, tuple) else [o1]
                l2 = list(o2) if isinstance(o2, tuple) else [o2]
                ctx.case(("degenerate-int", name, json.dumps(jsonable(args), sort_keys=True), seed0), nontrivial=True)
                if len(l1) != len(l2) or not all(np.array_equal(np.asarray(a_), np.asarray(b_)) for a_, b_ in zip(l1, l2)):
                    ctx.fail("seed_reproducible", "%s%r: identical integer seeds give different output (global numpy stream used?)" % (name, args),
                             {"call": name, "args": args, "seed": seed0})
            except Exception as e:
                ctx.fail("degenerate_size", "%s%r with an integer seed raises %r" % (name, args, e), {"call": name, "args": args, "seed": seed0})
                l1 = None
            # seed FORMS: the same integer value as NumPy integer types must behave like the Python int; None = global stream
            def _same(u, v):
                lu = list(u) if isinstance(u, tuple) else [u]
                lv = list(v) if isinstance(v, tuple) else [v]
                return len(lu) == len(lv) and all(np.array_equal(np.asarray(a_), np.asarray(b_)) for a_, b_ in zip(lu, lv))
            small = seed0 % 256
            for form, val, base in (("np.int64", np.int64(seed0), seed0), ("np.int32", np.int32(seed0), seed0), ("np.intp", np.intp(seed0), seed0),
                                    ("np.uint8", np.uint8(small), small), ("element of Generator.integers", np.random.default_rng(seed0).integers(0, 2**31, size=1)[0], None)):
                ctx.case(("seed-form", name, json.dumps(jsonable(args), sort_keys=True), form, seed0), nontrivial=True)
                ctx.count("seedform:%s" % form)
                inp_f = {"call": name, "args": args, "seed": int(val), "seed_form": form}
                try:
                    np.random.seed(rng.randrange(2**31))
                    of = call(val)
                    np.random.seed(rng.randrange(2**31))
                    ob = call(int(val))
                except Exception as e:
                    ctx.fail("seed_form", "%s%r raises %r for the valid seed %s(%d)" % (name, args, e, form, int(val)), inp_f)
                    continue
                if not _same(of, ob):
                    ctx.fail("seed_form", "%s%r: seed %s(%d) and the equal Python int give different output" % (name, args, form, int(val)), inp_f)
            try:
                gs = rng.randrange(2**31)
                np.random.seed(gs)
                n1 = call(None)
                np.random.seed(gs)
                n2 = call(None)
                ctx.case(("seed-form", name, json.dumps(jsonable(args), sort_keys=True), "None", gs), nontrivial=True)
                ctx.count("seedform:None")
                if not _same(n1, n2):
                    ctx.fail("seed_form", "%s%r with random_state=None is not a function of the global numpy stream" % (name, args), {"call": name, "args": args, "seed_form": "None", "np_random_seed": gs})
            except Exception as e:
                ctx.fail("seed_form", "%s%r raises %r for random_state=None" % (name, args, e), {"call": name, "args": args, "seed_form": "None"})
        for kind, rs, ref in both_streams(seed0):
            inp = {"call": name, "args": args, "stream": kind, "seed": seed0}
            ctx.case(("degenerate", name, json.dumps(jsonable(args), sort_keys=True), kind, seed0), nontrivial=True)
            ctx.count("degenerate:%s" % name)
            np.random.seed(rng.randrange(2**31))     # a generator that falls back to the global stream cannot match the reference
            try:
                got = call(rs)
            except ValueError as e:
                if expect_error:
                    ctx.count("degenerate:rejected")
                else:
                    ctx.fail("degenerate_size", "%s%r raises ValueError (%s) for an admissible size" % (name, args, e), inp)
                continue
            except Exception as e:
                ctx.fail("degenerate_size", "%s%r raises %r" % (name, args, e), inp)
                continue
            if expect_error:
                ctx.fail("degenerate_size", "%s%r is accepted; the unchanged code rejects it with ValueError" % (name, args), inp)
                continue
            exp = reference(ref)
            gl = list(got) if isinstance(got, tuple) else [got]
            el = list(exp) if isinstance(exp, tuple) else [exp]
            same = len(gl) == len(el)
            for g_, e_ in zip(gl, el):
                g_, e_ = np.asarray(g_), np.asarray(e_)
                same = same and g_.shape == e_.shape and np.array_equal(g_, e_)
                if dtype is not None:
                    same = same and g_.dtype == dtype
            if not same:
                ctx.fail("degenerate_size", "%s%r: shape/dtype/value differ from the reference computed on the same stream" % (name, args), inp,
                         [np.asarray(g_).tolist() for g_ in gl][:3], [np.asarray(e_).tolist() for e_ in el][:3])
            elif rs.random() != ref.random():
                ctx.fail("stream_advance", "%s%r does not advance the passed %s by the documented number of draws" % (name, args, kind), inp)
    # --- sample_without_replacement: num_trials in {None, 0, 1, m}, k in {0, 1, n}, n = 1
    for n in (1, 2, 5, 12):
        for k in sorted({0, 1, n, max(0, n - 1)}):
            for nt in (None, 0, 1, 3):
                size = (k,) if nt is None else (nt, k)
                degenerate_case("sample_without_replacement", {"n": n, "k": k, "num_trials": nt},
                                lambda rs, n=n, k=k, nt=nt: sample_without_replacement(n, k, num_trials=nt, random_state=rs),
                                lambda ref, n=n, size=size: ref_swr(n, ref.random(size=size)),
                                dtype=np.dtype(np.int64))
    for n, k, nt in [(0, 0, None), (-2, 1, None), (3, 4, None), (3, 4, 0), (0, 0, 2)]:
        degenerate_case("sample_without_replacement", {"n": n, "k": k, "num_trials": nt},
                        lambda rs, n=n, k=k, nt=nt: sample_without_replacement(n, k, num_trials=nt, random_state=rs), None, expect_error=True)
    # --- probvec: m = 0, m = 1, k = 1 (no draw), both targets
    for m, k in [(0, 1), (0, 3), (1, 1), (3, 1), (1, 2), (2, 5), (1, 12)]:
        for parallel in (True, False):
            degenerate_case("probvec", {"m": m, "k": k, "parallel": parallel},
                            lambda rs, m=m, k=k, parallel=parallel: probvec(m, k, random_state=rs, parallel=parallel),
                            lambda ref, m=m, k=k: np.ones((m, 1)) if k == 1 else ref_probvec(ref.random(size=(m, k - 1))),
                            dtype=np.dtype(np.float64))
    degenerate_case("probvec", {"m": 2, "k": 0}, lambda rs: probvec(2, 0, random_state=rs), None, expect_error=True)
    # --- random_stochastic_matrix / random_markov_chain: n = 1, k in {None, 1, n, n-1}, dense and sparse
    for n in (1, 2, 3, 7):
        for k in sorted({1, n, max(1, n - 1)}) + [None]:
            for sparse in (False, True):
                for nm, fn in (("random_stochastic_matrix", lambda rs, n=n, k=k, sparse=sparse: random_stochastic_matrix(n, k, sparse=sparse, random_state=rs)),
                               ("random_markov_chain", lambda rs, n=n, k=k, sparse=sparse: random_markov_chain(n, k, sparse=sparse, random_state=rs).P)):
                    degenerate_case(nm, {"n": n, "k": k, "sparse": sparse},
                                    lambda rs, fn=fn, sparse=sparse: (lambda P: P.toarray() if sparse else np.asarray(P))(fn(rs)),
                                    lambda ref, n=n, k=k: ref_rsm(ref, n, n, k), dtype=np.dtype(np.float64))
    for n, k in [(3, 4), (3, 0), (0, None)]:
        degenerate_case("random_stochastic_matrix", {"n": n, "k": k}, lambda rs, n=n, k=k: random_stochastic_matrix(n, k, random_state=rs), None, expect_error=True)
    # --- random_discrete_dp: one state / one action / k = 1 / beta given (no beta draw)
    for ns, na, k, beta in [(1, 1, None, None), (1, 3, None, None), (3, 1, 1, None), (2, 2, 1, 0.5), (3, 2, 2, None)]:
        def ref_ddp(ref, ns=ns, na=na, k=k, beta=beta):
            R = ref.standard_normal(ns * na)
            Qm = ref_rsm(ref, ns * na, ns, k)
            b = ref.random() if beta is None else beta
            return (R.reshape(ns, na), Qm.reshape(ns, na, ns), np.array(b))
        degenerate_case("random_discrete_dp", {"num_states": ns, "num_actions": na, "k": k, "beta": beta},
                        lambda rs, ns=ns, na=na, k=k, beta=beta: (lambda d: (d.R, d.Q, np.array(d.beta)))(random_discrete_dp(ns, na, beta=beta, k=k, random_state=rs)),
                        ref_ddp)
    # --- random_tournament_graph: n = 0, 1, 2
    for n in (0, 1, 2, 4):
        def ref_tg(ref, n=n):
            r = ref.random(n * (n - 1) // 2)
            A = np.zeros((n, n), dtype=bool)
            t = 0
            for i in range(n):
                for j in range(i + 1, n):
                    if r[t] < 0.5:
                        A[i, j] = True
                    else:
                        A[j, i] = True
                    t += 1
            return A
        degenerate_case("random_tournament_graph", {"n": n}, lambda rs, n=n: random_tournament_graph(n, random_state=rs).csgraph.toarray(), ref_tg)
    # --- games: one player, one action
    for nums in [(1,), (2,), (1, 1), (1, 3), (3, 1), (2, 1, 2), (1, 1, 1)]:
        N = len(nums)
        degenerate_case("random_game", {"nums_actions": list(nums)},
                        lambda rs, nums=nums: tuple(p.payoff_array for p in random_game(nums, random_state=rs).players),
                        lambda ref, nums=nums: tuple(ref.random(nums[i:] + nums[:i]) for i in range(len(nums))), dtype=np.dtype(np.float64))
        degenerate_case("random_pure_actions", {"nums_actions": list(nums)},
                        lambda rs, nums=nums: np.array(random_pure_actions(nums, random_state=rs), dtype=np.int64),
                        lambda ref, nums=nums: np.array([rng_integers(ref, n_) for n_ in nums], dtype=np.int64))
        degenerate_case("random_mixed_actions", {"nums_actions": list(nums)},
                        lambda rs, nums=nums: random_mixed_actions(nums, random_state=rs),
                        lambda ref, nums=nums: tuple(np.ones(1) if n_ == 1 else ref_probvec(ref.random(size=n_ - 1).reshape(1, -1))[0] for n_ in nums),
                        dtype=np.dtype(np.float64))
        if N >= 2:
            rho = rng.choice([0.0, 0.4, -1.0 / (N - 1) / 2])

            def ref_cov(ref, nums=nums, rho=rho, N=N):
                cov = np.full((N, N), rho)
                cov[range(N), range(N)] = 1
                return ref.multivariate_normal(np.zeros(N), cov, nums)
            degenerate_case("covariance_game", {"nums_actions": list(nums), "rho": rho},
                            lambda rs, nums=nums, rho=rho: covariance_game(nums, rho, random_state=rs).payoff_profile_array, ref_cov)
            degenerate_case("random_polymatrix_game", {"nums_actions": list(nums)},
                            lambda rs, nums=nums: tuple(np.asarray(v) for _, v in sorted(random_polymatrix_game(nums, random_state=rs).polymatrix.items())),
                            lambda ref, nums=nums, N=N: tuple(ref.random((nums[i], nums[j])) for i in range(N) for j in range(N) if i != j))
        else:
            degenerate_case("covariance_game", {"nums_actions": list(nums)}, lambda rs, nums=nums: covariance_game(nums, 0.0, random_state=rs), None, expect_error=True)
    degenerate_case("random_game", {"nums_actions": []}, lambda rs: random_game((), random_state=rs), None, expect_error=True)
    # --- bimatrix generators: smallest parameters, draw accounting
    for h, t in [(1, 0), (1, 3), (2, 1)]:
        def ref_blotto(ref, h=h, t=t):
            vals = ref.multivariate_normal(np.array([0.0, 0.0]), np.array([[1, 0.5], [0.5, 1]]), h)
            acts = simplex_grid(h, t)
            n_ = acts.shape[0]
            pa = tuple(np.zeros((n_, n_)) for _ in range(2))
            for i in range(n_):
                for j in range(n_):
                    for kk in range(h):
                        if acts[i, kk] > acts[j, kk]:
                            pa[0][i, j] += vals[kk, 0]
                        elif acts[i, kk] < acts[j, kk]:
                            pa[1][j, i] += vals[kk, 1]
                        else:
                            pa[0][i, j] += vals[kk, 0] / 2
                            pa[1][j, i] += vals[kk, 1] / 2
            return pa
        degenerate_case("blotto_game", {"h": h, "t": t}, lambda rs, h=h, t=t: tuple(p.payoff_array for p in blotto_game(h, t, 0.5, random_state=rs).players), ref_blotto)
    for n in (1, 2, 3):
        def ref_rank(ref, n=n, steps=4):
            sc = rng_integers(ref, 1, steps + 1, size=(2, n)).cumsum(axis=1)
            cs = rng_integers(ref, 1, steps + 1, size=(2, n - 1)).cumsum(axis=1) / (n * steps)
            pa = tuple(np.zeros((n, n)) for _ in range(2))
            for i in range(n):
                for j in range(n):
                    w0 = 1.0 if sc[0, i] > sc[1, j] else 0.5 if sc[0, i] == sc[1, j] else 0.0
                    pa[0][i, j] = -(cs[0, i - 1] if i else 0.0) + w0
                    pa[1][j, i] = -(cs[1, j - 1] if j else 0.0) + (1.0 - w0)
            return pa
        degenerate_case("ranking_game", {"n": n, "steps": 4}, lambda rs, n=n: tuple(p.payoff_array for p in ranking_game(n, 4, random_state=rs).players), ref_rank)

        def ref_uv(ref, n=n):
            B = ref.random((n, n))
            ones = np.atleast_1d(rng_integers(ref, n, size=n))
            A = np.zeros((n, n))
            A[ones, np.arange(n)] = 1
            return (A, B)
        degenerate_case("unit_vector_game", {"n": n}, lambda rs, n=n: tuple(p.payoff_array for p in unit_vector_game(n, random_state=rs).players), ref_uv)
    # --- unit_vector_game(avoid_pure_nash=True): rejection loops are functions of the passed stream; small n, many seeds
    redraw_total = [0, 0]
    for n in (2, 3, 4):
        for seed in (list(range(1, 13)) if n <= 3 else [rng.randrange(10**6) for _ in range(3)]):
            def ref_uv_avoid(ref, n=n):
                B = ref.random((n, n))
                sub = B < B.max(axis=0)
                while (sub.sum(axis=1) == 0).any():
                    B = ref.random((n, n))
                    sub = B < B.max(axis=0)
                    redraw_total[0] += 1
                A = np.zeros((n, n))
                for i in range(n):
                    one = rng_integers(ref, n)
                    while not sub[i, one]:
                        one = rng_integers(ref, n)
                        redraw_total[1] += 1
                    A[one, i] = 1
                return (A, B)
            degenerate_case("unit_vector_game", {"n": n, "avoid_pure_nash": True},
                            lambda rs, n=n: tuple(p.payoff_array for p in unit_vector_game(n, avoid_pure_nash=True, random_state=rs).players),
                            ref_uv_avoid, fixed_seed=seed)
    ctx.count("unit_vector:avoid:matrix_redraws(reference)", redraw_total[0])
    ctx.count("unit_vector:avoid:index_redraws(reference)", redraw_total[1])
    if redraw_total[0] == 0:
        ctx.notes.append("no payoff-matrix redraw occurred in unit_vector_game(avoid_pure_nash=True) cases")
    # --- remaining option paths: sparse formats, sa_pair / sparse DP with beta given or drawn, scale, blotto mu, ranking steps
    for fmt in ("csr", "csc", "coo"):
        for n, k in [(3, 2), (4, None), (3, 1)]:
            degenerate_case("random_stochastic_matrix", {"n": n, "k": k, "sparse": True, "format": fmt},
                            lambda rs, n=n, k=k, fmt=fmt: random_stochastic_matrix(n, k, sparse=True, format=fmt, random_state=rs).toarray(),
                            lambda ref, n=n, k=k: ref_rsm(ref, n, n, k))
    for ns, na, k, beta, scale, sparse, sa_pair in [(2, 2, None, None, 2, False, True), (3, 2, 2, 0.9, 1, True, True), (2, 3, 1, None, 0.5, True, False),
                                                    (3, 1, None, 0.0, 1, False, True), (2, 2, 2, None, 1, False, False)]:
        def ref_ddp2(ref, ns=ns, na=na, k=k, beta=beta, scale=scale):
            R = scale * ref.standard_normal(ns * na)
            Qm = ref_rsm(ref, ns * na, ns, k)
            b = ref.random() if beta is None else beta
            return (R, Qm, np.array(b))
        degenerate_case("random_discrete_dp", {"num_states": ns, "num_actions": na, "k": k, "beta": beta, "scale": scale, "sparse": sparse, "sa_pair": sa_pair},
                        lambda rs, ns=ns, na=na, k=k, beta=beta, scale=scale, sparse=sparse, sa_pair=sa_pair:
                        (lambda d_: (np.asarray(d_.R).reshape(-1), (d_.Q.toarray() if sp.issparse(d_.Q) else np.asarray(d_.Q)).reshape(ns * na, ns), np.array(d_.beta)))(
                            random_discrete_dp(ns, na, beta=beta, k=k, scale=scale, sparse=sparse, sa_pair=sa_pair, random_state=rs)),
                        ref_ddp2)
    for n, k in [(1, 1), (2, 1), (2, 2), (3, 3), (4, 2)]:
        def ref_tgame(ref, n=n, k=k):
            r = ref.random(n * (n - 1) // 2)
            A = np.zeros((n, n), dtype=int)
            t = 0
            for i in range(n):
                for j in range(i + 1, n):
                    if r[t] < 0.5:
                        A[i, j] = 1
                    else:
                        A[j, i] = 1
                    t += 1
            subsets = sorted(itertools.combinations(range(n), k), key=lambda s_: s_[::-1])
            m = len(subsets)
            return (np.array([[1.0 if all(A[i, v] for v in S) else 0.0 for S in subsets] for i in range(n)]).reshape(n, m),
                    np.array([[1.0 if v in S else 0.0 for v in range(n)] for S in subsets]).reshape(m, n))
        degenerate_case("tournament_game", {"n": n, "k": k}, lambda rs, n=n, k=k: tuple(p.payoff_array for p in tournament_game(n, k, random_state=rs).players), ref_tgame)

    # ================================================================ hardening: dress / sequences / buffers / optional arguments
    if os.environ.get("VERIF_DEBUG"): sys.stderr.write("[%6.1fs] hardening: dress / sequences / buffers /\n" % (__import__("time").time() - ctx.t0))
    import copy
    from quantecon.markov import MarkovChain
    from quantecon._graph_tools import DiGraph
    from quantecon.game_theory.polymatrix_game import PolymatrixGame
    i32, i64, ip, u8, f32, f64 = np.int32, np.int64, np.intp, np.uint8, np.float32, np.float64

    def canon_form(o):
        """comparable form of whatever a generator returns"""
        if sp.issparse(o):
            return ("sparse", o.format, o.toarray())
        if isinstance(o, MarkovChain):
            return ("mc", canon_form(o.P))
        if isinstance(o, DiscreteDP):
            return ("ddp", np.asarray(o.R), canon_form(o.Q) if sp.issparse(o.Q) else np.asarray(o.Q), float(o.beta),
                    None if o.s_indices is None else np.asarray(o.s_indices), None if o.a_indices is None else np.asarray(o.a_indices))
        if isinstance(o, DiGraph):
            return ("graph", o.csgraph.toarray())
        if isinstance(o, NormalFormGame):
            return ("game",) + tuple(p.payoff_array for p in o.players)
        if isinstance(o, PolymatrixGame):
            return ("poly",) + tuple((k_, np.asarray(v_)) for k_, v_ in sorted(o.polymatrix.items()))
        if isinstance(o, (tuple, list)):
            return tuple(canon_form(v) for v in o)
        return o

    def deep_equal(u, v):
        if isinstance(u, tuple) or isinstance(v, tuple):
            return isinstance(u, tuple) and isinstance(v, tuple) and len(u) == len(v) and all(deep_equal(a_, b_) for a_, b_ in zip(u, v))
        if isinstance(u, np.ndarray) or isinstance(v, np.ndarray):
            u, v = np.asarray(u), np.asarray(v)
            return u.shape == v.shape and u.dtype == v.dtype and np.array_equal(u, v)
        return u == v

    def harden(cls, name, desc, canon, variant, snapshot=()):
        inp = {"call": name, "variant": desc, "class": cls}
        ctx.case(("harden", cls, name, desc), nontrivial=True)
        ctx.count("%s:%s" % (cls, name))
        before = copy.deepcopy(list(snapshot))
        try:
            r1 = canon_form(canon())
            r2 = canon_form(variant())
        except Exception as e:
            ctx.fail("hardening_exception", "%s (%s): raises %r on a valid input" % (name, desc, e), inp)
            return
        if not deep_equal(r1, r2):
            ctx.fail("hardening_" + cls.split(":")[0], "%s: %s differs from the canonical call with the same seed" % (name, desc), inp)
        for b_, a_ in zip(before, snapshot):
            if type(b_) is not type(a_) or not np.array_equal(np.asarray(b_), np.asarray(a_)):
                ctx.fail("hardening_mutation", "%s (%s): an argument was modified by the call" % (name, desc), inp)
    for rep in range(2 * reps):
        sd = rng.randrange(10**6)
        m_, k_, n_ = rng.randrange(1, 5), rng.randrange(2, 6), rng.randrange(3, 8)
        kk = rng.randrange(1, n_)
        nt = rng.randrange(1, 4)
        # ---- class 1: NumPy-integer dress of every size argument, float dress of every real argument
        # np.int64 / np.intp share the compiled signatures of Python ints; np.int32 / np.uint8 cost one numba specialisation
        # per jitted kernel, so the quick tier draws one of them per repetition (both in thorough)
        all_dress = [("np.int64", i64), ("np.intp", ip)] + ([("np.int32", i32), ("np.uint8", u8)] if thorough else [rng.choice([("np.int32", i32), ("np.uint8", u8)])])
        for lab, I in all_dress:
            harden("dress:" + lab, "probvec", "m, k as %s" % lab, lambda: probvec(m_, k_, random_state=sd), lambda: probvec(I(m_), I(k_), random_state=sd))
            harden("dress:" + lab, "sample_without_replacement", "n, k, num_trials as %s" % lab,
                   lambda: sample_without_replacement(n_, kk, num_trials=nt, random_state=sd), lambda: sample_without_replacement(I(n_), I(kk), num_trials=I(nt), random_state=sd))
            harden("dress:" + lab, "random_stochastic_matrix", "n, k as %s" % lab, lambda: random_stochastic_matrix(n_, kk, random_state=sd),
                   lambda: random_stochastic_matrix(I(n_), I(kk), random_state=sd))
            harden("dress:" + lab, "random_markov_chain", "n, k as %s, sparse" % lab, lambda: random_markov_chain(n_, kk, sparse=True, random_state=sd),
                   lambda: random_markov_chain(I(n_), I(kk), sparse=True, random_state=sd))
            harden("dress:" + lab, "random_discrete_dp", "num_states, num_actions, k as %s" % lab, lambda: random_discrete_dp(3, 2, k=2, random_state=sd),
                   lambda: random_discrete_dp(I(3), I(2), k=I(2), random_state=sd))
            harden("dress:" + lab, "random_tournament_graph", "n as %s" % lab, lambda: random_tournament_graph(n_, random_state=sd), lambda: random_tournament_graph(I(n_), random_state=sd))
            harden("dress:" + lab, "random_game", "nums_actions entries as %s" % lab, lambda: random_game((2, 3), random_state=sd), lambda: random_game((I(2), I(3)), random_state=sd))
            harden("dress:" + lab, "covariance_game", "nums_actions entries as %s" % lab, lambda: covariance_game((2, 3), 0.25, random_state=sd), lambda: covariance_game((I(2), I(3)), 0.25, random_state=sd))
            harden("dress:" + lab, "random_pure_actions", "nums_actions entries as %s" % lab, lambda: random_pure_actions((4, 3, 5), random_state=sd),
                   lambda: random_pure_actions((I(4), I(3), I(5)), random_state=sd))
            harden("dress:" + lab, "random_mixed_actions", "nums_actions entries as %s" % lab, lambda: random_mixed_actions((4, 1, 3), random_state=sd),
                   lambda: random_mixed_actions((I(4), I(1), I(3)), random_state=sd))
            harden("dress:" + lab, "blotto_game", "h, t as %s" % lab, lambda: blotto_game(2, 3, 0.5, random_state=sd), lambda: blotto_game(I(2), I(3), 0.5, random_state=sd))
            harden("dress:" + lab, "ranking_game", "n, steps as %s" % lab, lambda: ranking_game(4, 5, random_state=sd), lambda: ranking_game(I(4), I(5), random_state=sd))
            if I is not u8:     # scipy.special.comb(np.uint8, np.uint8, exact=True) returns a non-comparable Integer object: TypeError in the unchanged code
                harden("dress:" + lab, "tournament_game", "n, k as %s" % lab, lambda: tournament_game(5, 2, random_state=sd), lambda: tournament_game(I(5), I(2), random_state=sd))
            harden("dress:" + lab, "unit_vector_game", "n as %s" % lab, lambda: unit_vector_game(3, True, random_state=sd), lambda: unit_vector_game(I(3), True, random_state=sd))
            harden("dress:" + lab, "sgc_game", "k as %s" % lab, lambda: sgc_game(2), lambda: sgc_game(I(2)))
        for lab, Fl in (("int", int), ("np.float32", f32), ("np.float64", f64)):
            rho_v = 0 if Fl is int else 0.5
            harden("dress:" + lab, "blotto_game", "rho, mu as %s" % lab, lambda: blotto_game(2, 2, float(rho_v), 1.0, random_state=sd), lambda: blotto_game(2, 2, Fl(rho_v), Fl(1), random_state=sd))
            harden("dress:" + lab, "covariance_game", "rho as %s" % lab, lambda: covariance_game((2, 2), float(rho_v), random_state=sd), lambda: covariance_game((2, 2), Fl(rho_v), random_state=sd))
            harden("dress:" + lab, "random_discrete_dp", "beta, scale as %s" % lab, lambda: random_discrete_dp(2, 2, beta=0.5 if Fl is not int else 0.0, scale=2.0, random_state=sd),
                   lambda: random_discrete_dp(2, 2, beta=Fl(0.5) if Fl is not int else 0, scale=Fl(2), random_state=sd))
        for lab, mk in (("list", list), ("tuple", tuple)):
            snap = [mk((2, 3, 2))]
            harden("dress:" + lab, "random_game", "nums_actions as %s" % lab, lambda: random_game((2, 3, 2), random_state=sd), lambda: random_game(snap[0], random_state=sd), snapshot=snap)
            harden("dress:" + lab, "random_polymatrix_game", "nums_actions as %s" % lab, lambda: random_polymatrix_game((2, 3, 2), random_state=sd),
                   lambda: random_polymatrix_game(snap[0], random_state=sd), snapshot=snap)
            harden("dress:" + lab, "random_mixed_actions", "nums_actions as %s" % lab, lambda: random_mixed_actions((2, 3, 2), random_state=sd),
                   lambda: random_mixed_actions(snap[0], random_state=sd), snapshot=snap)
        for lab, arr in (("int32 array", np.array([2, 3, 2], dtype=i32)), ("non-contiguous int64 view", np.array([2, 9, 3, 9, 2, 9])[::2])):
            snap = [arr]
            harden("dress:array", "covariance_game", "nums_actions as %s" % lab, lambda: covariance_game((2, 3, 2), 0.25, random_state=sd), lambda: covariance_game(snap[0], 0.25, random_state=sd), snapshot=snap)
            harden("dress:array", "random_pure_actions", "nums_actions as %s" % lab, lambda: random_pure_actions((2, 3, 2), random_state=sd), lambda: random_pure_actions(snap[0], random_state=sd), snapshot=snap)
            harden("dress:array", "random_mixed_actions", "nums_actions as %s" % lab, lambda: random_mixed_actions((2, 3, 2), random_state=sd), lambda: random_mixed_actions(snap[0], random_state=sd), snapshot=snap)
        # ---- class 4: optional arguments omitted / explicit default / falsy-but-valid
        harden("opt:default", "probvec", "parallel omitted vs True vs False", lambda: probvec(m_, k_, random_state=sd), lambda: probvec(m_, k_, sd, True))
        harden("opt:explicit", "probvec", "parallel=False", lambda: probvec(m_, k_, random_state=sd), lambda: probvec(m_, k_, random_state=sd, parallel=False))
        harden("opt:default", "sample_without_replacement", "num_trials omitted vs None", lambda: sample_without_replacement(n_, kk, None, sd), lambda: sample_without_replacement(n_, kk, random_state=sd))
        harden("opt:default", "random_stochastic_matrix", "k, sparse, format omitted vs None, False, 'csr'", lambda: random_stochastic_matrix(n_, None, False, "csr", sd), lambda: random_stochastic_matrix(n_, random_state=sd))
        harden("opt:explicit", "random_stochastic_matrix", "k = n explicit vs None", lambda: random_stochastic_matrix(n_, None, random_state=sd), lambda: random_stochastic_matrix(n_, n_, random_state=sd))
        harden("opt:default", "random_stochastic_matrix", "format omitted vs 'csr' (sparse)", lambda: random_stochastic_matrix(n_, kk, True, "csr", sd), lambda: random_stochastic_matrix(n_, kk, sparse=True, random_state=sd))
        for fmt in ("csr", "csc", "coo", "lil", "dok", "bsr", "dia"):
            ctx.case(("harden", "format", fmt, n_, kk, sd), nontrivial=True)
            ctx.count("opt:format:%s" % fmt)
            try:
                P = random_stochastic_matrix(n_, kk, sparse=True, format=fmt, random_state=sd)
                D = random_stochastic_matrix(n_, kk, random_state=sd)
                if not (sp.issparse(P) and P.format == fmt and np.array_equal(P.toarray(), D)):
                    ctx.fail("hardening_opt", "random_stochastic_matrix(format=%r): wrong format or entries differ from the dense matrix of the same seed" % fmt,
                             {"call": "random_stochastic_matrix", "n": n_, "k": kk, "format": fmt, "seed": sd})
            except Exception as e:
                ctx.fail("hardening_exception", "random_stochastic_matrix(format=%r) raises %r" % (fmt, e), {"call": "random_stochastic_matrix", "n": n_, "k": kk, "format": fmt, "seed": sd})
        harden("opt:default", "random_markov_chain", "k, sparse omitted vs None, False", lambda: random_markov_chain(n_, None, False, sd), lambda: random_markov_chain(n_, random_state=sd))
        harden("opt:default", "random_discrete_dp", "all optional arguments omitted vs explicit defaults", lambda: random_discrete_dp(3, 2, None, None, 1, False, False, sd), lambda: random_discrete_dp(3, 2, random_state=sd))
        harden("opt:explicit", "random_discrete_dp", "k = num_states explicit vs None", lambda: random_discrete_dp(3, 2, k=None, random_state=sd), lambda: random_discrete_dp(3, 2, k=3, random_state=sd))
        for lab, bz in (("0", 0), ("0.0", 0.0), ("np.float64(0)", f64(0))):
            ctx.case(("harden", "beta-falsy", lab, sd), nontrivial=True)
            ctx.count("opt:falsy:random_discrete_dp")
            try:
                dz = random_discrete_dp(3, 2, beta=bz, random_state=sd)
                dn = random_discrete_dp(3, 2, beta=0.25, random_state=sd)
                if not (dz.beta == 0 and np.array_equal(dz.R, dn.R) and np.array_equal(dz.Q, dn.Q)):
                    ctx.fail("hardening_opt", "random_discrete_dp(beta=%s): the falsy but valid discount factor is not used as given" % lab,
                             {"call": "random_discrete_dp", "beta": lab, "seed": sd}, float(dz.beta), 0.0)
            except Exception as e:
                ctx.fail("hardening_exception", "random_discrete_dp(beta=%s) raises %r" % (lab, e), {"call": "random_discrete_dp", "beta": lab, "seed": sd})
        try:
            ctx.case(("harden", "scale-falsy", sd), nontrivial=True)
            ctx.count("opt:falsy:random_discrete_dp")
            d0 = random_discrete_dp(3, 2, scale=0, random_state=sd)
            d1 = random_discrete_dp(3, 2, random_state=sd)
            if not ((np.asarray(d0.R) == 0).all() and np.array_equal(d0.Q, d1.Q) and d0.beta == d1.beta):
                ctx.fail("hardening_opt", "random_discrete_dp(scale=0): rewards are not all zero / other draws changed", {"call": "random_discrete_dp", "scale": 0, "seed": sd})
        except Exception as e:
            ctx.fail("hardening_exception", "random_discrete_dp(scale=0) raises %r" % (e,), {"call": "random_discrete_dp", "scale": 0, "seed": sd})
        harden("opt:default", "blotto_game", "mu omitted vs 0 vs 0.0", lambda: blotto_game(2, 3, 0.5, 0.0, sd), lambda: blotto_game(2, 3, 0.5, random_state=sd))
        harden("opt:falsy", "blotto_game", "rho = 0, mu = 0 (ints)", lambda: blotto_game(2, 3, 0.0, 0.0, sd), lambda: blotto_game(2, 3, 0, 0, sd))
        harden("opt:default", "ranking_game", "steps omitted vs 10", lambda: ranking_game(4, 10, sd), lambda: ranking_game(4, random_state=sd))
        harden("opt:default", "unit_vector_game", "avoid_pure_nash omitted vs False", lambda: unit_vector_game(3, False, sd), lambda: unit_vector_game(3, random_state=sd))
        harden("opt:keyword", "tournament_game", "keywords vs positions", lambda: tournament_game(5, 2, sd), lambda: tournament_game(n=5, k=2, random_state=sd))
        gs = rng.randrange(2**31)
        for nm, f0, f1 in (("probvec", lambda: probvec(2, 3), lambda: probvec(2, 3, None)), ("random_stochastic_matrix", lambda: random_stochastic_matrix(3, 2), lambda: random_stochastic_matrix(3, 2, random_state=None)),
                           ("random_game", lambda: random_game((2, 2)), lambda: random_game((2, 2), None)), ("unit_vector_game", lambda: unit_vector_game(3, True), lambda: unit_vector_game(3, True, None)),
                           ("random_tournament_graph", lambda: random_tournament_graph(4), lambda: random_tournament_graph(4, None))):
            def with_global(f):
                np.random.seed(gs)
                return f()
            harden("opt:default", nm, "random_state omitted vs None (same global seed)", lambda: with_global(f0), lambda: with_global(f1))
        # ---- class 2: one RandomState / Generator reused by several generators in sequence = the same calls on a twin stream,
        #      and each generator in the middle of the sequence = the generator alone on a stream advanced by the earlier ones
        for mkrs in (lambda: np.random.RandomState(sd), lambda: np.random.default_rng(sd)):
            seqf = [lambda r: probvec(2, 3, random_state=r), lambda r: random_stochastic_matrix(4, 2, random_state=r), lambda r: sample_without_replacement(6, 3, random_state=r),
                    lambda r: unit_vector_game(2, True, random_state=r), lambda r: random_discrete_dp(2, 2, random_state=r), lambda r: tournament_game(4, 2, random_state=r),
                    lambda r: random_mixed_actions((3, 1, 2), random_state=r), lambda r: ranking_game(3, random_state=r), lambda r: blotto_game(2, 2, 0.3, random_state=r)]
            rng.shuffle(seqf)
            ctx.case(("harden", "seq", sd, str(type(mkrs()))), nontrivial=True)
            ctx.count("seq:shared_stream")
            try:
                ra, rb = mkrs(), mkrs()
                for idx, g_ in enumerate(seqf):
                    oa = canon_form(g_(ra))
                    twin = copy.deepcopy(rb)           # a stream in the state reached so far: the generator alone on it
                    ob = canon_form(g_(rb))
                    oc = canon_form(g_(twin))
                    if not (deep_equal(oa, ob) and deep_equal(oa, oc)) or ra.random() != rb.random():
                        ctx.fail("hardening_seq", "generator number %d in a sequence sharing one stream depends on more than the stream state" % idx, {"call": "sequence", "seed": sd})
                        break
            except Exception as e:
                ctx.fail("hardening_exception", "sequence of generators on one shared stream raises %r" % (e,), {"call": "sequence", "seed": sd})
        # repeated calls with other sizes in between (guvectorize / jit caches)
        harden("seq:interleaved", "probvec", "same call after other sizes and targets", lambda: probvec(m_, k_, random_state=sd),
               lambda: (probvec(m_, k_, random_state=sd), probvec(1, 2, random_state=1), probvec(5, 7, random_state=2, parallel=False), probvec(0, 3), probvec(m_, k_, random_state=sd))[4])
        harden("seq:interleaved", "sample_without_replacement", "same call after other sizes", lambda: sample_without_replacement(n_, kk, nt, sd),
               lambda: (sample_without_replacement(n_, kk, nt, sd), sample_without_replacement(12, 12), sample_without_replacement(1, 1, 0), sample_without_replacement(n_, kk, nt, sd))[3])
        harden("seq:interleaved", "sgc_game", "same call after other k", lambda: sgc_game(2), lambda: (sgc_game(2), sgc_game(3), sgc_game(1), sgc_game(2))[3])
        # ---- class 3: kernel buffers: garbage-prefilled / reused / non-contiguous out and r; results do not alias
        for kern, kname in ((_probvec_cpu, "_probvec_cpu"), (_probvec_parallel, "_probvec_parallel")):
            r0 = uniforms(rng, (3, k_ - 1), "float")
            fresh = np.empty((3, k_))
            kern(r0.copy(), fresh)
            buf = np.full((3, k_), -7.5)
            ret = kern(r0.copy(), buf)
            wide = np.full((3, 2 * k_), 9.0)
            kern(r0.copy(), wide[:, ::2])
            rwide = np.zeros((3, 2 * (k_ - 1)))
            rwide[:, ::2] = r0
            again = np.empty((3, k_))
            kern(rwide[:, ::2], again)
            kern(np.sort(r0[::-1].copy(), axis=1), buf)           # reuse the same buffer for other data ...
            kern(r0.copy(), buf)                                  # ... and again for the first
            ctx.case(("harden", "buffer", kname, tuple(r0.ravel())), nontrivial=True)
            ctx.count("buffer:%s" % kname)
            if not (np.array_equal(buf, fresh) and np.array_equal(wide[:, ::2], fresh) and (wide[:, 1::2] == 9.0).all() and np.array_equal(again, fresh)):
                ctx.fail("hardening_buffer", "%s: a garbage-prefilled / reused / strided output or input buffer gives a different result" % kname, {"call": kname, "r": r0.tolist()})
        rr = uniforms(rng, (kk,), "float")
        o_fresh = _sample_without_replacement(n_, rr.copy())
        o_buf = np.full(kk, -5, dtype=np.int64)
        _sample_without_replacement(n_, rr.copy(), o_buf)
        o_dress = _sample_without_replacement(i32(n_), np.repeat(rr, 2)[::2])
        ctx.case(("harden", "buffer", "_sample_without_replacement", n_, tuple(rr)), nontrivial=True)
        ctx.count("buffer:_sample_without_replacement")
        if not (np.array_equal(o_buf, o_fresh) and np.array_equal(o_dress, o_fresh) and o_dress.dtype == o_fresh.dtype):
            ctx.fail("hardening_buffer", "_sample_without_replacement: supplied out buffer / np.int32 n / strided r gives a different result", {"call": "_sample_without_replacement", "n": n_, "r": rr.tolist()})
        x1 = probvec(m_, k_, random_state=sd)
        x2 = probvec(m_, k_, random_state=sd)
        x2[...] = -1
        x3 = probvec(m_, k_, random_state=sd)
        g1 = random_game((2, 2), random_state=sd)
        g2 = random_game((2, 2), random_state=sd)
        g2.players[0].payoff_array[...] = -1
        ctx.case(("harden", "alias", sd), nontrivial=True)
        ctx.count("alias:results")
        if np.shares_memory(x1, x3) or not np.array_equal(x1, x3) or np.shares_memory(g1.players[0].payoff_array, g2.players[0].payoff_array) or (g1.players[0].payoff_array == -1).any():
            ctx.fail("hardening_mutation", "results of successive generator calls alias each other", {"call": "probvec/random_game", "seed": sd})

    # ================================================================ shapes, seeds, advancement of a passed generator
    if os.environ.get("VERIF_DEBUG"): sys.stderr.write("[%6.1fs] shapes, seeds, advancement of a passed g\n" % (__import__("time").time() - ctx.t0))
    gens = {
        "probvec": lambda rs: probvec(3, 4, random_state=rs),
        "sample_without_replacement": lambda rs: sample_without_replacement(7, 3, random_state=rs),
        "random_stochastic_matrix": lambda rs: random_stochastic_matrix(4, 2, random_state=rs),
        "random_markov_chain": lambda rs: random_markov_chain(4, 2, random_state=rs).P,
        "random_discrete_dp": lambda rs: random_discrete_dp(3, 2, random_state=rs).R,
        "random_tournament_graph": lambda rs: random_tournament_graph(5, random_state=rs).csgraph.toarray(),
        "random_game": lambda rs: random_game((2, 3, 2), random_state=rs).payoff_profile_array,
        "covariance_game": lambda rs: covariance_game((2, 3), 0.3, random_state=rs).payoff_profile_array,
        "random_polymatrix_game": lambda rs: np.concatenate([v.ravel() for _, v in sorted(random_polymatrix_game((2, 3, 2), random_state=rs).polymatrix.items())]),
        "random_pure_actions": lambda rs: np.array(random_pure_actions((50, 60, 70), random_state=rs)),
        "random_mixed_actions": lambda rs: np.concatenate(random_mixed_actions((2, 3, 4), random_state=rs)),
        "blotto_game": lambda rs: blotto_game(3, 4, 0.5, random_state=rs).payoff_profile_array,
        "ranking_game": lambda rs: ranking_game(5, random_state=rs).payoff_profile_array,
        "tournament_game": lambda rs: tournament_game(5, 2, random_state=rs).players[0].payoff_array,
        "unit_vector_game": lambda rs: unit_vector_game(4, random_state=rs).payoff_profile_array,
    }
    for name, fn in gens.items():
        for seed in [rng.randrange(10**6) for _ in range(2)]:
            a, b = np.asarray(fn(seed)), np.asarray(fn(seed))
            ctx.case(("seed", name, seed), nontrivial=True)
            ctx.count("seed:int")
            if not np.array_equal(a, b):
                ctx.fail("seed_reproducible", "%s: identical integer seeds, different output" % name, {"call": name, "seed": seed})
            for kind in ("RandomState", "Generator"):
                mk = (lambda: np.random.RandomState(seed)) if kind == "RandomState" else (lambda: np.random.default_rng(seed))
                rs = mk()
                before = rs.get_state()[1].copy() if kind == "RandomState" else dict(rs.bit_generator.state["state"])
                pos0 = rs.get_state()[2] if kind == "RandomState" else None
                c = np.asarray(fn(rs))
                after = rs.get_state()[1] if kind == "RandomState" else rs.bit_generator.state["state"]
                advanced = (not np.array_equal(before, after) or rs.get_state()[2] != pos0) if kind == "RandomState" else before != after
                c2 = np.asarray(fn(mk()))
                ctx.case(("seed", name, seed, kind), nontrivial=True)
                ctx.count("seed:%s" % kind)
                if not advanced:
                    ctx.fail("generator_advanced", "%s leaves a passed %s untouched" % (name, kind), {"call": name, "seed": seed, "kind": kind})
                if not np.array_equal(c, c2):
                    ctx.fail("seed_reproducible", "%s: equal %s objects, different output" % (name, kind), {"call": name, "seed": seed, "kind": kind})
    # shapes of the game generators
    for nums in [(1,), (3,), (2, 3), (3, 2, 4), (2, 2, 2, 2)]:
        seed = rng.randrange(10**6)
        g = random_game(nums, random_state=seed)
        ctx.case(("random_game", nums, seed), nontrivial=len(nums) >= 2)
        if g.nums_actions != tuple(nums) or any(p.payoff_array.shape != tuple(nums[i:] + nums[:i]) for i, p in enumerate(g.players)) or \
                any((p.payoff_array < 0).any() or (p.payoff_array >= 1).any() for p in g.players):
            ctx.fail("game_shape", "random_game: wrong shapes / payoffs outside [0,1)", {"call": "random_game", "nums_actions": nums, "seed": seed})
        pa = random_pure_actions(nums, random_state=seed)
        ma = random_mixed_actions(nums, random_state=seed)
        if len(pa) != len(nums) or any(not (0 <= a < n) for a, n in zip(pa, nums)):
            ctx.fail("game_shape", "random_pure_actions: not one action index per player in range", {"call": "random_pure_actions", "nums_actions": nums, "seed": seed}, list(map(int, pa)))
        if len(ma) != len(nums) or any(x.shape != (n,) or (x < 0).any() or abs(x.sum() - 1) > 1e-14 for x, n in zip(ma, nums)):
            ctx.fail("game_shape", "random_mixed_actions: not one simplex point per player", {"call": "random_mixed_actions", "nums_actions": nums, "seed": seed})
        if len(nums) >= 2:
            N = len(nums)
            for rho in (-1.0 / (N - 1), 0.0, 0.7, 1.0):
                g = covariance_game(nums, rho, random_state=seed)
                ctx.case(("covariance_game", nums, rho, seed), nontrivial=True)
                if g.nums_actions != tuple(nums) or g.payoff_profile_array.shape != tuple(nums) + (N,):
                    ctx.fail("game_shape", "covariance_game: wrong shape", {"call": "covariance_game", "nums_actions": nums, "rho": rho, "seed": seed})
                if rho == 1.0 and not np.allclose(g.payoff_profile_array, g.payoff_profile_array[..., :1], atol=1e-6):
                    ctx.fail("game_shape", "covariance_game(rho=1): payoffs of the players are not identical", {"call": "covariance_game", "nums_actions": nums, "rho": rho, "seed": seed})
            for badrho in (-1.0 / (N - 1) - 0.01, 1.01):
                try:
                    covariance_game(nums, badrho)
                    ctx.fail("game_shape", "covariance_game accepts rho outside [-1/(N-1), 1]", {"call": "covariance_game", "nums_actions": nums, "rho": badrho})
                except ValueError:
                    ctx.count("covariance_game:rejected")
            pg = random_polymatrix_game(nums, random_state=seed)
            ctx.case(("random_polymatrix_game", nums, seed), nontrivial=True)
            keys = {(i, j) for i in range(N) for j in range(N) if i != j}
            if set(pg.polymatrix.keys()) != keys or any(np.asarray(pg.polymatrix[(i, j)]).shape != (nums[i], nums[j]) for i, j in keys):
                ctx.fail("game_shape", "random_polymatrix_game: wrong matchups / shapes", {"call": "random_polymatrix_game", "nums_actions": nums, "seed": seed})
    for fn, args in ((random_game, ((),)), (covariance_game, ((3,), 0.0))):
        try:
            fn(*args)
            ctx.fail("game_shape", "%s accepts an invalid nums_actions" % fn.__name__, {"call": fn.__name__, "args": list(map(list, args[:1]))})
        except ValueError:
            ctx.count("games:rejected")

    results = [f_.result() for f_ in futures]       # Coq correspondence checks started before the Python-only sections
    _ex.shutdown()
    for (name, ctype, ok, cases, meta, label, chunk), bad in results:
        for i in bad:
            ctx.mismatch(label, meta[i])


def replay(data):
    """Re-run the first recorded failing input against the current implementation."""
    from quantecon.random.utilities import _probvec_cpu, _sample_without_replacement
    from quantecon.markov import random_stochastic_matrix
    first = data.get("first") or (data.get("mismatches") or [{}])[0]
    print("replay:", json.dumps(first)[:1500])
    inp = first.get("input", {})
    call = inp.get("call")
    try:
        if call == "_probvec":
            r = np.array(inp["r"], dtype=float)
            out = np.empty(len(r) + 1)
            _probvec_cpu(r, out)
            print("out", out.tolist(), "sum", float(out.sum()), "min", float(out.min()))
        elif call == "_sample_without_replacement":
            out = _sample_without_replacement(inp["n"], np.array(inp["r"], dtype=float))
            print("out", out.tolist(), "distinct", len(set(out.tolist())) == len(out))
        elif call == "random_stochastic_matrix" and "stream" in inp:
            q = [np.array(a) for a in (inp.get("u1"), inp.get("u2")) if a is not None]
            P = random_stochastic_matrix(inp["n"], inp["k"], sparse=inp["sparse"], format=inp["format"], random_state=Scripted(q))
            D = P.toarray() if inp["sparse"] else P
            print("P", D.tolist(), "positive entries per row", (D > 0).sum(axis=1).tolist(), "k", inp["k"])
        elif call == "sgc_game":
            from quantecon.game_theory import sgc_game, support_enumeration
            g = sgc_game(inp["k"])
            NE = support_enumeration(g)
            print("number of equilibria", len(NE), "supports", [[np.nonzero(x)[0].tolist() for x in ne] for ne in NE][:4])
        elif call in ("blotto_game", "ranking_game", "tournament_game", "unit_vector_game") and "seed" in inp:
            import quantecon.game_theory as gt
            args = {"blotto_game": ("h", "t", "rho", "mu"), "ranking_game": ("n", "steps"), "tournament_game": ("n", "k"),
                    "unit_vector_game": ("n",)}[call]
            g = getattr(gt, call)(*[inp[a] for a in args], random_state=inp["seed"])
            print("payoff arrays", [p.payoff_array.tolist() for p in g.players])
        elif call == "_populate_random_tournament_row_col":
            from quantecon._graph_tools import _populate_random_tournament_row_col
            r = np.array(inp["r"], dtype=float)
            row = np.empty(len(r), dtype=int)
            col = np.empty(len(r), dtype=int)
            _populate_random_tournament_row_col(inp["n"], r, row, col)
            print("edges", list(zip(row.tolist(), col.tolist())))
        else:
            print("no dedicated replay for", call)
    except Exception as e:
        print("implementation raised", repr(e))
    return 0

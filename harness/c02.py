"""C02: stationary distributions: one per recurrent class, invariant, accurate (GTH)."""
import itertools, math
import numpy as np
from common import *

IMPORTS = "From QE Require Import C02.Model."
FINISH = dict(level="proof", technique_note=(
    "Coq theorems (coq/C02/Props.v) about the executable model coq/C02/Model.v (generic over Num; Q and PrimFloat "
    "instances of the same text); the float instance is compared BIT-EXACTLY with the jitted kernel and the exact Q "
    "instance with relative tolerance n*1e-13 in every component (jit and non-jit paths, MarkovChain rows); "
    "independent exact Fraction linear-algebra oracle (stationary vector per recurrent class, exact support, row count). "
    "non-trivial = distinct matrix with n>=2 and at least one positive off-diagonal entry"))


# ------------------------------------------------------------------ exact oracle (Fractions), independent of GTH
def sccs(n, pos):
    """communication classes by mutual reachability (Floyd-Warshall on booleans) and the recurrent ones"""
    R = [[i == j or pos(i, j) for j in range(n)] for i in range(n)]
    for k in range(n):
        for i in range(n):
            if R[i][k]:
                for j in range(n):
                    if R[k][j]:
                        R[i][j] = True
    seen, comps = set(), []
    for i in range(n):
        if i not in seen:
            c = [j for j in range(n) if R[i][j] and R[j][i]]
            seen |= set(c)
            comps.append(c)
    rec = [c for c in comps if all(not pos(i, j) or j in c for i in c for j in range(n))]
    return comps, rec


def solve_exact(M, b):
    """Gauss-Jordan over Fractions; M square non-singular"""
    m = len(M)
    M = [row[:] + [b[i]] for i, row in enumerate(M)]
    for c in range(m):
        p = next(r for r in range(c, m) if M[r][c] != 0)
        M[c], M[p] = M[p], M[c]
        pv = M[c][c]
        M[c] = [x / pv for x in M[c]]
        for r in range(m):
            if r != c and M[r][c] != 0:
                f = M[r][c]
                M[r] = [x - f * y for x, y in zip(M[r], M[c])]
    return [M[i][m] for i in range(m)]


def exact_stationary(A, cls):
    """exact solution of x (A - diag(rowsums)) = 0, sum x = 1 on the class `cls` (A: Fractions)"""
    m = len(cls)
    if m == 1:
        return [Fraction(1)]
    M = [[Fraction(0)] * m for _ in range(m)]
    for b, j in enumerate(cls):            # equation for column j
        for a, i in enumerate(cls):
            if i != j:
                M[b][a] = A[i][j]
        M[b][b] = -sum(A[j][l] for l in cls if l != j)
    M[m - 1] = [Fraction(1)] * m           # replace the last (dependent) equation by the normalisation
    return solve_exact(M, [Fraction(0)] * (m - 1) + [Fraction(1)])


# ------------------------------------------------------------------ generators (matrices of Fractions / ints)
def rand_row_weights(rng, idx, n):
    row = [Fraction(0)] * n
    for j in idx:
        row[j] = Fraction(rng.randrange(1, 10), rng.choice([1, 2, 3, 4, 5, 7, 8, 16]))
    return row


def gen_irreducible(rng, n, density):
    while True:
        W = [rand_row_weights(rng, [j for j in range(n) if rng.random() < density], n) for _ in range(n)]
        comps, _ = sccs(n, lambda i, j: W[i][j] > 0)
        if len(comps) == 1 and all(any(W[i]) for i in range(n)):
            return W


def block_structure(rng, c, dag_mask, sizes):
    """c classes with the given sizes; class a -> class b (a<b) present iff bit of dag_mask; returns weights"""
    n = sum(sizes)
    offs = [sum(sizes[:i]) for i in range(c)]
    W = [[Fraction(0)] * n for _ in range(n)]
    for a in range(c):
        s = sizes[a]
        blk = gen_irreducible(rng, s, rng.choice([0.4, 0.8])) if s > 1 else [[Fraction(rng.randrange(0, 3), 2)]]
        for i in range(s):
            for j in range(s):
                W[offs[a] + i][offs[a] + j] = blk[i][j]
    bit = 0
    for a in range(c):
        for b in range(a + 1, c):
            if (dag_mask >> bit) & 1:
                for _ in range(rng.randrange(1, 3)):
                    W[offs[a] + rng.randrange(sizes[a])][offs[b] + rng.randrange(sizes[b])] = Fraction(rng.randrange(1, 6), rng.choice([1, 2, 4, 1000]))
            bit += 1
    for i in range(n):                      # no empty row: absorbing self-loop
        if not any(W[i]):
            W[i][i] = Fraction(1)
    return W


def permute(W, perm):
    n = len(W)
    out = [[Fraction(0)] * n for _ in range(n)]
    for i in range(n):
        for j in range(n):
            out[perm[i]][perm[j]] = W[i][j]
    return out


def nearly_decomposable(rng, n, eps):
    k = rng.randrange(1, n)
    W = [[Fraction(0)] * n for _ in range(n)]
    for (lo, hi) in ((0, k), (k, n)):
        s = hi - lo
        blk = gen_irreducible(rng, s, 0.7) if s > 1 else [[Fraction(1)]]
        for i in range(s):
            for j in range(s):
                W[lo + i][lo + j] = blk[i][j]
    e = Fraction(eps).limit_denominator(10 ** 13)
    W[rng.randrange(0, k)][rng.randrange(k, n)] = e
    W[rng.randrange(k, n)][rng.randrange(0, k)] = e * rng.choice([1, 3, Fraction(1, 1000)])
    for _ in range(rng.randrange(0, 3)):    # tiny entries inside as well
        i, j = rng.randrange(n), rng.randrange(n)
        if i != j:
            W[i][j] = Fraction(1, 10 ** rng.choice([6, 9, 12]))
    return W


def stored_dtype_chain(rng, kind, reducible):
    """rows summing to 1 exactly with entries in {0,1} (kind='int': every state has exactly one successor) or in
    multiples of 1/8 (kind='dyadic'); recurrent classes are cycles of length 2..4 (with chords for 'dyadic'),
    transient states lead into them; random numbering"""
    lens = rng.choice([[2, 3], [2, 2], [3, 4], [4, 2], [2, 2, 2], [2, 3, 2]]) if reducible else [rng.randrange(2, 7)]
    t = rng.randrange(1, 9 - sum(lens)) if reducible and sum(lens) < 8 else 0
    n = t + sum(lens)
    W = [[Fraction(0)] * n for _ in range(n)]
    base = t
    blocks = []
    for L in lens:
        blocks.append(list(range(base, base + L)))
        base += L
    for blk in blocks:
        L = len(blk)
        for a, i in enumerate(blk):
            succ = blk[(a + 1) % L]
            if kind == "int":
                W[i][succ] = Fraction(1)
            else:
                others = rng.sample(blk, rng.randrange(0, min(3, L) + 1))
                parts = [succ] + [o for o in others if o != succ]
                cuts = sorted(rng.sample(range(1, 8), len(parts) - 1)) if len(parts) > 1 else []
                ws = [b - a_ for a_, b in zip([0] + cuts, cuts + [8])]
                for tg, w in zip(parts, ws):
                    W[i][tg] += Fraction(w, 8)
    for i in range(t):
        targets = list(range(i + 1, n))
        if kind == "int":
            W[i][rng.choice(targets)] = Fraction(1)
        else:
            parts = rng.sample(targets, min(len(targets), rng.randrange(1, 4)))
            if rng.random() < 0.4:
                parts.append(i)
            cuts = sorted(rng.sample(range(1, 8), len(parts) - 1)) if len(parts) > 1 else []
            ws = [b - a_ for a_, b in zip([0] + cuts, cuts + [8])]
            for tg, w in zip(parts, ws):
                W[i][tg] += Fraction(w, 8)
    perm = list(range(n))
    rng.shuffle(perm)
    return permute(W, perm)


def to_stochastic(W):
    """float row-normalised matrix (row sums 1 up to rounding)"""
    A = np.array([[float(x) for x in r] for r in W])
    return A / A.sum(axis=1, keepdims=True)


def to_generator(W):
    A = np.array([[float(x) for x in r] for r in W])
    np.fill_diagonal(A, 0.0)
    np.fill_diagonal(A, -A.sum(axis=1))
    return A


# ------------------------------------------------------------------ one matrix
def fl2(A):
    return flist2([[float(x) for x in r] for r in A])


def ql2(A):
    return qlist2([[frac(float(x)) for x in r] for r in A])


def check_vector(ctx, kind, inp, x, A, n, classes_allowed, tol):
    """oracle: x is the exact stationary vector of one of the allowed classes within relative tol, exact support"""
    Af = [[frac(float(v)) for v in r] for r in A]
    x = [float(v) for v in x]
    if any(not (v >= 0) for v in x):
        ctx.fail(kind, "negative or nan component", inp, x, None)
        return None
    supp = [i for i in range(n) if x[i] != 0]
    match = [c for c in classes_allowed if c == supp]
    if not match:
        ctx.fail(kind, "support is not exactly one recurrent class", inp, x, classes_allowed)
        return None
    c = match[0]
    ex = exact_stationary(Af, c)
    worst = max(abs(frac(x[i]) - e) / e for i, e in zip(c, ex))
    if worst > tol:
        ctx.fail(kind, "component-wise relative error %.3e above n*1e-13" % float(worst), inp, x, [float(e) for e in ex])
    return c


def run_matrix(ctx, A, origin, st, is_stochastic):
    """A: float/int ndarray. gth_solve in all option combinations + MarkovChain if stochastic."""
    from quantecon.markov.gth_solve import gth_solve
    from quantecon import MarkovChain, mc_compute_stationary
    from scipy import sparse
    rng = ctx.rng
    n = A.shape[0]
    Afl = np.array(A, dtype=float)
    pos = lambda i, j: i != j and Afl[i, j] > 0
    comps, rec = sccs(n, pos)
    tol = Fraction(n, 10 ** 13)
    inp = {"A": Afl.tolist(), "origin": origin, "dtype": str(A.dtype)}
    nontriv = n >= 2 and any(pos(i, j) for i in range(n) for j in range(n))
    ctx.case(("gth", origin, tuple(map(tuple, Afl.tolist())), str(A.dtype)), nontrivial=nontriv,
             sample={"origin": origin, "A": Afl.tolist()})
    ctx.count("n:%d" % n)
    ctx.count("origin:" + origin)
    ctx.count("classes:%d/recurrent:%d" % (min(len(comps), 5), min(len(rec), 4)))
    res = {}
    for order in "CF":
        for overwrite in (False, True):
            for use_jit in (True, False):
                arg = np.array(A, order=order)
                snap = arg.copy()
                try:
                    x = gth_solve(arg, overwrite=overwrite, use_jit=use_jit)
                except Exception as ex:
                    ctx.fail("gth_exception", "gth_solve raised", dict(inp, order=order, overwrite=overwrite, use_jit=use_jit), repr(ex), None)
                    continue
                if not overwrite and not (np.array_equal(arg, snap) and arg.dtype == snap.dtype):
                    ctx.fail("gth_argument_modified", "argument changed although overwrite=False",
                             dict(inp, order=order, overwrite=overwrite, use_jit=use_jit), arg.tolist(), snap.tolist())
                res[(order, overwrite, use_jit)] = x
                c = check_vector(ctx, "gth_value", dict(inp, order=order, overwrite=overwrite, use_jit=use_jit), x, Afl, n, rec, tol)
                if abs(float(sum(frac(v) for v in x)) - 1) > 1e-14:
                    ctx.fail("gth_value", "does not sum to 1", dict(inp, order=order, overwrite=overwrite, use_jit=use_jit), x.tolist(), None)
    # list / nested-list argument (array_like) must not be modified either
    lst_arg = Afl.tolist()
    xl = gth_solve(lst_arg)
    if lst_arg != Afl.tolist():
        ctx.fail("gth_argument_modified", "list argument changed", inp, lst_arg, Afl.tolist())
    jit = [res[k] for k in res if k[2]]
    nojit = [res[k] for k in res if not k[2]]
    if not jit or not nojit:
        return
    for x in jit[1:] + [xl]:
        if not np.array_equal(x, jit[0]):
            ctx.fail("gth_options", "jitted result depends on memory order / overwrite", inp, x.tolist(), jit[0].tolist())
    supp0 = [i for i in range(n) if jit[0][i] != 0]
    for x in nojit:
        if [i for i in range(n) if x[i] != 0] != supp0:
            ctx.fail("gth_options", "use_jit=False selects a different class", inp, x.tolist(), jit[0].tolist())
    # exact Q instance: every case in the thorough tier; in the quick tier all n<=6 and every fourth larger one
    # (the float instance is compared bit-exactly on all, and the Fraction oracle above is exact on all)
    st["big"] += n >= 7
    doq = ctx.tier == "thorough" or n <= 6 or st["big"] % 4 == 1
    ctx.count("coq_Q_instance:" + ("run" if doq else "skipped_quick_tier"))
    st["gth"].append(tup(blit(doq), "%d%%nat" % n, ql2(Afl), fl2(Afl), flist(jit[0]), qlist([frac(v) for v in jit[0]]),
                         qlist([frac(v) for v in nojit[0]])))
    st["gth_meta"].append(inp)
    # ---------------- MarkovChain.stationary_distributions
    if not is_stochastic:
        return
    rows_by_form = {}
    base = np.array(A)            # the matrix in its STORAGE dtype (int8/int32/int64/float16/float32/float64)
    for form in ("dense", "csr", "func"):
        if form == "csr" and base.dtype == np.float16:
            continue              # scipy.sparse has no float16
        arg = sparse.csr_matrix(base) if form == "csr" else base.copy()
        snap = arg.copy()
        try:
            if form == "func":
                sd = mc_compute_stationary(arg)
                recs = [list(map(int, c)) for c in MarkovChain(arg).recurrent_classes_indices]
            else:
                mc = MarkovChain(arg)
                sd = mc.stationary_distributions
                recs = [list(map(int, c)) for c in mc.recurrent_classes_indices]
        except Exception as ex:
            ctx.fail("sd_exception", "stationary_distributions raised", dict(inp, form=form), repr(ex), None)
            continue
        same = (abs(arg - snap).nnz == 0 and arg.nnz == snap.nnz) if form == "csr" else np.array_equal(arg, snap)
        if not same:
            ctx.fail("sd_argument_modified", "P changed by stationary_distributions", dict(inp, form=form), None, None)
        sd = np.asarray(sd)
        finp = dict(inp, form=form)
        if sd.shape != (len(rec), n):
            ctx.fail("sd_rows", "not exactly one row per recurrent class", finp, list(sd.shape), [len(rec), n])
            continue
        used = []
        for r in range(sd.shape[0]):
            c = check_vector(ctx, "sd_value", finp, sd[r], Afl, n, rec, tol)
            if c is not None:
                used.append(c)
                # invariance x P = x, exactly evaluated, to the accuracy implied by the component-wise bound
                xP = [sum(frac(sd[r][i]) * frac(Afl[i][j]) for i in range(n)) for j in range(n)]
                if any(abs(xP[j] - frac(sd[r][j])) > Fraction(4 * n, 10 ** 13) for j in range(n)):
                    ctx.fail("sd_invariant", "row is not invariant under P", finp, sd[r].tolist(), [float(v) for v in xP])
        if sorted(used) != sorted(rec):
            ctx.fail("sd_rows", "rows do not correspond one-to-one to the recurrent classes", finp, sd.tolist(), rec)
        if [sorted(c) for c in recs] != [[i for i in range(n) if sd[r][i] != 0] for r in range(sd.shape[0])]:
            ctx.fail("sd_rows", "row order differs from recurrent_classes_indices", finp, sd.tolist(), recs)
        rows_by_form[form] = sorted(sd.tolist(), key=lambda r: [i for i in range(n) if r[i] != 0])
    if "dense" in rows_by_form:
        for f in ("csr", "func"):
            if f in rows_by_form and rows_by_form[f] != rows_by_form["dense"]:
                ctx.fail("sd_forms", "sparse / mc_compute_stationary result differs from dense", dict(inp, form=f), rows_by_form[f], rows_by_form["dense"])
        rows = rows_by_form["dense"]
        # irreducible: stationary_distributions is gth_solve(P), whose Q comparison is the gth case above
        doq2 = (doq and n <= 6) if len(comps) == 1 else (ctx.tier == "thorough" or max(len(c) for c in rec) <= 6 or doq)
        st["sd"].append(tup(blit(doq2), "%d%%nat" % n, ql2(Afl), fl2(Afl), flist2(rows), qlist2([[frac(v) for v in r] for r in rows])))
        st["sd_meta"].append(inp)


def run(ctx):
    thorough = ctx.tier == "thorough"
    ctx.proofs(["C02/Props.v", "C02/PropsTie.v"])
    rng = ctx.rng
    st = {"gth": [], "gth_meta": [], "sd": [], "sd_meta": [], "big": 0}
    reps = 4 if thorough else 1
    # 1. irreducible stochastic and generator matrices, n = 1..8
    for n in range(1, 9):
        for _ in range(12 * reps if n > 1 else 2):
            W = gen_irreducible(rng, n, rng.choice([0.3, 0.5, 0.9])) if n > 1 else [[Fraction(rng.randrange(1, 4))]]
            run_matrix(ctx, to_stochastic(W), "irreducible_stochastic", st, True)
            if rng.random() < 0.6:
                run_matrix(ctx, to_generator(W), "generator", st, False)
            if rng.random() < 0.3:      # integer dtype (counts); scaled to integers
                Wi = np.array([[int(x * 1680) for x in r] for r in W], dtype=rng.choice([np.int64, np.int32]))
                run_matrix(ctx, Wi, "integer_dtype", st, False)
    # 2. every reducible block structure up to 4 classes (all DAG patterns between classes), random sizes and numbering
    for c in range(1, 5):
        for mask in range(2 ** (c * (c - 1) // 2)):
            for _ in range(reps if c == 4 else 2 * reps):
                sizes = [rng.choice([1, 1, 2, 3]) for _ in range(c)]
                while sum(sizes) > 8:
                    sizes[sizes.index(max(sizes))] -= 1
                W = block_structure(rng, c, mask, sizes)
                perm = list(range(len(W)))
                if rng.random() < 0.7:
                    rng.shuffle(perm)
                W = permute(W, perm)
                run_matrix(ctx, to_stochastic(W), "block_c%d" % c, st, True)
                if rng.random() < 0.25:
                    run_matrix(ctx, to_generator(W), "block_generator", st, False)
    # 2b. three or four recurrent classes with at least two states each (equal sizes included), a few transient
    #     states feeding them, random numbering: a wrong sub-matrix for a class shows only here
    for _ in range(14 * reps):
        sizes = rng.choice([[2, 2, 2], [2, 2, 2, 2], [2, 3, 2], [3, 2, 3], [2, 2, 3], [2, 2, 2, 1], [3, 3, 2]])
        t = rng.randrange(0, 9 - sum(sizes))
        c = len(sizes) + t
        # transient singletons first (each feeding one or two recurrent blocks), then the recurrent blocks
        mask, bit = 0, 0
        for a in range(c):
            for b in range(a + 1, c):
                if a < t and b >= t and rng.random() < 0.6:
                    mask |= 1 << bit
                bit += 1
        W = block_structure(rng, c, mask, [1] * t + sizes)
        for a in range(t):                      # make sure a transient state really leaves
            if not any(W[a][j] for j in range(t, len(W))):
                W[a][rng.randrange(t, len(W))] = Fraction(1, 2)
        perm = list(range(len(W)))
        rng.shuffle(perm)
        run_matrix(ctx, to_stochastic(permute(W, perm)), "many_recurrent", st, True)
    # 2c. chains STORED with an integer or a narrow float dtype (entries exactly representable, rows sum to 1 exactly):
    #     the result must be the float64-accurate stationary vector whatever the storage dtype
    for _ in range(10 * reps):
        for kind in ("int", "dyadic"):
            W = stored_dtype_chain(rng, kind, reducible=rng.random() < 0.75)
            dts = [np.int8, np.int32, np.int64] if kind == "int" else [np.float32, np.float16, np.float64]
            for dt in rng.sample(dts, 2):
                M = np.array([[float(v) for v in r] for r in W]).astype(dt)
                assert np.array_equal(M.astype(float), np.array([[float(v) for v in r] for r in W]))
                run_matrix(ctx, M, "stored_%s" % np.dtype(dt).name, st, True)
    # 3. nearly decomposable, entries down to 1e-12
    for _ in range(40 * reps):
        n = rng.randrange(2, 9)
        W = nearly_decomposable(rng, n, rng.choice([1e-3, 1e-6, 1e-9, 1e-12]))
        run_matrix(ctx, to_stochastic(W), "nearly_decomposable", st, True)
        if rng.random() < 0.3:
            run_matrix(ctx, to_generator(W), "nearly_decomposable_generator", st, False)
    # 4. sparse P with stored zeros: same graph, same number of rows
    stored_zero_stream(ctx)
    # 5. hardening audit: dress/dtype, object reuse and call order, aliasing, optional arguments, boundaries, errors
    harden_stream(ctx, st)
    # ---------------- Coq: float instance bit-exact, Q instance within n*1e-13 relative
    def spread(cases, meta):   # deterministic shuffle so that expensive (large n) cases are spread over the chunks
        idx = list(range(len(cases)))
        random.Random(ctx.seed).shuffle(idx)
        return [cases[i] for i in idx], [meta[i] for i in idx]
    st["gth"], st["gth_meta"] = spread(st["gth"], st["gth_meta"])
    st["sd"], st["sd_meta"] = spread(st["sd"], st["sd_meta"])
    ok = ("fun c => let '(doq, n, AQ, AF, xf, xq, xnj) := c in let tol := (Z.of_nat n # 10000000000000) in "
          "Fs_eq (gthF n AF) xf && (if doq then let xe := gthQ n AQ in Qs_relclose' tol xq xe && Qs_relclose' tol xnj xe else true)")
    bad = ctx.coq_check("gth_solve", IMPORTS, "bool * nat * list (list Q) * list (list float) * list float * list Q * list Q",
                        ok, st["gth"], chunk=16 if ctx.tier == "thorough" else 32)
    for i in bad[:10]:
        ctx.mismatch("C02.Model.gthF (bit-exact) / gthQ (rel n*1e-13) vs gth_solve", st["gth_meta"][i])
    ok = ("fun c => let '(doq, n, AQ, AF, rf, rq) := c in let tol := (Z.of_nat n # 10000000000000) in "
          "Fss_eq (stationaryF n AF) rf && (if doq then Qss_relclose' tol rq (stationaryQ n AQ) else true)")
    bad = ctx.coq_check("stationary_distributions", IMPORTS, "bool * nat * list (list Q) * list (list float) * list (list float) * list (list Q)",
                        ok, st["sd"], chunk=16 if ctx.tier == "thorough" else 32)
    for i in bad[:10]:
        ctx.mismatch("C02.Model.stationaryF (bit-exact) / stationaryQ (rel n*1e-13) vs MarkovChain.stationary_distributions", st["sd_meta"][i])


def harden_stream(ctx, st):
    from scipy import sparse
    from quantecon import MarkovChain, mc_compute_stationary
    from quantecon.markov.gth_solve import gth_solve
    rng = ctx.rng

    def guarded(inp, f):
        try:
            return f()
        except Exception as ex:
            ctx.fail("exception", "exception on a valid input: " + repr(ex)[:200], inp, repr(ex), None)
            return None

    def rows(sd):
        sd = np.asarray(sd)
        return sorted(sd.tolist(), key=lambda r: [i for i in range(len(r)) if r[i] != 0])

    mats = []
    for _ in range(5):
        mats.append(np.array([[float(v) for v in r] for r in stored_dtype_chain(rng, "dyadic", True)]))
        mats.append(np.array([[float(v) for v in r] for r in stored_dtype_chain(rng, "int", True)]))
    for _ in range(3):
        mats.append(np.array([[float(v) for v in r] for r in stored_dtype_chain(rng, "dyadic", False)]))
    mats.append(np.array([[1.0]]))
    mats.append(np.array([[0.5, 0.5], [0.0, 1.0]]))
    live = []
    for P in mats:
        n = P.shape[0]
        inp0 = {"A": P.tolist(), "origin": "harden"}
        run_matrix(ctx, P, "harden_reference", st, True)     # oracle + Coq on the canonical form
        xref = guarded(inp0, lambda: gth_solve(P))
        sref = guarded(inp0, lambda: rows(MarkovChain(P).stationary_distributions))
        if xref is None or sref is None:
            continue
        onehot = bool(np.all((P == 0) | (P == 1)))
        big = np.full((2 * n, 2 * n), 7.0)
        big[::2, ::2] = P
        tall = np.vstack([P, np.full((2, n), 3.0)])
        # ---- class 1 + 4: gth_solve dress and optional arguments
        gd = {"list": P.tolist(), "tuple": tuple(map(tuple, P.tolist())), "list_of_arrays": [r for r in P],
              "float32": P.astype(np.float32), "noncontiguous_view": big[::2, ::2], "rows_of_larger_array": tall[:n],
              "F_order": np.asfortranarray(P), "scaled_int32": (P * 8).astype(np.int32), "scaled_int64": (P * 8).astype(np.int64)}
        if onehot:
            gd["bool"] = P.astype(bool)
            gd["uint8"] = P.astype(np.uint8)
        for name, M in gd.items():
            for kw in ({}, {"overwrite": False, "use_jit": True}, {"overwrite": False}, {"use_jit": True}, {"overwrite": True}):
                snap = np.array(M, copy=True) if isinstance(M, np.ndarray) else [list(r) for r in M]
                x = guarded(dict(inp0, dress=name, kwargs=str(kw)), lambda: gth_solve(M, **kw))
                ctx.count("dress:gth:" + name)
                ctx.count("optional:" + (",".join(sorted(kw)) or "omitted"))
                ctx.case(("harden_gth", tuple(map(tuple, P.tolist())), name, str(sorted(kw.items()))), nontrivial=n >= 2)
                if x is None:
                    continue
                if not np.array_equal(x, xref) or x.dtype != np.float64:
                    ctx.fail("dress", "gth_solve result depends on container/dtype/layout or on explicitly passed defaults",
                             dict(inp0, dress=name, kwargs=str(kw)), x.tolist(), xref.tolist())
                untouched = np.array_equal(np.asarray(M, dtype=float), np.asarray(snap, dtype=float))
                if not kw.get("overwrite") and not untouched:
                    ctx.fail("gth_argument_modified", "argument changed although overwrite is not requested", dict(inp0, dress=name, kwargs=str(kw)), None, None)
                if isinstance(M, np.ndarray) and np.shares_memory(x, M):
                    ctx.fail("alias", "result shares memory with the argument", dict(inp0, dress=name, kwargs=str(kw)), None, None)
                if kw.get("overwrite") and isinstance(M, np.ndarray) and not untouched:
                    M[...] = snap                       # restore the view for the next round
        # class 3: successive results do not alias each other
        x1 = gth_solve(P); x2 = gth_solve(P)
        x1[...] = -1.0
        ctx.count("alias:successive_results")
        if not np.array_equal(x2, xref) or np.shares_memory(x1, x2):
            ctx.fail("alias", "successive gth_solve results alias each other", inp0, x2.tolist(), xref.tolist())
        # ---- class 1: MarkovChain P in every container / sparse format / dtype
        md = {"list": P.tolist(), "tuple": tuple(map(tuple, P.tolist())), "float32": P.astype(np.float32),
              "float16": P.astype(np.float16), "F_order": np.asfortranarray(P), "noncontiguous_view": big[::2, ::2]}
        if onehot:
            md["bool"] = P.astype(bool); md["int32"] = P.astype(np.int32)
        for fmt in ("csr", "csc", "coo", "lil"):
            md["sparse:" + fmt] = getattr(sparse, fmt + "_matrix")(P)
            md["sparse:" + fmt + ":float32"] = getattr(sparse, fmt + "_matrix")(P.astype(np.float32))
            if onehot:
                md["sparse:" + fmt + ":int8"] = getattr(sparse, fmt + "_matrix")(P.astype(np.int8))
        for name, M in md.items():
            kw = rng.choice([{}, {"state_values": None}, {"state_values": list(range(10, 10 + n))}])
            dinp = dict(inp0, dress="mc:" + name, kwargs=str(kw))
            snap = M.copy() if hasattr(M, "copy") and not isinstance(M, (list, tuple)) else None
            r = guarded(dinp, lambda: rows(MarkovChain(M, **kw).stationary_distributions))
            r2 = guarded(dinp, lambda: rows(mc_compute_stationary(M)))
            ctx.count("dress:mc:" + name.split(":float32")[0].split(":int8")[0])
            ctx.case(("harden_sd", tuple(map(tuple, P.tolist())), name), nontrivial=n >= 2)
            for got in (r, r2):
                if got is not None and got != sref:
                    ctx.fail("dress", "stationary_distributions depends on container/dtype/sparse format of P", dinp, got, sref)
            if snap is not None:
                same = (abs(M - snap).nnz == 0 and M.nnz == snap.nnz and M.dtype == snap.dtype) if sparse.issparse(M) else np.array_equal(M, snap)
                if not same:
                    ctx.fail("sd_argument_modified", "P modified", dinp, None, None)
        live.append((P, sref))
    # ---- class 2: objects reused, several alive at once, attributes read in different orders, simulate in between
    objs = [(P, sref, MarkovChain(rng.choice([P, sparse.csr_matrix(P), P.tolist()]))) for (P, sref) in live]
    steps = [(i, a) for i in range(len(objs)) for a in ("sd", "classes", "period", "simulate", "sd", "cyclic", "sd")]
    rng.shuffle(steps)
    for i, a in steps:
        P, sref, m = objs[i]
        inp = {"A": P.tolist(), "seq": a}
        ctx.count("seq:" + a)
        if a == "sd":
            sd = guarded(inp, lambda: m.stationary_distributions)
            if sd is None:
                continue
            if rows(sd) != sref:
                ctx.fail("state", "stationary_distributions changes when the object is reused / read in another order", inp, rows(sd), sref)
            if not sparse.issparse(m.P) and np.shares_memory(sd, m.P):
                ctx.fail("alias", "stationary_distributions shares memory with P", inp, None, None)
            Pn = m.P.toarray() if sparse.issparse(m.P) else np.asarray(m.P)
            if not np.array_equal(np.asarray(Pn, dtype=float), P):
                ctx.fail("sd_argument_modified", "MarkovChain.P changed by computing stationary distributions", inp, Pn.tolist(), P.tolist())
        elif a == "classes":
            guarded(inp, lambda: (m.recurrent_classes_indices, m.communication_classes_indices, m.is_irreducible))
        elif a == "period":
            guarded(inp, lambda: (m.period, m.is_aperiodic))
        elif a == "simulate":
            guarded(inp, lambda: m.simulate(6, random_state=3))
        elif a == "cyclic":
            try:
                m.cyclic_classes_indices
            except NotImplementedError:
                pass
            except Exception as ex:
                ctx.fail("exception", "exception on a valid input: " + repr(ex)[:200], inp, repr(ex), None)
    # ---- class 5/6: boundaries and documented errors
    for name, arg, exp in (("1x1_zero", [[0.0]], [1.0]), ("1x1_int", [[5]], [1.0]), ("1x1_np_float32", np.array([[2.0]], dtype=np.float32), [1.0]),
                           ("identity2", np.eye(2), None), ("zeros3", np.zeros((3, 3)), None)):
        x = guarded({"call": name}, lambda: gth_solve(arg))
        ctx.count("boundary:" + name)
        if x is not None and (abs(float(np.sum(x)) - 1) > 1e-15 or np.any(x < 0) or (exp is not None and x.tolist() != exp)
                              or int(np.count_nonzero(x)) != 1):
            ctx.fail("gth_value", "degenerate input: not the unit vector of one absorbing state", {"call": name}, x.tolist(), exp)
    for name, f in (("gth_nonsquare", lambda: gth_solve(np.ones((2, 3)))), ("gth_1d", lambda: gth_solve(np.ones(3))),
                    ("gth_3d", lambda: gth_solve(np.ones((2, 2, 2))))):
        ctx.count("error:" + name)
        try:
            f()
            ctx.fail("missing_error", "documented ValueError not raised", {"call": name}, None, "ValueError")
        except ValueError:
            pass
        except Exception as ex:
            ctx.fail("missing_error", "wrong exception type", {"call": name}, repr(ex), "ValueError")


def stored_zero_stream(ctx):
    from scipy import sparse
    from quantecon import MarkovChain
    rng = ctx.rng
    for t in range(8):
        c = rng.randrange(2, 4)
        W = block_structure(rng, c, rng.randrange(2 ** (c * (c - 1) // 2)), [rng.choice([1, 2]) for _ in range(c)])
        P = to_stochastic(W)
        n = P.shape[0]
        data, ind, ptr = [], [], [0]
        nz = 0
        for i in range(n):
            for j in range(n):
                if P[i, j] > 0 or rng.random() < 0.5:
                    data.append(P[i, j]); ind.append(j)
                    nz += P[i, j] == 0
            ptr.append(len(ind))
        S = sparse.csr_matrix((np.array(data), np.array(ind), np.array(ptr)), shape=(n, n))
        _, rec = sccs(n, lambda i, j: i != j and P[i, j] > 0)
        inp = {"A": P.tolist(), "form": "csr_explicit_zeros", "stored_zeros": int(nz)}
        ctx.case(("stored_zeros", tuple(map(tuple, P.tolist())), tuple(ind)), nontrivial=nz > 0)
        ctx.count("origin:csr_stored_zeros")
        nnz0 = S.nnz
        sd = np.asarray(MarkovChain(S).stationary_distributions)
        dd = np.asarray(MarkovChain(P).stationary_distributions)
        if S.nnz != nnz0:
            ctx.fail("sd_argument_modified", "caller's sparse matrix lost its stored zeros", inp, S.nnz, nnz0)
        if sd.shape != (len(rec), n) or sorted(sd.tolist()) != sorted(dd.tolist()):
            ctx.fail("explicit_zero_edge", "stored zeros of a sparse P change the stationary distributions", inp, sd.tolist(), dd.tolist())


def replay(data):
    from quantecon.markov.gth_solve import gth_solve
    first = data.get("first") or (data.get("mismatches") or [{}])[0]
    print("replay:", json.dumps(first)[:2000])
    inp = first.get("input", {})
    if "A" in inp:
        A = np.array(inp["A"])
        n = A.shape[0]
        x = gth_solve(A, overwrite=False, use_jit=inp.get("use_jit", True))
        _, rec = sccs(n, lambda i, j: i != j and A[i, j] > 0)
        Af = [[frac(float(v)) for v in r] for r in A]
        print("gth_solve:", x.tolist())
        if "form" in inp or first.get("kind", "").startswith("sd"):
            from quantecon import MarkovChain
            from scipy import sparse
            try:
                arg = sparse.csr_matrix(A) if inp.get("form") == "csr" else A
                print("MarkovChain(%s).stationary_distributions:" % inp.get("form", "dense"),
                      np.asarray(MarkovChain(arg).stationary_distributions).tolist())
            except Exception as ex:
                print("MarkovChain raised", repr(ex))
        for c in rec:
            print("exact class", c, [float(v) for v in exact_stationary(Af, c)])
    return 0

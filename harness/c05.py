"""C05: two-player Nash solvers (lemke_howson, support_enumeration, vertex_enumeration) are sound and, on
non-degenerate games, complete; pure_nash_brute returns exactly the pure equilibria of an N-player game."""
import itertools, warnings
import numpy as np
from common import *

IMPORTS = "From QE Require Import Gen.Consts C05.Model C05.PureNash.\nFrom QE Require C14.Model."
FINISH = dict(level="proof", technique_note=(
    "Coq theorems (coq/C05/Props.v) about the executable models coq/C05/Model.v, PureNash.v (generic over Num: exact Q "
    "instance for theorems, PrimFloat instance compared bit-exactly with the jitted Lemke-Howson / vertex-enumeration "
    "kernels); models evaluated by vm_compute on the inputs and outputs of the implementation for every initial pivot "
    "and capping value; independent exact oracle (Fractions): Nash test of every returned profile, exact support "
    "enumeration and exact vertex-based non-degeneracy certificate for completeness. non-trivial = game with at "
    "least 2 actions for both players (some player for N-player games)"))

PRE = """
Definition pair_close (tol : Q) (a b : list Q * list Q) : bool :=
  Qs_close tol (fst a) (fst b) && Qs_close tol (snd a) (snd b).
Definition pair_feq (a b : list float * list float) : bool :=
  Fs_eqb (fst a) (fst b) && Fs_eqb (snd a) (snd b).
Definition zopt_eqb := opt_eqb Z.eqb.
Definition eps9 : Q := 1 # 1000000000.
Definition se_strict m n A Bt := support_enumeration_margin eps9 (- eps9) m n A Bt.
Definition se_loose m n A Bt := support_enumeration_margin (- eps9) eps9 m n A Bt.
(* separated case (no acceptance decision within 1e-9 of its threshold): the list must agree in order;
   otherwise rounding decides borderline supports: strict <= implementation <= loose *)
Definition se_sep (c : nat * nat * list (list Q) * list (list Q) * list (list Q * list Q)) : bool :=
  let '(m, n, A, Bt, out) := c in (length (se_strict m n A Bt) =? length (se_loose m n A Bt))%nat.
Definition se_ok (c : nat * nat * list (list Q) * list (list Q) * list (list Q * list Q)) : bool :=
  let '(m, n, A, Bt, out) := c in
  if se_sep c then list_eqb (pair_close eps9) (support_enumeration m n A Bt) out
  else forallb (fun p => existsb (pair_close eps9 p) out) (se_strict m n A Bt) &&
       forallb (fun p => existsb (pair_close eps9 p) (se_loose m n A Bt)) out.
Definition lhf_ok (c : nat * nat * list (list float) * list (list float) *
                       list (nat * Z * option Z * (list float * list float) * bool * Z * nat)) : bool :=
  let '(m, n, A, Bt, runs) := c in
  forallb (fun r => let '(ip, mi, cap, ne, conv, ni, used) := r in
             let '(ne', conv', ni', used') := lemke_howson piv_TOL_PIV_f piv_TOL_RATIO_DIFF_f m n A Bt ip mi cap in
             pair_feq ne' ne && Bool.eqb conv' conv && Z.eqb ni' ni && Nat.eqb used' used) runs.
Definition lhq_ok (c : nat * nat * list (list Q) * list (list Q) *
                       list (nat * Z * option Z * (list Q * list Q) * bool * Z * nat)) : bool :=
  let '(m, n, A, Bt, runs) := c in
  forallb (fun r => let '(ip, mi, cap, ne, conv, ni, used) := r in
             let '(ne', conv', ni', used') := lemke_howson piv_TOL_PIV piv_TOL_RATIO_DIFF m n A Bt ip mi cap in
             pair_close (1 # 1000000000) ne' ne && Bool.eqb conv' conv && Z.eqb ni' ni && Nat.eqb used' used) runs.
(* certificate for the theorem instance (tolerance 0, exact arithmetic): every converged run ends in an exact equilibrium *)
Definition lhcert_ok (c : nat * nat * list (list Q) * list (list Q) *
                       list (nat * Z * option Z * (list Q * list Q) * bool * Z * nat)) : bool :=
  let '(m, n, A, Bt, runs) := c in
  forallb (fun r => let '(ip, mi, cap, ne, conv, ni, used) := r in
             let '(ne', conv', ni', used') := lemke_howson 0 0 m n A Bt ip mi cap in
             implb conv' (nash_checkb m n A Bt (fst ne') (snd ne'))) runs.
Definition Ns_eqb := list_eqb N.eqb.
Definition ve_ok (c : nat * nat * list (list N) * list (list N) * list N * list N *
                      list (list float) * list (list float) * float * float * list (list float * list float)) : bool :=
  let '(m, n, labs0, labs1, bits0, bits1, eqs0, eqs1, tr0, tr1, out) := c in
  Ns_eqb (map ints_to_bits labs0) bits0 && Ns_eqb (map ints_to_bits labs1) bits1 &&
  list_eqb pair_feq (vertex_enumeration m n bits0 bits1 eqs0 eqs1 tr0 tr1) out.
Definition pn_ok (c : C14.Model.game Q * list (Q * list (list nat))) : bool :=
  let '(g, l) := c in forallb (fun x => natss_eqb (pure_nash_brute g (fst x)) (snd x)) l.
"""


def arrlit(a):
    a = np.asarray(a)
    return "(%s, %s)" % (natlist(a.shape), qlist([frac(x) for x in a.ravel(order="C").tolist()]))


def zl(n):
    return "(%d)%%Z" % int(n)


def nlist(a):
    a = list(a)
    return "[" + "; ".join("%d" % int(i) for i in a) + "]%N" if a else "(@nil N)"


def clist(items, ty):
    items = list(items)
    return "[" + "; ".join(items) + "]" if items else "(@nil (%s))" % ty


def pairq(ne):
    return tup(qlist([frac(x) for x in ne[0].tolist()]), qlist([frac(x) for x in ne[1].tolist()]))


def pairf(ne):
    return tup(flist(ne[0].tolist()), flist(ne[1].tolist()))


# ------------------------------------------------------------------ exact oracles (Fractions)
def fr_mat(M):
    return [[frac(x) for x in row] for row in np.asarray(M).tolist()]


def nash_defect(A, B, x, y):
    """largest violation of the Nash conditions of (x, y) in the bimatrix game (A, B) (A, B both m x n), exactly"""
    m, n = len(A), len(A[0])
    viol = max([-v for v in x] + [-v for v in y] + [abs(sum(x) - 1), abs(sum(y) - 1)])
    Ay = [sum(A[i][j] * y[j] for j in range(n)) for i in range(m)]
    xB = [sum(x[i] * B[i][j] for i in range(m)) for j in range(n)]
    u0 = sum(x[i] * Ay[i] for i in range(m))
    u1 = sum(xB[j] * y[j] for j in range(n))
    return max(viol, max(Ay) - u0, max(xB) - u1)


def solve_exact(M, b):
    """Gaussian elimination over Fractions; None if singular"""
    n = len(M)
    a = [row[:] + [bb] for row, bb in zip(M, b)]
    for c in range(n):
        p = next((r for r in range(c, n) if a[r][c] != 0), None)
        if p is None:
            return None
        a[c], a[p] = a[p], a[c]
        pv = a[c][c]
        a[c] = [v / pv for v in a[c]]
        for r in range(n):
            if r != c and a[r][c] != 0:
                f = a[r][c]
                a[r] = [v - f * w for v, w in zip(a[r], a[c])]
    return [a[r][n] for r in range(n)]


def exact_support_enumeration(A, B):
    """all equilibria with equal-size supports and non-singular indifference systems (all equilibria of a
    non-degenerate game), independent implementation"""
    m, n = len(A), len(A[0])
    out = []
    for k in range(1, min(m, n) + 1):
        for I in itertools.combinations(range(m), k):
            for J in itertools.combinations(range(n), k):
                # y on J making rows I indifferent; x on I making columns J indifferent
                My = [[A[i][j] for j in J] + [Fraction(-1)] for i in I] + [[Fraction(1)] * k + [Fraction(0)]]
                sy = solve_exact(My, [Fraction(0)] * k + [Fraction(1)])
                Mx = [[B[i][j] for i in I] + [Fraction(-1)] for j in J] + [[Fraction(1)] * k + [Fraction(0)]]
                sx = solve_exact(Mx, [Fraction(0)] * k + [Fraction(1)])
                if sy is None or sx is None or min(sy[:k]) <= 0 or min(sx[:k]) <= 0:
                    continue
                x = [Fraction(0)] * m
                y = [Fraction(0)] * n
                for t, i in enumerate(I):
                    x[i] = sx[t]
                for t, j in enumerate(J):
                    y[j] = sy[t]
                if nash_defect(A, B, x, y) == 0:
                    out.append((x, y))
    return out


def polytope_vertices(C):
    """vertices of {z >= 0, C z <= 1} (C with positive entries, rows = constraints) with their tight sets"""
    r, d = len(C), len(C[0])
    cons = [([Fraction(1) if t == i else Fraction(0) for t in range(d)], Fraction(0), True) for i in range(d)]
    cons += [(C[j], Fraction(1), False) for j in range(r)]
    verts = {}
    for S in itertools.combinations(range(len(cons)), d):
        z = solve_exact([cons[s][0] for s in S], [cons[s][1] for s in S])
        if z is None:
            continue
        if any(v < 0 for v in z) or any(sum(c * v for c, v in zip(C[j], z)) > 1 for j in range(r)):
            continue
        tight = tuple(s for s in range(len(cons)) if sum(c * v for c, v in zip(cons[s][0], z)) == cons[s][1])
        verts[tuple(z)] = tight
    return verts


def is_nondegenerate(A, B):
    """exhaustive certificate: no vertex of either best-response polytope has more tight constraints than its
    dimension (payoffs shifted positive; degeneracy does not depend on the shift)"""
    m, n = len(A), len(A[0])
    sa = 1 - min(min(r) for r in A)
    sb = 1 - min(min(r) for r in B)
    P = polytope_vertices([[B[i][j] + sb for i in range(m)] for j in range(n)])      # x in R^m
    Qv = polytope_vertices([[A[i][j] + sa for j in range(n)] for i in range(m)])     # y in R^n
    return all(len(t) <= m for t in P.values()) and all(len(t) <= n for t in Qv.values())


def well_formed(nes, m, n):
    """list of pairs of finite float vectors of lengths m and n (validated before anything is rendered into Coq)"""
    try:
        for ne in nes:
            if len(ne) != 2:
                return False
            x, y = np.asarray(ne[0], dtype=float), np.asarray(ne[1], dtype=float)
            if x.shape != (m,) or y.shape != (n,) or not (np.all(np.isfinite(x)) and np.all(np.isfinite(y))):
                return False
        return True
    except Exception:
        return False


def rat_profile(ne):
    return [frac(v) for v in ne[0].tolist()], [frac(v) for v in ne[1].tolist()]


def profiles_match(p, q, tol=Fraction(1, 10**9)):
    return all(abs(a - b) <= tol for a, b in zip(p[0] + p[1], q[0] + q[1]))


def same_set(ps, qs):
    return len(ps) == len(qs) and all(any(profiles_match(p, q) for q in qs) for p in ps) and all(any(profiles_match(p, q) for p in ps) for q in qs)


def gen_bimatrix(rng, m, n, kind):
    if kind == "int":
        A = np.array([[rng.randrange(-3, 4) for _ in range(n)] for _ in range(m)], dtype=float)
        B = np.array([[rng.randrange(-3, 4) for _ in range(n)] for _ in range(m)], dtype=float)
    elif kind == "struct":   # constant / duplicated rows and columns, negative payoffs
        A = np.array([[rng.randrange(-3, 4) for _ in range(n)] for _ in range(m)], dtype=float)
        B = np.array([[rng.randrange(-3, 0) for _ in range(n)] for _ in range(m)], dtype=float)
        if m >= 2:
            A[rng.randrange(m)] = A[rng.randrange(m)]
            B[rng.randrange(m)] = rng.randrange(-3, 4)
        if n >= 2:
            B[:, rng.randrange(n)] = B[:, rng.randrange(n)]
            A[:, rng.randrange(n)] = rng.randrange(-3, 4)
    elif kind == "zero_sum":
        A = np.array([[rng.randrange(-3, 4) for _ in range(n)] for _ in range(m)], dtype=float)
        B = -A
    else:  # generic rationals: three-digit numerators over 64 (exact doubles)
        A = np.array([[rng.randrange(-999, 1000) / 64.0 for _ in range(n)] for _ in range(m)])
        B = np.array([[rng.randrange(-999, 1000) / 64.0 for _ in range(n)] for _ in range(m)])
    return A, B


def gen_const_nonpos(rng, m, n):
    """integer game in which a row of B (player 1's payoffs against one action of player 0) and a column of A are
    constant with a non-positive value, other entries negative or mixed"""
    lo = rng.choice([-5, -3])
    A = np.array([[rng.randrange(lo, 4) for _ in range(n)] for _ in range(m)], dtype=float)
    B = np.array([[rng.randrange(lo, 4) for _ in range(n)] for _ in range(m)], dtype=float)
    B[rng.randrange(m)] = rng.choice([0, -1, -2, -4])
    A[:, rng.randrange(n)] = rng.choice([0, -1, -2, -4])
    if rng.random() < 0.4:
        B[:, rng.randrange(n)] = rng.choice([0, -1, -3])
    if rng.random() < 0.4:
        A[rng.randrange(m)] = rng.choice([0, -1, -3])
    return A, B


def gen_kd_degenerate(rng, smax):
    """degenerate game with payoffs k/d, d in {3, 7, 9}: many ties, duplicated rows and columns"""
    m, n, d, r = rng.randrange(2, smax + 1), rng.randrange(2, smax + 1), rng.choice([3, 7, 9]), rng.choice([1, 2, 3])
    A = [[rng.randrange(-r, r + 1) for _ in range(n)] for _ in range(m)]
    B = [[rng.randrange(-r, r + 1) for _ in range(n)] for _ in range(m)]
    if rng.random() < 0.6:
        i, j = rng.sample(range(m), 2)
        A[i] = list(A[j])
        if rng.random() < 0.5:
            B[i] = list(B[j])
    if rng.random() < 0.6:
        i, j = rng.sample(range(n), 2)
        for row in B:
            row[i] = row[j]
        if rng.random() < 0.5:
            for row in A:
                row[i] = row[j]
    return np.array(A, dtype=float) / d, np.array(B, dtype=float) / d


# (d, numerators of A, numerators of B, initial pivots): degenerate games found by an offline search (pure-Python re-run
# of the tableaux) in which, for the listed pivots, a rounding-noise entry in (1e-15, 1e-10] occurs in the pivot column of
# a candidate row of the min-ratio test: a guard weaker than TOL_PIV pivots on it and ends, converged, in a non-equilibrium
LH_NOISE_CORPUS = [[9, [[-2, -1, 2, 1, -1], [2, -1, -2, -2, -1], [1, 2, -2, 1, 2]],
    [[0, 1, 0, -1, 1], [2, -2, 2, -2, -2], [2, 1, 1, -1, 1]],
  [2, 4, 6, 7]],
  [7, [[1, 0, 1, 1, -1], [-1, 0, -1, -2, 2], [2, 0, -1, 0, -1], [2, 0, -1, 0, -1]],
    [[-2, 1, 1, 2, 2], [-1, 0, 0, 0, -1], [0, -2, -2, 1, 1], [0, -2, -2, 1, 1]],
  [2, 3, 4, 5]],
  [9, [[2, 0, 1], [-2, -2, 1], [-1, 2, 1], [-2, -2, 1], [-1, 1, 1]],
    [[-1, 1, -1], [1, 2, -1], [-2, -1, 1], [1, 2, -1], [1, 0, -1]],
  [0, 1, 3, 6]],
  [7, [[-1, 2, -2, -1], [-1, 0, 0, 0], [-2, 2, -2, -2], [-1, 0, 0, 0], [1, 1, 2, 1]],
    [[-2, -1, 1, -1], [-2, -1, 1, 2], [-2, 0, -1, -1], [-2, -1, 1, 2], [2, 2, -1, 0]],
  [1, 3, 5, 8]],
  [7, [[1, -1, -1, 1, -1], [0, -1, 0, 0, -1], [0, -1, -1, -1, 0], [-1, -1, 0, 0, -1], [1, -1, -1, 1, -1]],
    [[0, -1, 0, -1, -1], [0, 1, 1, -1, 1], [0, 0, 0, 0, 0], [1, -1, -1, -1, -1], [0, -1, 0, -1, -1]],
  [0, 4, 6, 8]],
  [9, [[0, -1, -1, -1], [0, 0, -1, 0], [0, -1, 0, -1], [0, -1, -1, -1]],
    [[-1, 0, 1, 0], [0, -1, 0, -1], [1, 1, -1, 1], [1, -1, 0, -1]],
  [0, 5, 6, 7]],
  [9, [[-1, 1, 2, 2, 1], [-1, -1, 1, 1, -1], [-2, 1, 2, 2, 1], [-2, 1, 2, 2, 1]],
    [[-2, 0, 2, 2, -1], [-2, 1, -2, -2, -2], [2, -1, 0, 0, -2], [2, -1, -1, -1, -1]],
  [1, 5, 8]],
  [9, [[1, 2, 2, -2], [-1, -1, 1, 2], [0, -1, -1, 1], [0, -1, -1, 1], [1, 2, 0, -2]],
    [[0, -1, -1, -1], [2, 2, -1, -1], [1, 1, -2, -2], [0, 1, -2, -2], [2, 2, 2, 2]],
  [0, 5, 7]],
  [9, [[0, 0, -3, -1, 3], [2, 1, -3, 1, -2], [-3, -2, 1, 3, 0], [3, -2, 2, 2, -2], [2, 1, -3, 1, -2]],
    [[-1, 3, -1, 2, -2], [2, 1, 2, -2, 2], [3, 0, 3, 3, -2], [-1, -2, -1, -1, -2], [2, 1, 2, -2, 2]],
  [1, 4, 6]],
  [7, [[-2, -2, 0], [2, 2, -1], [-1, 2, 2], [1, 2, -1], [-1, 2, 2]],
    [[-2, -1, 0], [0, 1, -1], [2, 0, 1], [-1, -1, 1], [2, -2, -1]],
  [2, 4, 5]],
  [9, [[2, 0, 1], [0, -1, -2], [-1, 1, 1], [0, 1, -1]],
    [[2, -1, 2], [1, -2, 2], [0, 2, 0], [2, 0, 1]],
  [3, 5]],
  [7, [[-1, -1, 1, 0, -1], [0, -1, -1, 0, 1], [-1, 0, -1, -1, 1]],
    [[-1, 1, 1, 1, 1], [1, 1, 0, -1, -1], [-1, -1, 0, 0, 1]],
  [3, 6]],
  [9, [[0, 0, 0, 1], [-1, 0, -1, -1], [0, 0, 0, -1]],
    [[-2, 2, -2, 0], [-2, 1, -2, -2], [2, 1, 2, 2]],
  [3, 5]],
  [7, [[0, -1, -1, 1], [1, 0, 0, 0], [1, 1, 1, 0], [1, 0, 0, 0]],
    [[0, 1, -1, -1], [0, -1, -1, 0], [1, 1, 1, 1], [-1, -1, -1, 0]],
  [3, 4]],
  [7, [[1, 0, 0], [-2, 0, -1], [1, -1, -2], [-2, 0, -1]],
    [[2, 2, 0], [-1, -2, 1], [1, 1, 1], [-1, -2, 1]],
  [1, 3]],
  [3, [[1, -2, 0, 3, -2], [2, 0, -2, 1, -2], [2, 1, -1, 1, 3], [-1, 3, -1, 0, 2]],
    [[-2, 2, -2, -3, 2], [-1, -1, -3, 2, -1], [0, 1, -3, -1, 1], [-2, 0, 3, 3, 0]],
  [3, 5]],
  [3, [[-2, 2, -1, -2, -2], [0, -2, 0, -2, -2], [0, 2, 2, 2, -1], [-1, 2, 2, -1, -1], [0, -2, 0, -2, -2]],
    [[2, -2, -2, -2, 0], [0, 1, -1, 2, -1], [-1, 0, 0, -2, -1], [1, -1, 0, -1, 1], [0, 1, -1, 2, -1]],
  [1, 4]],
  [9, [[-1, 1], [-1, 1], [2, 1], [1, -1], [1, 2]],
    [[1, 0], [1, 0], [0, 0], [-1, 2], [2, 2]],
  [0, 1]],
  [3, [[1, 2, -2, 0], [1, 1, -2, 0], [1, 2, 2, -2], [1, 1, -2, 0], [-2, -2, 1, -1]],
    [[1, 0, 2, 1], [1, 0, -1, 2], [2, -2, 1, 1], [-1, -1, 0, 1], [0, 1, -1, -1]],
  [4, 6]],
  [9, [[2, 1, -1], [2, -1, -2], [1, 1, -1]],
    [[0, -1, 0], [-2, -2, -2], [-2, 2, -2]],
  [3]],
  [7, [[0, -1, 0, -1], [0, 0, -1, 1], [0, -1, -1, 1]],
    [[-1, 0, 0, 1], [0, 1, 1, -1], [-1, -1, -1, -1]],
  [4]],
  [7, [[2, 1, 1, 1, -2], [1, -3, 1, 0, -2]],
    [[0, 2, -3, 2, 3], [-1, -2, 3, -2, 0]],
  [2]],
  [7, [[-1, 1, -1], [0, 1, 1], [-1, 1, 1]],
    [[1, 0, 0], [0, 1, 0], [1, 0, 1]],
  [0]],
  [9, [[-3, 3, -1, 2], [-2, 3, -2, 2]],
    [[0, 1, 2, 3], [0, 3, 2, 2]],
  [4]],
  [9, [[2, 1, 2, 1, 0], [1, -2, 2, 0, 0]],
    [[-2, 1, 2, -2, 1], [-2, -1, -2, -1, 2]],
  [2]],
  [3, [[0, -3, 0], [3, 2, -3], [-3, -1, -1], [-3, -3, -1], [3, 3, -3]],
    [[1, 0, 0], [3, 0, 0], [0, 3, 3], [-1, 1, 1], [0, 3, 3]],
  [6]]]



def warm_up(ctx, thorough):
    """compile / load every jitted kernel once, retrying races on the shared on-disk Numba cache (OSError), so that they
    cannot surface later as spurious exceptions of the function under test"""
    import time as _time
    from quantecon.game_theory import NormalFormGame, Player, lemke_howson, support_enumeration, vertex_enumeration, pure_nash_brute

    def tries(f):
        for attempt in range(6):
            try:
                return f()
            except OSError as e:
                ctx.count("numba_cache_race_retried:%s" % type(e).__name__)
                _time.sleep(0.4 * (attempt + 1))
        return f()
    for dt in [np.float64, np.int64] + ([np.float32, np.int32] if thorough else []):
        A = np.array([[3, 0], [0, 2]], dtype=dt)
        g = NormalFormGame((Player(A), Player(A.copy())))
        tries(lambda: lemke_howson(g, init_pivot=1, capping=2, full_output=True))
        tries(lambda: support_enumeration(g))
        tries(lambda: pure_nash_brute(g))
    tries(lambda: vertex_enumeration(NormalFormGame((Player(np.eye(2)), Player(np.eye(2))))))


def run(ctx):
    from quantecon.game_theory import NormalFormGame, Player, lemke_howson, support_enumeration, vertex_enumeration, pure_nash_brute
    from quantecon.game_theory.vertex_enumeration import _BestResponsePolytope, _ints_arr_to_bits
    thorough = ctx.tier == "thorough"
    rng = ctx.rng
    ctx.proofs(["C05/Props.v", "C04/PropsTie.v"])
    warm_up(ctx, thorough)
    TOL = frac(Player([1.0, 2.0]).tol)
    smax = 5 if thorough else 4
    shapes = [(m, n) for m in range(1, smax + 1) for n in range(1, smax + 1)]
    kinds = ["int", "generic", "struct", "zero_sum"]
    reps = 3 if thorough else 1
    kinds_rep = {"generic": 2} if not thorough else {}
    NTOL = Fraction(1, 10**9)

    import time as _t
    _t0 = _t.time()
    se_cases, se_meta, lhf_cases, lhq_cases, lh_meta, ve_cases, ve_meta, lhf_meta = [], [], [], [], [], [], [], []
    game_list = []
    for (m, n) in shapes:
        for kind in kinds:
            for rep in range(max(reps, kinds_rep.get(kind, 0)) if (m, n) != (1, 1) else 1):
                if not thorough and kind in ("struct", "zero_sum") and (m + n) % 2 == 1 and min(m, n) > 1:
                    continue
                game_list.append((kind,) + gen_bimatrix(rng, m, n, kind))
        # constant non-positive rows of B / columns of A (values 0, -1, -2, -4): the shift logic of the polytopes
        for rep in range(4 if thorough else 2):
            if m >= 2 and n >= 2 or rep == 0:
                game_list.append(("const_nonpos",) + gen_const_nonpos(rng, m, n))
    game_list.append(("const_nonpos", np.array([[1.0, 3.0], [2.0, 1.0]]), np.array([[-4.0, -4.0], [-4.0, -3.0]])))
    game_list.append(("const_nonpos", np.array([[-1.0, 2.0, 0.0], [-1.0, 0.0, 3.0]]), np.array([[0.0, 0.0, 0.0], [-2.0, 1.0, -2.0]])))
    # degenerate games with payoffs k/3, k/7, k/9 (not binary fractions: rounding noise in exactly-zero tableau entries)
    for d, An, Bn, _pivots in LH_NOISE_CORPUS:
        game_list.append(("kd_corpus", np.array(An, dtype=float) / d, np.array(Bn, dtype=float) / d))
    for rep in range(400 if thorough else 24):
        game_list.append(("kd_degenerate",) + gen_kd_degenerate(rng, smax))
    for kind, A, B in game_list:
            if True:
                m, n = A.shape
                float_only = kind in ("kd_corpus", "kd_degenerate")   # exact-Q Coq runs and exact enumeration are skipped
                g = NormalFormGame((Player(A), Player(B.T.copy())))
                Aq, Bq = fr_mat(A), fr_mat(B)
                Bt = B.T
                ident = (m, n, kind, repr(A.tolist()), repr(B.tolist()))
                desc = {"A": A, "B": B}
                scale = 1 + max(abs(frac(v)) for v in list(A.ravel()) + list(B.ravel()))
                nontriv = m >= 2 and n >= 2
                nondeg = (not float_only) and is_nondegenerate(Aq, Bq)
                ctx.count("bimatrix:%s:%s" % (kind, "nondegenerate" if nondeg else "degenerate"))
                exact = exact_support_enumeration(Aq, Bq) if nondeg else None

                def check_nash(what, ne, extra):
                    x, y = rat_profile(ne)
                    dfc = nash_defect(Aq, Bq, x, y)
                    if dfc > NTOL * scale:
                        ctx.fail("not_nash", "%s returned a profile that is not a Nash equilibrium (defect %.3e)" % (what, float(dfc)),
                                 dict(desc, solver=what, **extra), [ne[0].tolist(), ne[1].tolist()], "exact Nash conditions within 1e-9")
                        return False
                    return True

                # ---- support enumeration
                try:
                    se = support_enumeration(g)
                except Exception as e:
                    ctx.fail("raises", "support_enumeration raised %r" % (e,), dict(desc, solver="support_enumeration"), repr(e), None)
                    continue
                if not well_formed(se, m, n):
                    ctx.fail("malformed_output", "support_enumeration returned something that is not a list of pairs of finite vectors of lengths m, n",
                             dict(desc, solver="support_enumeration"), repr(se)[:500], None)
                    continue
                ctx.case(("se",) + ident, nontrivial=nontriv, sample={"support_enumeration": desc, "impl": [[a.tolist(), b.tolist()] for a, b in se]})
                ctx.count("se:count=%d" % min(len(se), 9))
                for ne in se:
                    check_nash("support_enumeration", ne, {})
                if not float_only:
                    se_cases.append(tup("%d%%nat" % m, "%d%%nat" % n, qlist2(Aq), qlist2(fr_mat(Bt)), clist([pairq(ne) for ne in se], "list Q * list Q")))
                    se_meta.append(desc)
                se_r = [rat_profile(ne) for ne in se]
                if nondeg:
                    if not same_set(se_r, exact) or len(se) % 2 != 1:
                        ctx.fail("support_enumeration_incomplete", "on a certified non-degenerate game support_enumeration does not return every equilibrium exactly once (odd number)",
                                 dict(desc, solver="support_enumeration"), [[a.tolist(), b.tolist()] for a, b in se], [[list(map(float, x)), list(map(float, y))] for x, y in exact])
                # ---- vertex enumeration
                if m >= 2 and n >= 2:
                    try:
                        ve = vertex_enumeration(g)
                        brps = [_BestResponsePolytope(g.players[1 - i], idx=i) for i in range(2)]
                    except Exception as e:     # Qhull may reject degenerate input (QhullError): recorded, not a model matter
                        ve, brps = None, None
                        ctx.count("ve:qhull_error:" + type(e).__name__)
                    if ve is not None and not well_formed(ve, m, n):
                        ctx.fail("malformed_output", "vertex_enumeration returned something that is not a list of pairs of finite vectors of lengths m, n",
                                 dict(desc, solver="vertex_enumeration"), repr(ve)[:500], None)
                        ve = None
                    if ve is not None:
                        ctx.case(("ve",) + ident, nontrivial=True)
                        for ne in ve:
                            check_nash("vertex_enumeration", ne, {})
                        ve_r = [rat_profile(ne) for ne in ve]
                        if nondeg and (not same_set(ve_r, exact) or not same_set(ve_r, se_r)):
                            ctx.fail("vertex_enumeration_incomplete", "on a certified non-degenerate game vertex_enumeration does not return the same set as support enumeration / the exact equilibria",
                                     dict(desc, solver="vertex_enumeration"), [[a.tolist(), b.tolist()] for a, b in ve], [[list(map(float, x)), list(map(float, y))] for x, y in exact])
                        labs = [[[int(v) for v in row] for row in brps[i].labelings] for i in range(2)]
                        bits = [[int(v) for v in _ints_arr_to_bits(brps[i].labelings)] for i in range(2)]
                        ve_cases.append(tup("%d%%nat" % m, "%d%%nat" % n, clist([nlist(r) for r in labs[0]], "list N"), clist([nlist(r) for r in labs[1]], "list N"),
                                            nlist(bits[0]), nlist(bits[1]), flist2(brps[0].equations.tolist()), flist2(brps[1].equations.tolist()),
                                            flit(brps[0].trans_recip) + "%float", flit(brps[1].trans_recip) + "%float", clist([pairf(ne) for ne in ve], "list float * list float")))
                        ve_meta.append(desc)
                # ---- Lemke-Howson: every initial pivot, capping in {None, 1, 2, 10}, a few small max_iter
                runs_f, runs_q = [], []
                for ip in range(m + n):
                    settings = [(10**6, None), (10**6, 1), (10**6, 2), (10**6, 10)]
                    if float_only:
                        settings = [(10**6, None), (10**6, rng.choice([1, 2, 10]))]
                    elif rng.random() < 0.3:
                        settings.append((rng.choice([1, 2, 3, 5]), rng.choice([None, 1, 2])))
                    for mi, cap in settings:
                        try:
                            ne, res = lemke_howson(g, init_pivot=ip, max_iter=mi, capping=cap, full_output=True)
                        except Exception as e:
                            ctx.fail("raises", "lemke_howson raised %r on a valid game / initial pivot" % (e,), dict(desc, init_pivot=ip, capping=cap, max_iter=mi), repr(e), None)
                            continue
                        if not (0 <= int(res.init) < m + n) or (cap is not None and mi == 10**6 and (int(res.init) - ip) % (m + n) >= m + n):
                            ctx.fail("lh_init", "the initial pivot reported as used is not a label 0..m+n-1", dict(desc, init_pivot=ip, capping=cap), int(res.init), "0 <= init < %d" % (m + n))
                        if not well_formed([ne], m, n) or not isinstance(res.converged, (bool, np.bool_)) or int(res.num_iter) != res.num_iter:
                            ctx.fail("malformed_output", "lemke_howson returned a malformed / non-finite profile or result record", dict(desc, init_pivot=ip, capping=cap, max_iter=mi), repr((ne, res))[:500], None)
                            continue
                        ctx.case(("lh",) + ident + (ip, mi, cap), nontrivial=nontriv,
                                 sample={"lemke_howson": dict(desc, init_pivot=ip, capping=cap), "impl": [ne[0].tolist(), ne[1].tolist()], "converged": bool(res.converged)})
                        ctx.count("lh:converged=%s" % bool(res.converged))
                        if mi == 10**6 and not res.converged:
                            ctx.fail("lh_not_converged", "lemke_howson did not converge within the default max_iter", dict(desc, init_pivot=ip, capping=cap), res.num_iter, None)
                        if res.converged:
                            check_nash("lemke_howson", ne, {"init_pivot": ip, "capping": cap, "max_iter": mi})
                        if cap is None and mi == 10**6 and int(res.init) != ip:
                            ctx.fail("lh_init", "without capping the initial pivot used differs from the one requested", dict(desc, init_pivot=ip), int(res.init), ip)
                        head = ("%d%%nat" % ip, zl(mi), "(@None Z)" if cap is None else "(Some %s)" % zl(cap))
                        tail = (blit(bool(res.converged)), zl(int(res.num_iter)), "%d%%nat" % int(res.init))
                        runs_f.append(tup(*head, pairf(ne), *tail))
                        runs_q.append(tup(*head, pairq(ne), *tail))
                lhf_cases.append(tup("%d%%nat" % m, "%d%%nat" % n, flist2(A.tolist()), flist2(Bt.tolist()),
                                     clist(runs_f, "nat * Z * option Z * (list float * list float) * bool * Z * nat")))
                lhf_meta.append(desc)
                if not float_only:
                    lhq_cases.append(tup("%d%%nat" % m, "%d%%nat" % n, qlist2(Aq), qlist2(fr_mat(Bt)),
                                         clist(runs_q, "nat * Z * option Z * (list Q * list Q) * bool * Z * nat")))
                    lh_meta.append(desc)
    ctx.count("time_s:bimatrix python phase", int(_t.time() - _t0)); _t0 = _t.time()
    bad = ctx.coq_check("support_enumeration", IMPORTS, "nat * nat * list (list Q) * list (list Q) * list (list Q * list Q)", "se_ok", se_cases,
                        chunk=max(1, len(se_cases) // 14), preamble=PRE)
    for i in bad:
        ctx.mismatch("C05.Model.support_enumeration (Q instance, list in order, 1e-9) vs support_enumeration", se_meta[i])
    nonsep = ctx.coq_check("support_enumeration_separated", IMPORTS, "nat * nat * list (list Q) * list (list Q) * list (list Q * list Q)", "se_sep", se_cases,
                           chunk=max(1, len(se_cases) // 14), preamble=PRE)
    ctx.corr["support_enumeration_separated"]["mismatches"] = 0
    ctx.count("se:borderline (an acceptance test within 1e-9 of its threshold; compared as strict <= impl <= loose)", len(nonsep))
    ctx.count("se:separated (list compared in order)", len(se_cases) - len(nonsep))
    bad = ctx.coq_check("lemke_howson_float", IMPORTS, "nat * nat * list (list float) * list (list float) * list (nat * Z * option Z * (list float * list float) * bool * Z * nat)",
                        "lhf_ok", lhf_cases, chunk=max(1, len(lhf_cases) // 14), preamble=PRE)
    for i in bad:
        ctx.mismatch("C05.Model.lemke_howson (PrimFloat instance, bit-exact NE, converged, num_iter, init) vs lemke_howson", lhf_meta[i])
    badq = ctx.coq_check("lemke_howson_exact", IMPORTS, "nat * nat * list (list Q) * list (list Q) * list (nat * Z * option Z * (list Q * list Q) * bool * Z * nat)",
                         "lhq_ok", lhq_cases, chunk=max(1, len(lhq_cases) // 14), preamble=PRE)
    # the PrimFloat instance is the tie to the code; the exact instance follows the same path unless rounding breaks an
    # exact tie of a degenerate game differently: recorded, and a mismatch only if the float instance disagrees as well
    ctx.corr["lemke_howson_exact"]["mismatches"] = 0
    ctx.count("lh:games where the exact-Q path differs from the float path (degenerate ties)", len(badq))
    if badq:
        ctx.notes.append("exact-Q Lemke-Howson path differs from the implementation on: %s" % [jsonable(lh_meta[i]) for i in badq[:3]])
    bad = ctx.coq_check("lemke_howson_exact_certificate", IMPORTS, "nat * nat * list (list Q) * list (list Q) * list (nat * Z * option Z * (list Q * list Q) * bool * Z * nat)",
                        "lhcert_ok", lhq_cases, chunk=max(1, len(lhq_cases) // 14), preamble=PRE)
    for i in bad:
        ctx.mismatch("C05.Model.lemke_howson (exact Q instance, tolerance 0): a converged run does not end in an exact Nash equilibrium (nash_checkb)", lh_meta[i])
    bad = ctx.coq_check("vertex_enumeration", IMPORTS, "nat * nat * list (list N) * list (list N) * list N * list N * list (list float) * list (list float) * float * float * list (list float * list float)",
                        "ve_ok", ve_cases, chunk=max(1, len(ve_cases) // 12), preamble=PRE)
    for i in bad:
        ctx.mismatch("C05.Model.vertex_enumeration (bit masks, xor test, mixed actions from Qhull's facets; PrimFloat, bit-exact) vs vertex_enumeration", ve_meta[i])

    ctx.count("time_s:bimatrix coq phase", int(_t.time() - _t0)); _t0 = _t.time()
    hardening_lh = []
    # ---------------------------------------------------------------- hardening: dress, options, state, generators, errors (oracle only)
    from quantecon.game_theory.support_enumeration import support_enumeration_gen
    from quantecon.game_theory.vertex_enumeration import vertex_enumeration_gen

    def ne_list(nes):
        return [[np.asarray(x, dtype=float).tolist(), np.asarray(y, dtype=float).tolist()] for x, y in nes]

    def hfail(kind, what, info, got=None, exp=None):
        ctx.fail(kind, what, info, got, exp)
    hgames = [(2, 2), (3, 2), (1, 3), (3, 1), (3, 3)] + ([(2, 4), (4, 4), (5, 2), (1, 1), (2, 5)] if thorough else [])
    for (m, n) in hgames:
        A = np.array([[rng.randrange(-3, 4) for _ in range(n)] for _ in range(m)], dtype=float)
        B = np.array([[rng.randrange(-3, 4) for _ in range(n)] for _ in range(m)], dtype=float)
        desc = {"A": A, "B": B}
        g = NormalFormGame((Player(A.copy()), Player(B.T.copy())))
        try:
            ref_lh = {ip: lemke_howson(g, init_pivot=ip, full_output=True) for ip in range(m + n)}
            ref_se = ne_list(support_enumeration(g))
            ref_ve = ne_list(vertex_enumeration(g)) if m >= 2 and n >= 2 else None
            ref_pn = pure_nash_brute(g)
        except Exception as e:
            hfail("raises", "a solver raised on a valid game: %r" % (e,), desc, repr(e))
            continue
        # ---- class 1: payoffs in other containers / dtypes / layouts (Player stores a C-ordered array of the dtype given)
        forms = {"list": lambda M: M.tolist(), "int64": lambda M: M.astype(np.int64), "F-order": lambda M: np.asfortranarray(M),
                 "view": lambda M: np.stack([M, M + 7.0], axis=-1)[..., 0], "transposed-view": lambda M: np.ascontiguousarray(M.T).T}
        if thorough:
            forms["float32"] = lambda M: M.astype(np.float32)
            forms["int32"] = lambda M: M.astype(np.int32)
        for how, f in forms.items():
            ctx.count("dress:payoffs:%s" % how)
            try:
                srcA, srcB = f(A), f(np.ascontiguousarray(B.T))
                snapA, snapB = np.array(srcA, dtype=float), np.array(srcB, dtype=float)
                g2 = NormalFormGame((Player(srcA), Player(srcB)))
                got_lh = [lemke_howson(g2, init_pivot=ip) for ip in range(m + n)]
                got_se = ne_list(support_enumeration(g2))
                got_pn = pure_nash_brute(g2)
                got_ve = ne_list(vertex_enumeration(g2)) if ref_ve is not None and how in ("list", "F-order", "view") else ref_ve
            except Exception as e:
                hfail("raises", "a solver raised when the payoffs are given as %s: %r" % (how, e), dict(desc, dress=how), repr(e))
                continue
            ctx.case(("dress_bimatrix", m, n, how, repr(A.tolist()), repr(B.tolist())), nontrivial=(m >= 2 and n >= 2))
            tol32 = 1e-5 if how == "float32" else 0.0
            def same(p, q):
                return len(p) == len(q) and all(np.allclose(a, b, atol=tol32, rtol=0) for x, y in zip(p, q) for a, b in zip(x, y))
            if not same(ne_list(got_lh), ne_list([ref_lh[ip][0] for ip in range(m + n)])) or not same(got_se, ref_se) or got_pn != ref_pn or (ref_ve is not None and not same(got_ve, ref_ve)):
                hfail("dress_payoffs", "a solver answers differently when the same payoffs are given as %s" % how, dict(desc, dress=how), [ne_list(got_lh), got_se, got_pn], [ref_se, ref_pn])
            if not (np.array_equal(np.array(srcA, dtype=float), snapA) and np.array_equal(np.array(srcB, dtype=float), snapB)):
                hfail("mutation", "a solver changed the caller's payoff arrays (%s)" % how, dict(desc, dress=how))
        if not (np.array_equal(g.payoff_arrays[0], A) and np.array_equal(g.payoff_arrays[1], B.T)):
            hfail("mutation", "a solver changed the payoff arrays stored in the game", desc)
        # ---- classes 1+4: forms of init_pivot / max_iter / capping / full_output
        for ip in range(m + n):
            ne0, res0 = ref_lh[ip]
            calls = {"init_pivot np.int64": lambda: lemke_howson(g, np.int64(ip)), "init_pivot np.int32": lambda: lemke_howson(g, init_pivot=np.int32(ip)),
                     "init_pivot np.intp": lambda: lemke_howson(g, init_pivot=np.intp(ip)), "init_pivot np.uint8": lambda: lemke_howson(g, init_pivot=np.uint8(ip)),
                     "explicit defaults": lambda: lemke_howson(g, ip, 10**6, None, False), "capping=None keyword": lambda: lemke_howson(g, init_pivot=ip, capping=None),
                     "max_iter np.int64": lambda: lemke_howson(g, init_pivot=ip, max_iter=np.int64(10**6)), "full_output=0": lambda: lemke_howson(g, init_pivot=ip, full_output=0),
                     "full_output=True": lambda: lemke_howson(g, init_pivot=ip, full_output=True)[0], "capping=10**6": lambda: lemke_howson(g, init_pivot=ip, capping=10**6),
                     "capping np.int64(10**6)": lambda: lemke_howson(g, init_pivot=ip, capping=np.int64(10**6))}
            if ip == 0:
                calls["init_pivot omitted"] = lambda: lemke_howson(g)
            for label, f in calls.items():
                ctx.count("optional:lemke_howson:%s" % label.split(" ")[0])
                try:
                    ne = f()
                    okk = len(ne) == 2 and np.array_equal(ne[0], ne0[0]) and np.array_equal(ne[1], ne0[1])
                except Exception as e:
                    ne, okk = repr(e), False
                if not okk:
                    hfail("optional_argument", "lemke_howson(%s) differs from the plain call with the same initial pivot" % label, dict(desc, init_pivot=ip, form=label), repr(ne)[:300], ne_list([ne0]))
        # capping = 0 (falsy but valid: every initial pivot gets one step, the last run is uncapped) and NumPy capping values
        cap_cases, cap_meta = [], []
        for ip in range(m + n):
            for cap in (0, np.int64(0), np.int64(2), 1):
                ctx.count("optional:lemke_howson:capping=%r" % (cap,))
                try:
                    ne, res = lemke_howson(g, init_pivot=ip, capping=cap, full_output=True)
                    if not well_formed([ne], m, n):
                        raise ValueError("malformed output")
                except Exception as e:
                    hfail("raises", "lemke_howson(capping=%r) raised %r" % (cap, e), dict(desc, init_pivot=ip, capping=int(cap)), repr(e))
                    continue
                ctx.case(("lh_capping_forms", m, n, ip, repr(cap), repr(A.tolist()), repr(B.tolist())), nontrivial=(m >= 2 and n >= 2))
                if res.converged:
                    x, y = rat_profile(ne)
                    if nash_defect(fr_mat(A), fr_mat(B), x, y) > NTOL * 10:
                        hfail("not_nash", "lemke_howson(capping=%r) reports convergence on a profile that is not a Nash equilibrium" % (cap,), dict(desc, solver="lemke_howson", init_pivot=ip, capping=int(cap)), ne_list([ne]))
                hardening_lh.append((m, n, A, B, ip, int(cap), ne, bool(res.converged), int(res.num_iter), int(res.init)))
        # ---- class 2: one game object modified between solver calls / several games alive; compare with a FRESH game
        gA = NormalFormGame((Player(A.copy()), Player(B.T.copy())))
        A2 = A + np.array([[rng.randrange(0, 2) for _ in range(n)] for _ in range(m)])
        gB = NormalFormGame((Player(A2.copy()), Player(B.T.copy())))
        curA, curB = A.copy(), B.copy()
        for step in range(3):
            a = (rng.randrange(m), rng.randrange(n))
            v = (float(rng.randrange(-3, 4)), float(rng.randrange(-3, 4)))
            ctx.count("seq:setitem_between_solver_calls")
            try:
                support_enumeration(gB); lemke_howson(gB)           # another game is used in between
                gA[a] = v
                curA[a], curB[a] = v
                fresh = NormalFormGame((Player(curA.copy()), Player(curB.T.copy())))
                for name, f in (("lemke_howson", lambda G: ne_list([lemke_howson(G, init_pivot=step % (m + n))])), ("support_enumeration", lambda G: ne_list(support_enumeration(G))),
                                ("pure_nash_brute", lambda G: pure_nash_brute(G))) + ((("vertex_enumeration", lambda G: ne_list(vertex_enumeration(G))),) if m >= 2 and n >= 2 else ()):
                    r1, r2 = f(gA), f(fresh)
                    if r1 != r2:
                        hfail("stale_state", "%s on a game modified by __setitem__ differs from the same solver on a fresh game with the current payoffs" % name,
                              {"A": curA, "B": curB, "solver": name, "modified_profile": list(a)}, r1, r2)
            except Exception as e:
                if "Qhull" not in type(e).__name__:
                    hfail("raises", "a solver raised on a modified game: %r" % (e,), {"A": curA, "B": curB}, repr(e))
        # ---- generators consumed partially, restarted, interleaved; yielded arrays must not be reused buffers
        for gname, gen_f, ref in (("support_enumeration_gen", support_enumeration_gen, ref_se),) + ((("vertex_enumeration_gen", vertex_enumeration_gen, ref_ve),) if ref_ve is not None else ()):
            ctx.count("seq:generator:%s" % gname)
            try:
                it1 = gen_f(g)
                first = [ne_list([next(it1)])[0]] if ref else []
                it2 = gen_f(gB)                                  # a second generator on another game, interleaved
                other_first = next(it2, None)
                rest = ne_list(list(it1))
                again = ne_list(list(gen_f(g)))
                copied = []
                live = []
                for ne in gen_f(g):
                    copied.append([ne[0].tolist(), ne[1].tolist()])
                    live.append(ne)
                okg = (first + rest == ref) and again == ref and copied == ref and ne_list(live) == ref
            except Exception as e:
                okg, first, rest, again = False, repr(e), None, None
            if not okg:
                hfail("generator_state", "%s: partial consumption / restart / interleaving / keeping the yielded arrays gives a different list than the one-shot call" % gname,
                      dict(desc, solver=gname), [first, rest, again], ref)
        # ---- pure_nash_brute: tol omitted / None / default / 0
        pres = [pure_nash_brute(g), pure_nash_brute(g, None), pure_nash_brute(g, tol=None), pure_nash_brute(g, tol=g.players[0].tol), pure_nash_brute(g, tol=0), pure_nash_brute(g, tol=0.0)]
        ctx.count("optional:pure_nash_brute:tol", len(pres))
        if any(r != pres[0] for r in pres[1:]):      # integer payoffs: tolerances below 1 cannot change the answer
            hfail("optional_argument", "pure_nash_brute: tol omitted / None / default / 0 disagree on an integer game", desc, pres)
    # ---- one-action players and one-player games for pure_nash_brute
    for nums in [(1,), (3,), (1, 3), (3, 1, 2), (1, 1)]:
        N = len(nums)
        data = np.array([rng.randrange(-2, 3) for _ in range(int(np.prod(nums)) * N)]).reshape(tuple(nums) + (N,))
        ctx.count("degenerate:pure_nash_brute:%s" % ("one-player" if N == 1 else "one-action player"))
        try:
            out = [tuple(int(v) for v in a) for a in pure_nash_brute(NormalFormGame(data))]
        except Exception as e:
            hfail("raises", "pure_nash_brute raised on a game with a single player / single action: %r" % (e,), {"payoff_profile_array": data}, repr(e))
            continue
        exp = [a for a in np.ndindex(*nums) if all(data[a + (i,)] >= max(data[a[:i] + (k,) + a[i + 1:] + (i,)] for k in range(nums[i])) - 1e-8 for i in range(N))]
        if out != [tuple(int(v) for v in a) for a in exp]:
            hfail("pure_nash_brute", "pure_nash_brute is wrong on a game with a single player / single action", {"payoff_profile_array": data, "tol": None}, out, exp)
    # ---------------------------------------------------------------- result aliasing across calls (oracle only)
    def keep_all(nes):
        return [(arr, arr.copy()) for ne in nes for arr in ne]
    for (m, n) in [(2, 2), (3, 3), (2, 3), (1, 2)] + ([(4, 4), (3, 5)] if thorough else []):
        games = []
        for _ in range(3):                    # several games of the SAME shape (buffers are usually cached per shape)
            A = np.array([[rng.randrange(-3, 4) for _ in range(n)] for _ in range(m)], dtype=float)
            B = np.array([[rng.randrange(-3, 4) for _ in range(n)] for _ in range(m)], dtype=float)
            games.append((A, B, NormalFormGame((Player(A.copy()), Player(B.T.copy())))))
        solvers = [("lemke_howson", lambda G: [lemke_howson(G, init_pivot=ip) for ip in range(m + n)]), ("support_enumeration", support_enumeration)]
        if m >= 2 and n >= 2:
            solvers.append(("vertex_enumeration", vertex_enumeration))
        for name, f in solvers:
            ctx.count("alias:solver:" + name)
            info = {"solver": name, "A": games[0][0], "B": games[0][1]}
            try:
                res0 = f(games[0][2])
                kept = keep_all(res0)
                ref0 = ne_list(res0)
                arrs = [a for a, _ in kept]
                stored = [pa for (_, _, G) in games for pa in G.payoff_arrays]
                for x in range(len(arrs)):
                    for st in stored:
                        if arrs[x].size and np.shares_memory(arrs[x], st):
                            hfail("result_aliases_internal_state", "a profile returned by %s shares memory with a payoff array of the game" % name, info)
                    for y in range(x + 1, len(arrs)):
                        if arrs[x].size and arrs[y].size and np.shares_memory(arrs[x], arrs[y]):
                            hfail("result_aliases_internal_state", "two vectors returned by %s share memory" % name, info)
                later = [f(G) for (_, _, G) in games[1:]] + [f(games[0][2])]        # later calls, same shapes, other inputs
                if any(not np.array_equal(a, c) for a, c in kept):
                    hfail("result_overwritten_by_later_call", "profiles returned by %s changed after later calls on games of the same shape" % name, info, ne_list(res0), ref0)
                for a, _ in kept:
                    if a.flags.writeable:
                        a[...] = -31337.0
                ctx.count("alias:scribbled", len(kept))
                again = ne_list(f(games[0][2]))
                fresh = ne_list(f(NormalFormGame((Player(games[0][0].copy()), Player(games[0][1].T.copy())))))
                if again != ref0 or fresh != ref0 or ne_list(later[-1]) != ref0:
                    hfail("result_aliases_internal_state", "%s returns something else after the arrays of an earlier result were overwritten" % name, info, [again, fresh], ref0)
                for (A_, B_, G) in games:
                    if not (np.array_equal(G.payoff_arrays[0], A_) and np.array_equal(G.payoff_arrays[1], B_.T)):
                        hfail("mutation", "%s (or overwriting its results) changed the payoffs stored in a game" % name, info)
            except Exception as e:
                if "Qhull" not in type(e).__name__:
                    hfail("raises", "the aliasing probe of %s hit an exception: %r" % (name, e), info, repr(e))
            ctx.case(("alias", name, m, n, repr(games[0][0].tolist()), repr(games[0][1].tolist())), nontrivial=(m >= 2 and n >= 2))

    # ---- class 6: documented errors
    g22 = NormalFormGame((Player(np.eye(2)), Player(np.eye(2))))
    g3 = NormalFormGame(np.zeros((2, 2, 2, 3)))
    for label, excs, fn in [
            ("lemke_howson(init_pivot=m+n)", (ValueError,), lambda: lemke_howson(g22, init_pivot=4)),
            ("lemke_howson(init_pivot=-1)", (ValueError,), lambda: lemke_howson(g22, init_pivot=-1)),
            ("lemke_howson(init_pivot=1.0)", (TypeError,), lambda: lemke_howson(g22, init_pivot=1.0)),
            ("lemke_howson(3-player game)", (NotImplementedError,), lambda: lemke_howson(g3)),
            ("lemke_howson(not a game)", (TypeError,), lambda: lemke_howson(np.eye(2))),
            ("support_enumeration(3-player game)", (NotImplementedError,), lambda: support_enumeration(g3)),
            ("support_enumeration(not a game)", (TypeError,), lambda: support_enumeration(np.eye(2))),
            ("vertex_enumeration(3-player game)", (NotImplementedError,), lambda: vertex_enumeration(g3)),
            ("vertex_enumeration(not a game)", (TypeError,), lambda: vertex_enumeration(np.eye(2)))]:
        ctx.count("expected_error:" + label)
        try:
            r = fn()
            hfail("missing_exception", "%s did not raise %s" % (label, excs[0].__name__), {"call": label}, repr(r)[:200])
        except excs:
            pass
        except Exception as e:
            hfail("wrong_exception", "%s raised %r instead of %s" % (label, e, excs[0].__name__), {"call": label}, repr(e))
    # capping forms against the float model (bit-exact)
    hc, hm = [], []
    for (m, n, A, B, ip, cap, ne, conv, ni, used) in hardening_lh:
        hc.append(tup("%d%%nat" % m, "%d%%nat" % n, flist2(A.tolist()), flist2(B.T.tolist()),
                      clist([tup("%d%%nat" % ip, zl(10**6), "(Some %s)" % zl(cap), pairf(ne), blit(conv), zl(ni), "%d%%nat" % used)], "nat * Z * option Z * (list float * list float) * bool * Z * nat")))
        hm.append({"A": A, "B": B, "init_pivot": ip, "capping": cap})
    bad = ctx.coq_check("lemke_howson_capping_forms", IMPORTS, "nat * nat * list (list float) * list (list float) * list (nat * Z * option Z * (list float * list float) * bool * Z * nat)",
                        "lhf_ok", hc, chunk=max(1, len(hc) // 10), preamble=PRE)
    for i in bad:
        ctx.mismatch("C05.Model.lemke_howson (PrimFloat) vs lemke_howson with capping=0 / NumPy integer capping", hm[i])

    ctx.count("time_s:hardening phase", int(_t.time() - _t0)); _t0 = _t.time()
    # ---------------------------------------------------------------- pure equilibria of N-player games
    pn_cases, pn_meta = [], []
    nshapes = [(2,), (2, 2), (3, 2), (2, 3), (3, 3), (4, 2), (2, 2, 2), (2, 3, 2), (3, 2, 3), (2, 2, 2, 2), (2, 3, 2, 2)]
    if thorough:
        nshapes += [(5,), (5, 4), (4, 5), (5, 5), (3, 3, 3), (4, 3, 2), (2, 4, 5), (3, 2, 2, 3), (3, 3, 3, 3), (2, 5, 2, 4)]
    DELTAS = [0.0, 1e-9, 5e-9, 1e-8, 2e-8, 0.0, 1.0]
    for nums in nshapes + [(2, 2), (3, 2), (2, 3, 2)] * (3 if thorough else 1):
        N = len(nums)
        for rep in range(4 if thorough else 2):
            kind = rng.choice(["int3", "int2", "coord", "cyclic", "near_tie", "near_tie"])
            if kind == "cyclic" and (N != 2 or nums[0] != nums[1]):
                kind = "int3"
            if kind == "near_tie":  # payoffs differing by 0, 1e-9, 5e-9, 1e-8, 2e-8 (exact doubles): the tolerance passed decides
                data = np.array([0.0 - rng.choice(DELTAS) for _ in range(int(np.prod(nums)) * N)]).reshape(tuple(nums) + (N,))
            elif kind == "cyclic":    # matching-pennies / rock-paper-scissors structure: no pure equilibrium
                k = nums[0]
                data = np.array([[[1 if i == j else -1, -1 if i == j else 1] for j in range(k)] for i in range(k)])
                data = data[:, rng.sample(range(k), k), :]
            elif kind == "coord":     # common-interest game: many pure equilibria
                base = np.array([rng.randrange(0, 3) for _ in range(int(np.prod(nums)))]).reshape(nums)
                data = np.stack([base] * N, axis=-1)
            else:
                r = 3 if kind == "int3" else 1
                data = np.array([rng.randrange(-r, r + 1) for _ in range(int(np.prod(nums)) * N)]).reshape(tuple(nums) + (N,))
            g = NormalFormGame(data)
            per = []
            for tolv in ((None, 0, 0.0, 1e-12, 1e-8, 1e-3) if kind == "near_tie" else (None, 0.0, 1.0)):
                try:
                    out = pure_nash_brute(g, tol=tolv)
                    out = [tuple(int(v) for v in a) for a in out]
                    if any(len(a) != N or any(not 0 <= a[i] < nums[i] for i in range(N)) for a in out):
                        raise ValueError("profile out of range")
                except Exception as e:
                    ctx.fail("malformed_output", "pure_nash_brute raised or returned something that is not a list of action profiles: %r" % (e,),
                             {"payoff_profile_array": data, "tol": tolv}, repr(e), None)
                    continue
                tq = TOL if tolv is None else frac(tolv)
                exp = []
                for a in np.ndindex(*nums):
                    ok = True
                    for i in range(N):
                        for k in range(nums[i]):
                            b = list(a); b[i] = k
                            if frac(data[tuple(b) + (i,)]) > frac(data[tuple(a) + (i,)]) + tq:
                                ok = False
                    if ok:
                        exp.append(tuple(int(v) for v in a))
                out_t = [tuple(int(v) for v in a) for a in out]
                ctx.case(("pure", tuple(nums), kind, repr(data.tolist()), tolv), nontrivial=(max(nums) >= 2 and N >= 2),
                         sample={"pure_nash_brute": {"payoff_profile_array": data, "tol": tolv}, "impl": out_t})
                ctx.count("pure:count=%d" % min(len(out_t), 9))
                if out_t != exp:
                    ctx.fail("pure_nash_brute", "pure_nash_brute is not exactly the list of pure profiles satisfying the best-response definition (ndindex order)",
                             {"payoff_profile_array": data, "tol": tolv}, out_t, exp)
                per.append(tup(qlit(tq), clist([natlist(a) for a in out_t], "list nat")))
            pn_cases.append(tup("[" + "; ".join(arrlit(p.payoff_array) for p in g.players) + "]", clist(per, "Q * list (list nat)")))
            pn_meta.append({"payoff_profile_array": data})
    bad = ctx.coq_check("pure_nash_brute", IMPORTS, "C14.Model.game Q * list (Q * list (list nat))", "pn_ok", pn_cases, chunk=max(1, len(pn_cases) // 8), preamble=PRE)
    for i in bad:
        ctx.mismatch("C05.PureNash.pure_nash_brute vs pure_nash.pure_nash_brute", pn_meta[i])


def replay(data):
    from quantecon.game_theory import NormalFormGame, Player, lemke_howson, support_enumeration, vertex_enumeration, pure_nash_brute
    first = data.get("first") or (data.get("mismatches") or [{}])[0]
    print("replay:", json.dumps(first)[:3000])
    inp = first.get("input", {})
    try:
        if "A" in inp and "B" in inp:
            A, B = np.array(inp["A"], dtype=float), np.array(inp["B"], dtype=float)
            g = NormalFormGame((Player(A), Player(B.T.copy())))
            Aq, Bq = fr_mat(A), fr_mat(B)
            solver = inp.get("solver", "lemke_howson")
            if solver == "support_enumeration":
                outs = support_enumeration(g)
            elif solver == "vertex_enumeration":
                outs = vertex_enumeration(g)
            else:
                outs = [lemke_howson(g, init_pivot=inp.get("init_pivot", 0), capping=inp.get("capping"), max_iter=inp.get("max_iter", 10**6))]
            for ne in outs:
                x, y = rat_profile(ne)
                print(solver, "->", ne[0].tolist(), ne[1].tolist(), " exact Nash defect:", float(nash_defect(Aq, Bq, x, y)))
            if is_nondegenerate(Aq, Bq):
                print("game certified non-degenerate; exact equilibria:", [[list(map(float, x)), list(map(float, y))] for x, y in exact_support_enumeration(Aq, Bq)])
        elif "payoff_profile_array" in inp:
            d = np.array(inp["payoff_profile_array"])
            print("pure_nash_brute ->", pure_nash_brute(NormalFormGame(d), tol=inp.get("tol")))
    except Exception as e:
        print("replay could not re-run the input:", repr(e))
    return 0

#!/venv/bin/python
"""Constants translator: re-reads numeric constants / default arguments that the
Coq models take as parameters from /repo's *current* source (python ast) and
regenerates coq/Gen/Consts.v as exact Q literals. Fail-closed: a constant that
cannot be found or evaluated raises, which the checks report as a broken
obligation."""
import ast, os, sys, fractions

REPO = os.environ.get("VERIF_REPO", "/repo")
OUT = os.path.join(os.path.dirname(os.path.abspath(__file__)), "..", "coq", "Gen", "Consts.v")

# (coq name, file, kind, spec)
#   kind 'module': module-level assignment NAME
#   kind 'default': default value of argument ARG of function FUNC (FUNC may be Class.method)
#   kind 'literal_in': the unique numeric literal compared inside function FUNC matching a predicate
SPEC = [
    ("piv_TOL_PIV", "quantecon/optimize/pivoting.py", "module", "TOL_PIV"),
    ("piv_TOL_RATIO_DIFF", "quantecon/optimize/pivoting.py", "module", "TOL_RATIO_DIFF"),
    ("lp_FEA_TOL", "quantecon/optimize/linprog_simplex.py", "module", "FEA_TOL"),
    ("lp_TOL_PIV", "quantecon/optimize/linprog_simplex.py", "module", "TOL_PIV"),
    ("lp_TOL_RATIO_DIFF", "quantecon/optimize/linprog_simplex.py", "module", "TOL_RATIO_DIFF"),
    ("lp_max_iter", "quantecon/optimize/linprog_simplex.py", "default", ("linprog_simplex", "max_iter")),
    ("lcp_max_iter", "quantecon/optimize/lcp_lemke.py", "default", ("lcp_lemke", "max_iter")),
    ("rf_iter", "quantecon/optimize/root_finding.py", "module", "_iter"),
    ("rf_xtol", "quantecon/optimize/root_finding.py", "module", "_xtol"),
    ("rf_rtol", "quantecon/optimize/root_finding.py", "module", "_rtol"),
    ("newton_tol", "quantecon/optimize/root_finding.py", "default", ("newton", "tol")),
    ("newton_maxiter", "quantecon/optimize/root_finding.py", "default", ("newton", "maxiter")),
    ("brent_max_xtol", "quantecon/optimize/scalar_maximization.py", "default", ("brent_max", "xtol")),
    ("brent_max_maxiter", "quantecon/optimize/scalar_maximization.py", "default", ("brent_max", "maxiter")),
    ("ddp_mpi_k", "quantecon/markov/ddp.py", "default", ("DiscreteDP.modified_policy_iteration", "k")),
    ("lyap_max_it", "quantecon/_matrix_eqn.py", "default", ("solve_discrete_lyapunov", "max_it")),
    ("ricc_tolerance", "quantecon/_matrix_eqn.py", "default", ("solve_discrete_riccati", "tolerance")),
    ("ricc_max_iter", "quantecon/_matrix_eqn.py", "default", ("solve_discrete_riccati", "max_iter")),
    ("fp_error_tol", "quantecon/_compute_fp.py", "default", ("compute_fixed_point", "error_tol")),
    ("fp_max_iter", "quantecon/_compute_fp.py", "default", ("compute_fixed_point", "max_iter")),
    ("nm_tol_f", "quantecon/optimize/nelder_mead.py", "default", ("nelder_mead", "tol_f")),
    ("nm_tol_x", "quantecon/optimize/nelder_mead.py", "default", ("nelder_mead", "tol_x")),
    ("nm_max_iter", "quantecon/optimize/nelder_mead.py", "default", ("nelder_mead", "max_iter")),
    ("ddp_epsilon", "quantecon/markov/ddp.py", "assign_in", ("DiscreteDP.__init__", "self.epsilon")),
    ("ddp_max_iter", "quantecon/markov/ddp.py", "assign_in", ("DiscreteDP.__init__", "self.max_iter")),
    ("player_tol", "quantecon/game_theory/normal_form_game.py", "assign_in", ("Player.__init__", "self.tol")),
    ("brent_max_sqrt_eps", "quantecon/optimize/scalar_maximization.py", "assign_in", ("brent_max", "sqrt_eps")),
    ("brent_max_golden_mean", "quantecon/optimize/scalar_maximization.py", "assign_in", ("brent_max", "golden_mean")),
    ("nm_core_rho", "quantecon/optimize/nelder_mead.py", "default", ("_nelder_mead_algorithm", "ρ")),
    ("nm_core_chi", "quantecon/optimize/nelder_mead.py", "default", ("_nelder_mead_algorithm", "χ")),
    ("nm_core_gamma", "quantecon/optimize/nelder_mead.py", "default", ("_nelder_mead_algorithm", "γ")),
    ("nm_core_sigma", "quantecon/optimize/nelder_mead.py", "default", ("_nelder_mead_algorithm", "σ")),
    ("nm_nonzdelt", "quantecon/optimize/nelder_mead.py", "assign_in", ("_initialize_simplex", "nonzdelt")),
    ("nm_zdelt", "quantecon/optimize/nelder_mead.py", "assign_in", ("_initialize_simplex", "zdelt")),
    ("lyap_stop", "quantecon/_matrix_eqn.py", "compare_literal_in", ("solve_discrete_lyapunov", "diff")),
    ("ricc_sys_tolerance", "quantecon/_matrix_eqn.py", "default", ("solve_discrete_riccati_system", "tolerance")),
    ("ricc_sys_max_iter", "quantecon/_matrix_eqn.py", "default", ("solve_discrete_riccati_system", "max_iter")),
    ("nnash_tol", "quantecon/_lqnash.py", "default", ("nnash", "tol")),
    ("nnash_max_iter", "quantecon/_lqnash.py", "default", ("nnash", "max_iter")),
    ("polym_LOW_AVOIDER", "quantecon/game_theory/howson_lcp.py", "assign_in", ("polym_lcp_solver", "LOW_AVOIDER")),
    ("lh_max_iter", "quantecon/game_theory/lemke_howson.py", "default", ("lemke_howson", "max_iter")),
    ("qnwgamma_tol", "quantecon/quad.py", "default", ("_qnwgamma1", "tol")),
]

import numpy as _np
_ENV = {"np": _np, "float": float, "int": int}


def _eval(node):
    code = compile(ast.Expression(node), "<const>", "eval")
    return eval(code, dict(_ENV))


def _find_func(tree, qual):
    parts = qual.split(".")
    body = tree.body
    node = None
    for p in parts:
        node = None
        for n in body:
            if isinstance(n, (ast.FunctionDef, ast.ClassDef)) and n.name == p:
                node = n
                break
        if node is None:
            raise KeyError(qual)
        body = node.body
    return node


def read_const(file, kind, spec):
    src = open(os.path.join(REPO, file)).read()
    tree = ast.parse(src)
    if kind == "module":
        hits = [n for n in tree.body if isinstance(n, ast.Assign)
                and any(isinstance(t, ast.Name) and t.id == spec for t in n.targets)]
        if len(hits) != 1:
            raise KeyError("%s:%s found %d times" % (file, spec, len(hits)))
        return _eval(hits[0].value)
    if kind == "default":
        func, arg = spec
        f = _find_func(tree, func)
        a = f.args
        pos = a.posonlyargs + a.args
        defaults = [None] * (len(pos) - len(a.defaults)) + list(a.defaults)
        for p, d in zip(pos, defaults):
            if p.arg == arg:
                if d is None:
                    raise KeyError("%s:%s.%s has no default" % (file, func, arg))
                return _eval_default(d, tree)
        for p, d in zip(a.kwonlyargs, a.kw_defaults):
            if p.arg == arg and d is not None:
                return _eval_default(d, tree)
        raise KeyError("%s:%s.%s" % (file, func, arg))
    if kind == "compare_literal_in":
        # the unique numeric literal compared with variable VAR inside FUNC (e.g. `while diff > 1e-15`)
        func, var = spec
        f = _find_func(tree, func)
        hits = []
        for n in ast.walk(f):
            if isinstance(n, ast.Compare) and len(n.ops) == 1:
                sides = [n.left, n.comparators[0]]
                names = [x for x in sides if isinstance(x, ast.Name) and x.id == var]
                lits = [x for x in sides if isinstance(x, ast.Constant) and isinstance(x.value, (int, float))]
                if names and lits:
                    hits.append(lits[0])
        if len(hits) != 1:
            raise KeyError("%s:%s compares %s with %d literals" % (file, func, var, len(hits)))
        return _eval(hits[0])
    if kind == "assign_in":
        func, target = spec
        f = _find_func(tree, func)
        hits = [n for n in ast.walk(f) if isinstance(n, ast.Assign) and len(n.targets) == 1
                and ast.unparse(n.targets[0]) == target]
        if len(hits) != 1:
            raise KeyError("%s:%s assigns %s %d times" % (file, func, target, len(hits)))
        return _eval(hits[0].value)
    raise ValueError(kind)


def _eval_default(d, tree):
    # a default may name a module-level constant (xtol=_xtol)
    if isinstance(d, ast.Name):
        for n in tree.body:
            if isinstance(n, ast.Assign) and any(isinstance(t, ast.Name) and t.id == d.id for t in n.targets):
                return _eval(n.value)
        raise KeyError(d.id)
    return _eval(d)


def to_q(v):
    if isinstance(v, bool):
        raise ValueError(v)
    if isinstance(v, int):
        return "(%d # 1)" % v if v >= 0 else "((%d) # 1)" % v
    fr = fractions.Fraction(float(v))  # exact value of the binary64 the code uses
    n, d = fr.numerator, fr.denominator
    return "(%d # %d)" % (n, d) if n >= 0 else "((%d) # %d)" % (n, d)


def to_dec_q(v):
    """The decimal value written in the source (1e-6 -> 1/1000000), for readable side conditions."""
    fr = fractions.Fraction(repr(float(v))) if not isinstance(v, int) else fractions.Fraction(v)
    return "(%d # %d)" % (fr.numerator, fr.denominator)


def generate():
    lines = ["(* GENERATED by harness/gen_consts.py from the repository under check -- do not edit. *)",
             "From Coq Require Import ZArith QArith PrimFloat.", "Open Scope Q_scope.", ""]
    vals = {}
    for name, file, kind, spec in SPEC:
        v = read_const(file, kind, spec)
        vals[name] = v
        lines.append("(* %s : %s %r = %r *)" % (file, kind, spec, v))
        lines.append("Definition %s : Q := %s." % (name, to_q(v)))
        if isinstance(v, float):
            lines.append("Definition %s_dec : Q := %s." % (name, to_dec_q(v)))
            lines.append("Definition %s_f : float := %s%%float." % (name, float(v).hex()))
        else:
            lines.append("Definition %s_z : Z := (%d)%%Z." % (name, v))
        lines.append("")
    return "\n".join(lines), vals


def main():
    text, vals = generate()
    os.makedirs(os.path.dirname(OUT), exist_ok=True)
    old = open(OUT).read() if os.path.exists(OUT) else None
    if old != text:
        tmp = OUT + ".tmp%d" % os.getpid()
        with open(tmp, "w") as f:
            f.write(text)
        os.replace(tmp, OUT)   # atomic: concurrent checks never see a half-written file
    return vals


if __name__ == "__main__":
    try:
        main()
    except Exception as e:  # fail closed
        print("gen_consts: FAILED: %r" % (e,))
        sys.exit(2)

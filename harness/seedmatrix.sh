#!/bin/bash
# harness/seedmatrix.sh [jobs] : run every kept seeded change (/verif/seeded/*/patch.diff) against the
# quick check of its property (scratch worktrees, never /repo itself) and write /verif/seeded/MATRIX.md
# With a second argument (a grep pattern on the directory names) only those changes are re-run and their
# rows replace/extend the rows already in MATRIX.md.
jobs=${1:-3}
pat=${2:-.}
cd /verif
log=/tmp/seedmatrix_$$.log; : > $log
ls -d seeded/C*/ | sed 's|/$||' | grep -e "$pat" | xargs -P $jobs -n 1 bash -c 'id=$(basename $0 | cut -d_ -f1); /verif/harness/seedtest.sh $id /verif/$0' >> $log 2>&1
python3 - "$log" "$pat" <<'PY'
import re, sys, json, os
rows = {}
old = {}
if sys.argv[2] != "." and os.path.exists("/verif/seeded/MATRIX.md"):
    for ln in open("/verif/seeded/MATRIX.md"):
        m = re.match(r"\| (C\S+) \| (C\d+) \| (\S+) \| (\d) \| (.*) \|$", ln.strip())
        if m:
            old[m.group(1)] = ln.strip()
cur = None
for ln in open(sys.argv[1]):
    m = re.match(r"SEEDTEST (C\d+) (\S+): demo_exit=(\S+) check_exit=(\d+) (\d+) violation-lines", ln)
    if m:
        cur = os.path.basename(m.group(2).rstrip("/"))
        rows[cur] = {"prop": m.group(1), "demo_exit": m.group(3), "check_exit": int(m.group(4)), "lines": []}
    elif cur and (ln.startswith("VIOLATION") or re.match(r"C\d\d ", ln)):
        rows[cur]["lines"].append(ln.strip())
out = ["# Seeded changes vs checks (quick tier, scratch worktrees of /repo HEAD)", "",
       "| seeded change | property | demo fails with change | check exit | how reported |", "|---|---|---|---|---|"]
caught = 0
for k in sorted(set(rows) | set(old)):
    if k not in rows:
        out.append(old[k]); caught += "| not detected |" not in old[k]
        continue
    r = rows[k]
    v = next((l for l in r["lines"] if l.startswith("VIOLATION")), "")
    how = "not detected" if r["check_exit"] == 0 else ("failing input (oracle)" if "no-failing-input-found" not in v else "broken correspondence/obligation, no failing input found")
    caught += r["check_exit"] != 0
    out.append("| %s | %s | %s | %d | %s |" % (k, r["prop"], "yes" if r["demo_exit"] == "1" else r["demo_exit"], r["check_exit"], how))
    mp = os.path.join("/verif/seeded", k, "meta.json")
    if os.path.exists(mp):
        d = json.load(open(mp)); d["check_result"] = {"check_exit": r["check_exit"], "lines": r["lines"][:3]}
        json.dump(d, open(mp, "w"), indent=1)
out += ["", "%d of %d seeded changes detected." % (caught, len(set(rows) | set(old)))]
open("/verif/seeded/MATRIX.md", "w").write("\n".join(out) + "\n")
print(out[-1])
PY
